"""C13, law ClassificationIsPerClass: lists of DIFFERENT classes (base CompilerArgs, CLikeCompilerArgs,
DCompilerArgs) in one process receive the same argument strings, in varying order.  Every list must be
what specs/arglist/ArgListClasses!StepC gives for its own class, whatever other lists did with the same
strings before (the classification of a string is cached per class).

(A) every interleaving of the ArgListClasses_MC space (three lists, one per class, created in any order)
up to a depth; (B) seeded random histories with more lists, words and operations.  The argument texts of
a case are fresh (never used before in the process), so that in every case the first list that meets a
string is the one the history says."""
from __future__ import annotations

import itertools
import json
import random
import time
import typing as T

from . import common
from .common import Check, MachineryError

from . import arglist_shapes
from .arglist_shapes import S, shape_rec, shape_key, shape_label

CLASS_NAMES = ['base', 'clike', 'd']
_FRESH = itertools.count(1)
_CLASSES: T.List[T.Any] = []


def classes() -> T.List[T.Any]:
    if not _CLASSES:
        from mesonbuild.arglist import CompilerArgs
        from mesonbuild.compilers.mixins.clike import CLikeCompilerArgs
        from mesonbuild.compilers.d import DCompilerArgs
        _CLASSES.extend([CompilerArgs, CLikeCompilerArgs, DCompilerArgs])
    return _CLASSES


def render(words: T.List[T.Dict[str, T.Any]], rnd: random.Random) -> T.List[str]:
    """fresh texts for the words (shapes) of one case"""
    tag = next(_FRESH)
    table = arglist_shapes.texts_of_shape()
    out = []
    for n, w in enumerate(words):
        forms = table.get(shape_key(w))
        if not forms:
            raise MachineryError('no text for the shape ' + repr(w))
        t = forms[rnd.randrange(len(forms))]
        if '{i}' not in t:
            t = forms[n % len(forms)]      # fixed spellings: the same word keeps its text
        out.append(t.format(i=f'{n}x{tag}'))
    if len(set(out)) != len(out):
        raise MachineryError('word table renders two words to one text: ' + repr(out))
    return out


def execute(case: T.Dict[str, T.Any], words: T.List[T.Dict[str, T.Any]], verbose: bool = False) -> T.Dict[str, T.Any]:
    from .c13_arglist import stub_compiler
    rnd = random.Random(case['vseed'])
    text = render(words, rnd)
    back = {t: j + 1 for j, t in enumerate(text)}
    comp = stub_compiler(False)
    cl = classes()

    def idx(xs: T.Any) -> T.List[int]:
        return [back.get(x, 0) for x in xs]

    objs = [cl[c - 1](comp) for c in case['cl']]
    kinds = list(case['cl'])
    rets: T.List[T.List[int]] = []
    calls: T.List[str] = []
    for op in case['ops']:
        k = op['k']
        b = [text[j - 1] for j in op['b']]
        n = op['o']
        o = objs[n - 1]
        v = rnd.randrange(6)
        ret: T.List[int] = []
        call = k
        try:
            if k == 'iadd':
                if len(b) == 1 and v == 0:
                    call = f'o{n}.append({b[0]!r})'
                    o.append(b[0])
                elif v == 1:
                    call = f'o{n}.extend({b!r})'
                    o.extend(b)
                elif v == 2:      # the batch arrives as a list of ANOTHER class (constructed, never added to)
                    other = cl[rnd.randrange(3)]
                    call = f'o{n} += {other.__name__}(c, {b!r})'
                    o += other(comp, b)
                else:
                    call = f'o{n} += {b!r}'
                    o += b
            elif k == 'xdirect':
                call = f'o{n}.extend_direct({b!r})'
                o.extend_direct(b)
            elif k == 'insert':
                call = f'o{n}.insert({op["i"]}, {b[0]!r})'
                o.insert(op['i'], b[0])
            elif k == 'remove':
                call = f'o{n}.remove({b[0]!r})'
                try:
                    o.remove(b[0])
                    ret = [1]
                except ValueError:
                    ret = [0]
            elif k == 'new':
                call = f'o{len(objs) + 1} = {cl[op["i"] - 1].__name__}(c, {b!r})'
                objs.append(cl[op['i'] - 1](comp, b))
                kinds.append(op['i'])
            elif k == 'copy':
                call = f'o{len(objs) + 1} = o{n}.copy()'
                objs.append(o.copy())
                kinds.append(kinds[n - 1])
            elif k == 'add':
                call = f'o{len(objs) + 1} = o{n} + {b!r}'
                objs.append(o + b)
                kinds.append(kinds[n - 1])
            elif k == 'radd':
                call = f'o{len(objs) + 1} = {b!r} + o{n}'
                objs.append(b + o)
                kinds.append(kinds[n - 1])
            elif k == 'read':
                call = f'list(o{n})'
                ret = idx(list(o))
            elif k == 'rev':
                call = f'list(reversed(o{n}))'
                ret = idx(list(reversed(o)))
            elif k == 'len':
                call = f'len(o{n})'
                ret = [len(o)]
            else:
                raise MachineryError('unknown operation ' + k)
        except MachineryError:
            raise
        except Exception as e:
            call += f'  -> raised {type(e).__name__}: {e}'
            ret = [-1]
        rets.append(ret)
        if verbose:
            calls.append(f'[{CLASS_NAMES[kinds[n - 1] - 1] if k != "new" else CLASS_NAMES[op["i"] - 1]}] ' + call)
    obs = []
    for j, o in enumerate(objs):
        if type(o) is not cl[kinds[j] - 1]:
            obs.append([[-2]])            # copy / + / radd must keep the class
            continue
        try:
            obs.append([idx(list(o))])
        except Exception:
            obs.append([[-1]])
    case['r'] = rets
    case['o'] = obs
    if verbose:
        case['calls'] = calls
        case['text'] = text
    return case


# ---------------------------------------------------------------------------

def _worker_enum(args: T.Tuple[T.Dict[str, T.Any], int, T.List[int], int]) -> T.List[T.Dict[str, T.Any]]:
    cspace, depth, first, sd = args
    common.use_repo_meson()
    ops = cspace['ops']
    words = cspace['words']
    out = []
    for perm in cspace['perms']:
        for tail in itertools.product(range(len(ops)), repeat=depth - len(first)):
            s = list(first) + list(tail)
            h = 0
            for j in s + list(perm):
                h = (h * 1009 + j + 1) % 2147483647
            c = execute({'cl': list(perm), 'ops': [ops[j] for j in s], 'vseed': sd * 1000003 + h}, words)
            del c['ops']
            c['s'] = [j + 1 for j in s]
            out.append(c)
    return out


def big_words() -> T.List[T.Dict[str, T.Any]]:
    """every shape that has a text: two words of it when the text carries an id, one otherwise"""
    ws = []
    for sh, forms in arglist_shapes.texts_of_shape().items():
        ws.append(shape_rec(sh))
        if '{i}' in forms[0]:
            ws.append(shape_rec(sh))
    return ws


def _prepended_once(w: T.Dict[str, T.Any]) -> bool:
    """-L<x>.a and the like: prepended AND once-only under the D tables (see the assumptions of the check)"""
    return w['pfx'] == 'L' and w['bare'] == 0 and w['sfx'] in ('a', 'so', 'lib', 'dll', 'dylib', 'vso')


def _rand_case(rnd: random.Random, words: T.List[T.Dict[str, T.Any]]) -> T.Dict[str, T.Any]:
    nwords = len(words)
    multi = [j + 1 for j, w in enumerate(words) if arglist_shapes.multi_rule(shape_key(w))]
    # a history concentrates on a few words; half of them are texts matched by several rules
    pool = [rnd.choice(multi) if rnd.random() < 0.5 else rnd.randrange(1, nwords + 1) for _ in range(rnd.randint(3, 10))]
    pool_d = [j for j in pool if not _prepended_once(words[j - 1])] or [1]

    def batch(cls: int, lo: int = 0) -> T.List[int]:
        return [rnd.choice(pool_d if cls == 3 else pool) for _ in range(rnd.randint(lo, rnd.choice([1, 2, 3, 5])))]

    cl = [rnd.randint(1, 3) for _ in range(rnd.randint(2, 3))]
    if len(set(cl)) == 1:
        cl[0] = cl[0] % 3 + 1
    kinds = list(cl)
    ops = []
    for _ in range(rnd.randint(3, 30)):
        r = rnd.random()
        o = rnd.randint(1, len(kinds))
        c = kinds[o - 1]
        if r < 0.5:
            ops.append({'k': 'iadd', 'o': o, 'b': batch(c), 'i': 0})
        elif r < 0.6:
            ops.append({'k': 'xdirect', 'o': o, 'b': batch(c), 'i': 0})
        elif r < 0.65:
            ops.append({'k': 'insert', 'o': o, 'b': batch(c, 1)[:1], 'i': rnd.choice([0, 1, -1, 99])})
        elif r < 0.68:
            ops.append({'k': 'remove', 'o': o, 'b': batch(c, 1)[:1], 'i': 0})
        elif r < 0.8:
            ops.append({'k': rnd.choice(['read', 'read', 'rev', 'len']), 'o': o, 'b': [], 'i': 0})
        elif len(kinds) < 6:
            k = rnd.choice(['new', 'new', 'copy', 'add', 'radd'])
            nc = rnd.randint(1, 3) if k == 'new' else c
            ops.append({'k': k, 'o': o if k != 'new' else 1, 'b': batch(nc) if k != 'copy' else [], 'i': nc if k == 'new' else 0})
            kinds.append(nc)
        else:
            ops.append({'k': 'iadd', 'o': o, 'b': batch(c), 'i': 0})
    return {'cl': cl, 'ops': ops, 'vseed': rnd.randrange(1 << 30)}


def _worker_rand(args: T.Tuple[int, int, int]) -> T.List[T.Dict[str, T.Any]]:
    lo, hi, sd = args
    common.use_repo_meson()
    words = big_words()
    return [execute(_rand_case(random.Random(sd * 15485863 + j), words), words) for j in range(lo, hi)]


# ---------------------------------------------------------------------------

def signature(c: T.Dict[str, T.Any], v: T.Dict[str, T.Any], words: T.List[T.Dict[str, T.Any]]) -> str:
    upto = min(v.get('step') or len(c['ops']), len(c['ops']))
    hist = ';'.join(f"{op['k']}{op['o']}" + (f"<{CLASS_NAMES[op['i'] - 1]}>" if op['k'] == 'new' else '') +
                    '[' + ','.join(shape_label(words[j - 1]) + '#' + str(j) for j in op['b']) + ']'
                    for op in c['ops'][:upto])
    return f"{v['clause']}@classes=" + ','.join(CLASS_NAMES[k - 1] for k in c['cl']) + ':' + hist


def repeat_signature(c: T.Dict[str, T.Any], v: T.Dict[str, T.Any], words: T.List[T.Dict[str, T.Any]]) -> T.Optional[str]:
    """a shorter name for one kind of rejected trace of the directed family P: the list is exactly the expected one plus
    further occurrences of a once-only word (the order of the expected members is unchanged)"""
    exp, got = v.get('expected'), v.get('got')
    if v['clause'] != 'ClassificationIsPerClass' or not isinstance(exp, list) or not isinstance(got, list) or len(c['cl']) != 1:
        return None
    surplus = [j for j in sorted(set(got)) if got.count(j) > exp.count(j)]
    rest = list(got)
    for j in surplus:
        for _ in range(got.count(j) - exp.count(j)):
            rest.reverse()
            rest.remove(j)
            rest.reverse()
    if not surplus or rest != exp:
        return None
    if any(not 0 < j <= len(words) for j in surplus):
        return None
    return f"RepeatInOneBatchKept@class={CLASS_NAMES[c['cl'][0] - 1]}:" + ','.join(shape_label(words[j - 1]) for j in surplus)


def judge(chk: Check, cases: T.List[T.Dict[str, T.Any]], words: T.List[T.Dict[str, T.Any]], cops: T.List[T.Dict[str, T.Any]],
          label: str, tlc_part: T.Callable[[str, T.Union[int, str]], common.TLCResult],
          short: T.Optional[T.Callable[..., T.Optional[str]]] = None) -> None:
    from concurrent.futures import ThreadPoolExecutor
    keys = ('id', 'cl', 's', 'r', 'o') if cops else ('id', 'cl', 'ops', 'r', 'o')
    for n, c in enumerate(cases):
        c['id'] = n
    head = {'alpha': [], 'ops': [], 'words': words, 'cops': cops}

    def payload(part: T.Sequence[T.Dict[str, T.Any]]) -> str:
        return json.dumps({**head, 'cases': [{k: c[k] for k in keys} for c in part]}, separators=(',', ':'))

    nparts = max(1, min(4, len(cases) // 4000))
    size = (len(cases) + nparts - 1) // nparts
    parts = [cases[j:j + size] for j in range(0, len(cases), size)]
    t0 = time.time()
    with ThreadPoolExecutor(max_workers=nparts) as tp:
        results = list(tp.map(lambda p: tlc_part(payload(p), max(2, common.NCPU // nparts)), parts))
    bad: T.List[T.Dict[str, T.Any]] = []
    for part, res in zip(parts, results):
        if not res.clean:
            raise MachineryError('TraceArgList did not complete cleanly:\n' + res.stdout[-1500:])
        if res.distinct != 2 * len(part):
            raise MachineryError(f'TraceArgList judged {res.distinct // 2} of {len(part)} cases')
        chk.add_tlc(f'TraceArgList[{label}]', res, model=False)
        got = res.json_lines()
        printed = sum(1 for ln in res.stdout.splitlines() if ln.startswith('"'))
        if printed != len(got) or any(not isinstance(v, list) for v in got):
            got = tlc_part(payload(part), 1).json_lines()
        for vs in got:
            bad += vs
    chk.traces += len(cases)
    chk.evaluations += len(cases)
    seen: T.Set[str] = set()
    for v in bad:
        c = dict(cases[v['id']])
        if v['clause'] == 'HarnessBadObject':
            raise MachineryError('harness generated an operation on a missing object: ' + repr(v))
        if 'ops' not in c:
            c['ops'] = [cops[j - 1] for j in c['s']]
        sig = (short(c, v, words) if short is not None else None) or signature(c, v, words)
        if sig in seen:
            continue
        seen.add(sig)
        if len(seen) > 40:      # the first 20 are reported anyway (Check.max_reported)
            chk.suppressed += 1
            continue
        common.use_repo_meson()
        ver = execute({'cl': c['cl'], 'ops': c['ops'], 'vseed': c['vseed']}, words, verbose=True)
        text = ver['text']
        chk.violation(sig, {'verdict': v, 'classes_case': {'cl': c['cl'], 'ops': c['ops'], 'vseed': c['vseed']}, 'words': words,
                            'family': 'P' if short is not None else '',
                            'calls': ver['calls'], 'returned': ver['r'], 'final': ver['o'],
                            'expected_words': [f"{shape_label(words[j - 1])}#{j}" if 0 < j <= len(words) else j for j in v.get('expected', [])]
                            if v['clause'] == 'ClassificationIsPerClass' else v.get('expected'),
                            'note': 'texts are fresh per run; expected/got are word numbers', 'text_of_this_run': text})
    arglist_shapes.fail_fast(chk)
    return None


def run(chk: Check, ex: T.Any, tlc_part: T.Callable[[str, T.Union[int, str]], common.TLCResult], dbg: T.Callable[[str], None]) -> None:
    from .common import SPECS, run_tlc
    quick = chk.tier == 'quick'
    depth = 3
    wordsel = [1, 2, 10, 11] if quick else [1, 2, 3, 10, 11, 12]
    cfg = ('SPECIFICATION Spec\nCONSTANTS\n WordSel = {%s}\n MaxBatch = 1\n MaxDepth = %d\n OpKinds = {"iadd", "read"}\n'
           'INVARIANT ClassificationIsPerClass\nINVARIANT ClassesDiffer\nINVARIANT StatementLaterSettingWins\n'
           'INVARIANT UnprefixedNeverMoved\nCHECK_DEADLOCK FALSE\nPOSTCONDITION EmitSpace\n'
           % (', '.join(map(str, wordsel)), depth if quick else depth + 1))
    res = run_tlc(SPECS / 'arglist', 'ArgListClasses_MC', cfg_text=cfg, collect=['cspace.json'], timeout=3000, allow_violation=False)
    chk.add_tlc('ArgListClasses_MC', res)
    dbg(f'classes model {res.distinct} states {res.wall:.1f}s')
    cspace = json.loads(res.collected['cspace.json'])
    nops = len(cspace['ops'])
    cases: T.List[T.Dict[str, T.Any]] = []
    for d in range(1, depth + 1):
        firsts = [[j] for j in range(nops)]
        for part in ex.map(_worker_enum, [(cspace, d, f, chk.seed) for f in firsts]):
            cases.extend(part)
    for c in cases:
        if len(c['s']) >= 2:
            chk.nontriv('K' + json.dumps([c['cl'], c['s']]))
    judge(chk, cases, cspace['words'], cspace['ops'], 'classes-A', tlc_part)
    dbg(f'classes A {len(cases)} cases')
    # (P) directed: a once-only text mentioned twice inside ONE batch - dropped like a repeat across batches, whether the
    # class appends it (library files, -l...) or puts it in front (-L<file>.a under the D tables)
    pwords = [shape_rec(S('L', 'a')), shape_rec(S(sfx='a')), shape_rec(S('I')), shape_rec(S('l'))]
    pcases = []
    for c in (1, 2, 3):
        for b in ([1, 1], [1, 3, 1], [2, 2], [2, 3, 2], [4, 4], [3, 1, 2, 4, 1, 2, 4]):
            for tail in ([], [b[:1]]):
                ops = [{'k': 'iadd', 'o': 1, 'b': b, 'i': 0}] + [{'k': 'iadd', 'o': 1, 'b': t, 'i': 0} for t in tail]
                pcases.append(execute({'cl': [c], 'ops': ops, 'vseed': chk.seed * 7 + len(pcases)}, pwords))
    judge(chk, pcases, pwords, [], 'classes-P', tlc_part, short=repeat_signature)
    dbg(f'classes P {len(pcases)} cases')
    n_rand = 1500 if quick else 40000
    step = max(1, n_rand // (common.NCPU * 2))
    rcases: T.List[T.Dict[str, T.Any]] = []
    for part in ex.map(_worker_rand, [(lo, min(n_rand, lo + step), chk.seed) for lo in range(0, n_rand, step)]):
        rcases.extend(part)
    for c in rcases:
        chk.nontriv('KR' + json.dumps([c['cl'], c['ops']]))
    judge(chk, rcases, big_words(), [], 'classes-B', tlc_part)
    dbg(f'classes B {len(rcases)} cases')
    if rcases:
        ver = execute({k: rcases[len(rcases) // 2][k] for k in ('cl', 'ops', 'vseed')}, big_words(), verbose=True)
        chk.sample({'classes': [CLASS_NAMES[k - 1] for k in ver['cl']], 'calls': ver['calls'], 'final': ver['o']}, limit=12)
    chk.extra['classes'] = {'exhaustive_interleavings': len(cases), 'random_histories': len(rcases), 'depth': depth,
                            'words': len(big_words())}


def replay(chk: Check, det: T.Dict[str, T.Any], tlc_part: T.Callable[[str, T.Union[int, str]], common.TLCResult]) -> None:
    common.use_repo_meson()
    c = execute(dict(det['classes_case']), det['words'])
    judge(chk, [c], det['words'], [], 'replay-classes', tlc_part, short=repeat_signature if det.get('family') == 'P' else None)
