"""C13, part (C): compile command lines of generated C projects.

Small C projects with the same settings given at several levels (global, project, -Dc_args, dependency,
target) are configured with the real ``meson setup`` (ninja backend, stub ninja); ARGS of every compile
statement of build.ninja is projected onto the arguments the project supplied and judged by
TraceArgList as the history the backend documents for a compile command
(backends.generate_basic_compiler_args / ninjabackend._generate_single_compile_target_args:
project args, then global args, then c_args from the command line, then each dependency's
compile_args in reverse order of mention, then the target's own c_args - each one `+=`, no read in
between)."""
from __future__ import annotations

import random
import re
import shlex
import subprocess
import typing as T

from . import common
from .common import Check, MachineryError, scratch

from . import arglist_shapes
from .arglist_shapes import S

POOL = [
    # text, shape (the kind of a shape comes from the rule book, see arglist_shapes)
    ('-DV1', S('D')), ('-DV2=2', S('D')), ('-UV3', S('U')),
    ('-DDUP', S('D')), ('-DDUP=1', S('D')),
    ('-I/c13/i1', S('I')), ('-I/c13/i2', S('I')), ('-I/c13/dup', S('I')),
    ('-Wno-c13a', S()), ('-Wno-c13b', S()),
    ('-pthread', S(exact='once')),
    # settings whose value ends like a library file name: still settings (ArgListClassify, precedence of the rules)
    ('-DMODULE_SUFFIX=.so', S('D', 'so')), ('-DMODULE_SUFFIX=.dll', S('D', 'dll')), ('-I/c13/third_party/zlib.a', S('I', 'a')),
    ('-UIMPLIB.lib', S('U', 'lib')),
]
ENV_OK = {'-DV1', '-DV2=2', '-UV3', '-DDUP', '-DDUP=1', '-I/c13/i1', '-I/c13/i2', '-I/c13/dup', '-DMODULE_SUFFIX=.so',
          '-I/c13/third_party/zlib.a'}


def alpha() -> T.List[T.Dict[str, T.Any]]:
    arglist_shapes.load()
    out = []
    for j, (_, sh) in enumerate(POOL):
        k = arglist_shapes.kind_clike(sh)
        out.append({'p': k[0], 'd': k[1], 'g': k[2], 's': k[3], 'ab': k[4], 'm': 0, 'id': j})
    return out


def _pick(rnd: random.Random, pool: T.Sequence[str], lo: int = 0, hi: int = 4) -> T.List[str]:
    return [rnd.choice(pool) for _ in range(rnd.randint(lo, hi))]


def _lst(xs: T.Sequence[str]) -> str:
    return '[' + ', '.join("'" + x + "'" for x in xs) + ']'


def gen_project(rnd: random.Random) -> T.Dict[str, T.Any]:
    texts = [t for t, _ in POOL]
    proj = {'global': _pick(rnd, texts), 'project': _pick(rnd, texts), 'env': _pick(rnd, sorted(ENV_OK), 0, 3),
            'deps': [_pick(rnd, texts, 1, 3) for _ in range(rnd.randint(0, 3))], 'targets': []}
    for n in range(rnd.randint(2, 4)):
        proj['targets'].append({'name': f't{n}', 'c_args': _pick(rnd, texts),
                                'deps': sorted(rnd.sample(range(len(proj['deps'])), rnd.randint(0, len(proj['deps']))))})
    return proj


def write_project(proj: T.Dict[str, T.Any], src: T.Any) -> None:
    lines = ["project('c13p', 'c', default_options : ['warning_level=0', 'b_pie=false'])"]
    if proj['global']:
        lines.append(f"add_global_arguments({_lst(proj['global'])}, language : 'c')")
    if proj['project']:
        lines.append(f"add_project_arguments({_lst(proj['project'])}, language : 'c')")
    for j, d in enumerate(proj['deps']):
        lines.append(f"d{j} = declare_dependency(compile_args : {_lst(d)})")
    for t in proj['targets']:
        deps = '[' + ', '.join(f'd{j}' for j in t['deps']) + ']'
        lines.append(f"static_library('{t['name']}', '{t['name']}.c', c_args : {_lst(t['c_args'])}, dependencies : {deps})")
        (src / f"{t['name']}.c").write_text('int f_%s(void) { return 0; }\n' % t['name'])
    (src / 'meson.build').write_text('\n'.join(lines) + '\n')


def history(proj: T.Dict[str, T.Any], t: T.Dict[str, T.Any]) -> T.List[T.Dict[str, T.Any]]:
    idx = {txt: j + 1 for j, (txt, _) in enumerate(POOL)}
    batches = [proj['project'], proj['global'], proj['env']] + [proj['deps'][j] for j in reversed(t['deps'])] + [t['c_args']]
    return [{'k': 'iadd', 'o': 1, 'b': [idx[x] for x in b], 'i': 0} for b in batches]


def observe(proj: T.Dict[str, T.Any], d: T.Any) -> T.Dict[str, T.List[str]]:
    src = d / 'src'
    src.mkdir()
    write_project(proj, src)
    cmd = [common.PYTHON, str(common.REPO / 'meson.py'), 'setup', str(d / 'b'), str(src)]
    if proj['env']:
        cmd.append('-Dc_args=' + ' '.join(proj['env']))
    import os
    env = dict(os.environ)
    env['NINJA'] = str(common.VERIF / 'tools' / 'ninja-stub')
    for k in ('CFLAGS', 'CPPFLAGS', 'LDFLAGS'):
        env.pop(k, None)
    try:
        p = subprocess.run(cmd, stdout=subprocess.PIPE, stderr=subprocess.STDOUT, text=True, timeout=900, env=env, errors='replace')
    except subprocess.TimeoutExpired as ex:
        raise MachineryError('meson setup timed out on a generated C project') from ex
    if p.returncode != 0:
        raise MachineryError('meson setup failed on a generated C project:\n' + p.stdout[-2000:])
    text = (d / 'b' / 'build.ninja').read_text()
    out: T.Dict[str, T.List[str]] = {}
    for m in re.finditer(r'^build (\S+)\.c\.o: c_COMPILER [^\n]*\n((?: [^\n]*\n)+)', text, re.M):
        name = m.group(1).split('/')[-1]
        am = re.search(r'^ ARGS = (.*)$', m.group(2), re.M)
        if am is None:
            raise MachineryError('compile statement without ARGS in build.ninja')
        out[name] = shlex.split(am.group(1).replace('$ ', ' ').replace('$:', ':').replace('$$', '$'))
    return out


def run(chk: Check, judge: T.Callable[..., None]) -> None:
    quick = chk.tier == 'quick'
    n_projects = 3 if quick else 24
    al = alpha()
    from .c13_arglist import MARKERS
    table = al + MARKERS
    idx = {txt: j + 1 for j, (txt, _) in enumerate(POOL)}
    cases = []
    detail = []
    for pno in range(n_projects):
        rnd = random.Random(chk.seed * 92821 + pno)
        proj = gen_project(rnd)
        with scratch('c13p-') as d:
            args = observe(proj, d)
        for t in proj['targets']:
            if t['name'] not in args:
                raise MachineryError(f"no compile statement for {t['name']} in build.ninja")
            ops = history(proj, t)
            got = [idx[a] for a in args[t['name']] if a in idx]
            cases.append({'ops': ops, 'g': 0, 'f': 2, 'vseed': 0, 'r': [[] for _ in ops], 'o': [[got, [], []]],
                          'project': proj, 'target': t['name'], 'args': args[t['name']]})
    chk.evaluations += len(cases)
    for c in cases[:2]:
        chk.sample({'project': c['project'], 'target': c['target'], 'ARGS': c['args']}, limit=10)
    judge(chk, cases, table, 'C-projects')
    chk.extra['generated_c_projects'] = n_projects
    chk.extra['compile_statements_judged'] = len(cases)
    del detail


def replay(chk: Check, det: T.Dict[str, T.Any], judge: T.Callable[..., None]) -> None:
    proj = det['project']
    from .c13_arglist import MARKERS
    table = alpha() + MARKERS
    idx = {txt: j + 1 for j, (txt, _) in enumerate(POOL)}
    with scratch('c13p-') as d:
        args = observe(proj, d)
    cases = []
    for t in proj['targets']:
        ops = history(proj, t)
        got = [idx[a] for a in args[t['name']] if a in idx]
        cases.append({'ops': ops, 'g': 0, 'f': 2, 'vseed': 0, 'r': [[] for _ in ops], 'o': [[got, [], []]],
                      'project': proj, 'target': t['name'], 'args': args[t['name']]})
    judge(chk, cases, table, 'replay-project')
