"""C13: concrete argument texts and their *shapes* (what the classification rules of an argument-list class can
see of a text: the table prefix it starts with, whether it is exactly that prefix, a once-only name, how it ends,
whether it is an absolute path).  The harness only states the shape of a text; how a class treats a shape - in
particular a shape that matches SEVERAL rules at once, e.g. ``-DSUFFIX=.so`` (override-type prefix + library
suffix) - is decided by the rule book ``specs/arglist/ArgListClassify.tla``.  ``load()`` runs TLC on
``ArgListClassify_MC`` (laws over every class x valid shape) and reads back the exported table
(class, shape) -> kind; every other C13 module takes the kind of a text from there."""
from __future__ import annotations

import json
import typing as T

from . import common
from .common import MachineryError, SPECS, run_tlc

ShapeT = T.Tuple[str, int, str, str, int]        # pfx, bare, exact, sfx, ab
KEYS = ('pfx', 'bare', 'exact', 'sfx', 'ab')
DEFAULT_DIRS = ['/usr/include', '/usr/local/include', '/verif-no-such-dir/include']

PFX_TEXT = {'I': '-I', 'L': '-L', 'D': '-D', 'U': '-U', 'isys': '-isystem', 'l': '-l', 'wll': '-Wl,-l',
            'rpath': '-Wl,-rpath,', 'rlink': '-Wl,-rpath-link,'}
ONCE_NAMES = ['-pthread', '-pipe', '-c', '-S', '-E', '-Wl,--export-dynamic']


def S(pfx: str = 'none', sfx: str = 'none', ab: int = 0, bare: int = 0, exact: str = 'none') -> ShapeT:
    return (pfx, bare, exact, sfx, ab)


def shape_rec(s: ShapeT) -> T.Dict[str, T.Any]:
    return dict(zip(KEYS, s))


def shape_key(rec: T.Dict[str, T.Any]) -> ShapeT:
    return (rec['pfx'], rec['bare'], rec['exact'], rec['sfx'], rec['ab'])


def shape_label(s: T.Union[ShapeT, T.Dict[str, T.Any]]) -> str:
    if isinstance(s, dict):
        s = shape_key(s)
    pfx, bare, exact, sfx, ab = s
    out = pfx if pfx != 'none' else ('once' if exact == 'once' else 'plain')
    if pfx != 'none' and exact == 'once':
        out += '-once'
    if bare:
        out = 'bare' + out
    if sfx != 'none':
        out += '.' + sfx
    return out + ('/' if ab else '')


# ---------------------------------------------------------------------------
# templates: text with {i} (an id that keeps arguments of one kind apart) / {D} (a default include directory),
# the shape of the text, and s (1 = -isystem<default dir>, 2 = bare -isystem, 3 = a default dir on its own).
# A FIXED group is a list of texts without {i}; the id selects the member, all members must be of one kind.

Template = T.Tuple[T.Union[str, T.List[T.Tuple[str, ShapeT]]], T.Optional[ShapeT], int]

TEMPLATES: T.List[Template] = [
    # ---- one rule matches (the texts the check has always used; the order inside a kind is kept) ----
    ('-Iinc{i}', S('I'), 0), ('-Llib{i}', S('L'), 0), ('-I/abs/inc{i}', S('I'), 0), ('-L/abs/lib{i}', S('L'), 0),
    ('-I../x{i}', S('I'), 0), ('-I.{i}', S('I'), 0),
    ('-DFOO{i}', S('D'), 0), ('-DFOO{i}=1', S('D'), 0), ('-UFOO{i}', S('U'), 0), ('-isystemsys{i}', S('isys'), 0),
    ('-isystem/opt/sys{i}', S('isys'), 0), ('-D_X{i}="a b"', S('D'), 0),
    ('-lfoo{i}', S('l'), 0), ('libfoo{i}.a', S(sfx='a'), 0), ('sub/libfoo{i}.so', S(sfx='so'), 0), ('-Wl,-lfoo{i}', S('wll'), 0),
    ('libfoo{i}.so.1.2.3', S(sfx='vso'), 0), ('x/libfoo{i}.so.4', S(sfx='vso'), 0), ('foo{i}.a', S(sfx='a'), 0),
    ('/opt/l/libbar{i}.a', S(sfx='a', ab=1), 0), ('/opt/l/libbar{i}.so', S(sfx='so', ab=1), 0),
    ('/opt/l/libbar{i}.so.2', S(sfx='vso', ab=1), 0),
    ('-Wl,-rpath,/r{i}', S('rpath'), 0), ('foo{i}.dll', S(sfx='dll'), 0), ('foo{i}.lib', S(sfx='lib'), 0),
    ('libfoo{i}.dylib', S(sfx='dylib'), 0), ('-Wl,-rpath-link,/r{i}', S('rlink'), 0), ('-Wl,sub/libw{i}.so', S('wl', 'so'), 0),
    ([(n, S('wl' if n.startswith('-Wl,') else 'none', exact='once')) for n in ONCE_NAMES], None, 0),
    ('/opt/b/foo{i}.dll', S(sfx='dll', ab=1), 0), ('/opt/b/foo{i}.lib', S(sfx='lib', ab=1), 0),
    ('/opt/b/libfoo{i}.dylib', S(sfx='dylib', ab=1), 0),
    ('-O{i}', S(), 0), ('-Wopt{i}', S(), 0), ('obj{i}.o', S(), 0), ('src{i}.c', S(), 0), ('-fopt{i}', S(), 0),
    ('-Wl,--opt{i}', S('wl'), 0),
    ([('-D', S('D', bare=1)), ('-U', S('U', bare=1)), ('-Wl,-rpath,', S('rpath', bare=1)),
      ('-Wl,-rpath-link,', S('rlink', bare=1)), ('-include', S()), ('-MD', S())], None, 0),
    ('foo{i}.so.1', S(sfx='sov'), 0),
    ([('-l', S('l', bare=1)), ('-Wl,-l', S('wll', bare=1))], None, 0),
    ([('-I', S('I', bare=1)), ('-L', S('L', bare=1))], None, 0),
    ('/opt/o/obj{i}.o', S(ab=1), 0), ('/opt/src{i}.c', S(ab=1), 0),
    ('-isystem{D}', S('isys'), 1), ('-isystem={D}', S('isys'), 1),
    ('-isystem', S('isys', bare=1), 2),
    ('{D}', S(ab=1), 3),
    # "if the path is a default path": the same directory spelled differently / a directory below a default one
    ('-isystem{D}/', S('isys'), 1), ('-isystem={D}/.', S('isys'), 1), ('{D}/', S(ab=1), 3),
    ('-isystem{D}/sub{i}', S('isys'), 0), ('-isystem={D}{i}', S('isys'), 0),
    # ---- SEVERAL rules match: a table prefix and a library suffix / the lib*.so.N pattern ----
    ('-Iinc{i}/z.dll', S('I', 'dll'), 0), ('-L/opt/vendor{i}.lib', S('L', 'lib'), 0), ('-Ifw{i}.dylib', S('I', 'dylib'), 0),
    ('-L../x{i}.dll', S('L', 'dll'), 0),
    ('-DSFX{i}=.dll', S('D', 'dll'), 0), ('-DLIBNAME{i}=foo.lib', S('D', 'lib'), 0), ('-UX{i}.dll', S('U', 'dll'), 0),
    ('-isystem/sdk/fw{i}.dylib', S('isys', 'dylib'), 0), ('-isystem=/sdk{i}/y.lib', S('isys', 'lib'), 0),
    ('-DIMPLIB{i}=libfoo.dylib', S('D', 'dylib'), 0),
    ('-l:libfoo{i}.a', S('l', 'a'), 0), ('-lfoo{i}.so', S('l', 'so'), 0), ('-Wl,-l:libw{i}.a', S('wll', 'a'), 0),
    ('-lz{i}.dll', S('l', 'dll'), 0), ('-l:libv{i}.so.1', S('l', 'sov'), 0),
    ('-Wl,-rpath,/r{i}/x.dll', S('rpath', 'dll'), 0), ('-Wl,-rpath-link,/r{i}.lib', S('rlink', 'lib'), 0),
    ('-Ithird{i}/zlib.a', S('I', 'a'), 0), ('-L/opt/v{i}.so', S('L', 'so'), 0), ('-L/opt/vendor{i}.a', S('L', 'a'), 0), ('-I/x/libinc{i}.so.1.2', S('I', 'vso'), 0),
    ('-L/usr/lib{i}/libz.so.1', S('L', 'vso'), 0), ('-Lv{i}/foo.so.3', S('L', 'sov'), 0),
    ('-DMODULE_SUFFIX{i}=.so', S('D', 'so'), 0), ('-DLIB{i}=libfoo.a', S('D', 'a'), 0),
    ('-isystem/sdk/libfw{i}.so.1', S('isys', 'vso'), 0), ('-UEXT{i}.so', S('U', 'so'), 0),
    ('-DSONAME{i}=/lib/libc.so.6', S('D', 'vso'), 0), ('-DV{i}=foo.so.1', S('D', 'sov'), 0), ('-isystemsys{i}.a', S('isys', 'a'), 0),
    ('-Wl,-rpath,/r{i}/x.a', S('rpath', 'a'), 0), ('-Wl,-rpath-link,/r{i}/libq.so', S('rlink', 'so'), 0),
    ('-Wl,sub/libw{i}.a', S('wl', 'a'), 0),
    # texts that look like options of another compiler family: in no table, only the file suffix counts
    ('/DEF:exp{i}.lib', S(sfx='lib', ab=1), 0), ('/Iinc{i}', S(ab=1), 0), ('/DFOO{i}', S(ab=1), 0),
]

# texts per shape for the lists of several classes (arglist_classes): every template with an {i}, plus the fixed texts
class FailFast(Exception):
    """VERIF_C13_FAIL_FAST=1 (used when trying mutants on a busy machine): stop after the first part that reported a violation;
    the verdict of the run (exit 1) is the same, the evidence file is incomplete"""


def fail_fast(chk: common.Check) -> None:
    import os
    if os.environ.get('VERIF_C13_FAIL_FAST') and chk.violations:
        raise FailFast()


Kind = T.Tuple[int, str, int, int, int]          # p, d, g, s, ab
_TABLE: T.Dict[T.Tuple[str, ShapeT], T.Tuple[int, str, int]] = {}
_SPELL: T.Dict[Kind, T.List[T.Union[str, T.List[str]]]] = {}


def load(chk: T.Optional[common.Check] = None) -> None:
    """TLC checks the laws of the classification rule book and exports (class, shape) -> kind."""
    if _TABLE:
        return
    res = run_tlc(SPECS / 'arglist', 'ArgListClassify_MC', collect=['classify.json'], timeout=1200, allow_violation=False, workers=2)
    if not res.clean or 'classify.json' not in res.collected:
        raise MachineryError('ArgListClassify_MC did not complete cleanly:\n' + res.stdout[-1500:])
    if chk is not None:
        chk.add_tlc('ArgListClassify_MC', res)
    for row in json.loads(res.collected['classify.json']):
        _TABLE[(row['cl'], shape_key(row['s']))] = (row['k']['p'], row['k']['d'], row['k']['g'])
    _build_spell()


def classify(cl: str, s: ShapeT) -> T.Tuple[int, str, int]:
    if not _TABLE:
        raise MachineryError('arglist_shapes.load() has not run in this process')
    if (cl, s) not in _TABLE:
        raise MachineryError(f'shape {s} is not a valid shape of the rule book')
    return _TABLE[(cl, s)]


def kind_clike(s: ShapeT, sysflag: int = 0) -> Kind:
    p, d, g = classify('clike', s)
    return (p, d, g, sysflag, s[4])


MULTI_TEXTS: T.Set[str] = set()     # templates whose text is matched by several rules


def _build_spell() -> None:
    _SPELL.clear()
    for text, shape, _ in TEMPLATES:
        if isinstance(text, str) and shape is not None and shape[1] == 0 and multi_rule(shape):
            MULTI_TEXTS.add(text)
    for text, shape, sysflag in TEMPLATES:
        if isinstance(text, list):
            kinds = {kind_clike(sh, sysflag) for _, sh in text}
            if len(kinds) != 1:
                raise MachineryError('a group of fixed texts spans several kinds: ' + repr(text))
            _SPELL.setdefault(kinds.pop(), []).append([t for t, _ in text])
        else:
            assert shape is not None
            _SPELL.setdefault(kind_clike(shape, sysflag), []).append(text)


def spell_table() -> T.Dict[Kind, T.List[T.Union[str, T.List[str]]]]:
    if not _SPELL:
        raise MachineryError('arglist_shapes.load() has not run in this process')
    return _SPELL


def multi_rule(s: ShapeT) -> bool:
    """the shape is matched by more than one rule of some class table (prefix + suffix, bare prefix)"""
    return (s[0] not in ('none', 'wl') and (s[3] != 'none' or s[1] == 1)) or (s[0] == 'wl' and s[3] != 'none')


def texts_of_shape() -> T.Dict[ShapeT, T.List[str]]:
    out: T.Dict[ShapeT, T.List[str]] = {}
    for text, shape, sysflag in TEMPLATES:
        if sysflag:
            continue
        if isinstance(text, list):
            for t, sh in text:
                out.setdefault(sh, []).append(t)
        else:
            assert shape is not None
            if '{D}' not in text:
                out.setdefault(shape, []).append(text)
    return out
