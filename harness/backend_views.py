"""Shared driver for the backend checks C04 / C15: configure one project with the real ``meson setup``
(in a worker process), read the generated artefacts and project them to the plain data the TLA+ trace
specifications judge.  No verdicts are computed here.

``run_case(job) -> case``  with job =
    {'id': str, 'kind': 'proj' | 'corpus', 'p': abstract project (projgen) or None,
     'srcdir': path (corpus), 'extra_args': [...], 'views': bool (also project the C15 views),
     'backend': 'ninja' | 'none', 'install': bool (run a real `meson install --destdir`),
     'run_tests': bool (run `meson test` on script tests), 'keep': path or None}
"""
from __future__ import annotations

import json
import os
import pickle
import shutil
import subprocess
import typing as T
from pathlib import Path

from . import common, ninja_ref, projgen

EMPTY_P: T.Dict[str, T.Any] = {'name': '', 'lang': '', 'layout': 'mirror', 'deflib': 'shared', 'targets': [], 'tests': [],
                                'unity': 'off', 'unity_size': 4,
                                'conf': [], 'options': [], 'installs': []}


def tlc_project(p: T.Optional[T.Dict[str, T.Any]]) -> T.Dict[str, T.Any]:
    """The part of an abstract project the specs read (uniform field types, no empty JSON objects)."""
    if p is None:
        return dict(EMPTY_P)
    ts = []
    for t in p['targets']:
        ts.append({'bsub': t.get('bsub', ''), **{k: t.get(k, []) for k in ('kind', 'name', 'subdir', 'sp', 'srcs', 'gen', 'genidx', 'genlist', 'link', 'bbd',
                                             'install', 'outs', 'deps', 'objs')}})
    xs = []
    for x in p['tests']:
        xs.append({k: x[k] for k in ('name', 'exe', 'depends', 'args', 'sargs', 'bench', 'suite', 'env', 'sp', 'script')})
    return {'name': p['name'], 'lang': p['lang'], 'layout': p['layout'], 'deflib': p['deflib'], 'targets': ts, 'tests': xs,
            'unity': p.get('unity', 'off'), 'unity_size': int(p.get('unity_size', 4)),
            'conf': [dict(c) for c in p.get('conf', [])],
            'options': [{'name': o['name'], 'type': o['type'], 'sp': o['sp']} for o in p.get('options', [])],
            'installs': [dict({k: it[k] for k in ('kind', 'subdir', 'sp', 'files', 'install_dir', 'tag', 'rename')},
                              strip=bool(it.get('strip', False)), preserve=bool(it.get('preserve', False)))
                         for it in p.get('installs', [])]}


def rel_to(path: str, base: str) -> str:
    """Build-dir relative canonical form of a path found in an artefact (absolute or relative to base)."""
    if not os.path.isabs(path):
        path = os.path.join(base, path)
    return ninja_ref.canonicalize(os.path.relpath(os.path.normpath(path), base))


def read_json(p: Path) -> T.Any:
    with open(p, encoding='utf-8') as f:
        return json.load(f)


def manifest_case(build: Path) -> T.Tuple[ninja_ref.Manifest, T.Dict[str, T.Any], T.List[str]]:
    man = ninja_ref.parse_file(build / 'build.ninja')
    M = man.to_json()
    produced = set()
    for e in man.edges:
        produced.update(e.all_outs())
    exists = []
    seen = set()
    for e in man.edges:
        for q in e.all_ins():
            if q in produced or q in seen:
                continue
            seen.add(q)
            full = q if os.path.isabs(q) else os.path.join(build, q)
            if os.path.lexists(full):
                exists.append(q)
    return man, M, exists


def intro_expectations(build: Path) -> T.Tuple[T.List[str], T.List[str], T.List[str]]:
    """Reachability obligations of a corpus project, read from the introspection files."""
    info = build / 'meson-info'
    targets = read_json(info / 'intro-targets.json')
    by_id = {t['id']: t for t in targets}
    b = str(build)
    ex_all = []
    for t in targets:
        if t.get('build_by_default') and t['type'] not in ('run', 'alias'):
            ex_all += [rel_to(f, b) for f in t['filename']]
    out = []
    for name in ('intro-tests.json', 'intro-benchmarks.json'):
        want = []
        for x in read_json(info / name):
            for d in x.get('depends', []):
                t = by_id.get(d)
                if t is not None and t['type'] not in ('run', 'alias'):
                    want += [rel_to(f, b) for f in t['filename']]
        out.append(sorted(set(want)))
    return sorted(set(ex_all)), out[0], out[1]


def run_case(job: T.Dict[str, T.Any]) -> T.Dict[str, T.Any]:
    """Executed in a worker process."""
    kind = job['kind']
    p = job.get('p')
    case: T.Dict[str, T.Any] = {
        'id': job['id'], 'kind': kind, 'p': tlc_project(p), 'configured': False, 'M': EMPTY_M(), 'exists': [],
        'ex_all': [], 'ex_test': [], 'ex_bench': [], 'intended': EMPTY_M(),
        'info': {},
    }
    with common.scratch('proj-') as d:
        src = d / 'src'
        build = d / 'b'
        if kind == 'corpus':
            shutil.copytree(job['srcdir'], src, symlinks=True)
        else:
            projgen.write_project(p, src)
        args = list(job.get('extra_args', []))
        try:
            r = projgen.setup(src, build, p if kind != 'corpus' else None, extra_args=args,
                              backend=job.get('backend', 'ninja'), timeout=job.get('timeout', 300))
        except common.MachineryError:
            if kind == 'corpus':
                case['info'] = {'skipped': 'timeout'}
                return case
            raise
        case['info'] = {'rc': r.rc, 'wall': round(r.wall, 2), 'error': '' if r.ok else r.error_text, 'crashed': r.crashed and not r.ok}
        if not r.ok:
            if job.get('keep_output'):
                case['info']['stdout'] = r.stdout[-2000:]
            return case
        case['configured'] = True
        if job.get('backend', 'ninja') == 'ninja':
            man, M, exists = manifest_case(build)
            case['M'] = M
            case['exists'] = exists
            case['info']['edges'] = len(man.edges)
            if kind == 'corpus':
                case['ex_all'], case['ex_test'], case['ex_bench'] = intro_expectations(build)
        if job.get('views'):
            from . import intro_views
            case['views'] = intro_views.project_views(src, build, r, p, job)
        keep = job.get('keep')
        if keep:
            shutil.copytree(d, keep, symlinks=True, dirs_exist_ok=True)
    return case


def EMPTY_M() -> T.Dict[str, T.Any]:
    return {'rules': [], 'dup_rules': [], 'pools': [], 'edges': [], 'edge_pools': [], 'defaults': [], 'errors': []}


def corpus_dirs(limit: T.Optional[int] = None) -> T.List[Path]:
    base = common.REPO / 'test cases' / 'common'
    ds = sorted(x for x in base.iterdir() if (x / 'meson.build').is_file())
    return ds[:limit] if limit else ds


def corpus_args(srcdir: Path) -> T.List[str]:
    """Options a corpus project needs according to its own test.json matrix are not applied; projects that
    do not configure with defaults are skipped by the caller."""
    return []


def judge_cases(chk: common.Check, module: str, cases: T.List[T.Dict[str, T.Any]], label: str,
                fields: T.Optional[T.Sequence[str]] = None, chunk: int = 400) -> T.List[T.Dict[str, T.Any]]:
    """Run a trace spec over the cases; returns the verdicts that are not 'ok'."""
    bad_all: T.List[T.Dict[str, T.Any]] = []
    for part_no, part in enumerate(common.chunks(cases, chunk)):
        with common.scratch('judge-') as d:
            tf = d / 'cases.json'
            if fields is None:
                data = [{k: v for k, v in c.items() if k not in ('info', 'views')} for c in part]
            else:
                data = [{k: c[k] for k in fields} for c in part]
            tf.write_text(json.dumps(data))
            res = common.run_tlc(common.SPECS / 'ninja', module, env={'TRACE_FILE': str(tf)}, timeout=3000)
            if not res.clean:
                raise common.MachineryError(f'{module} did not complete cleanly:\n' + res.stdout[-2500:])
            if res.distinct != 2 * len(part):
                raise common.MachineryError(f'{module} judged {res.distinct // 2} of {len(part)} cases')
            bad = res.json_lines()
            # lines of parallel workers may interleave: if any verdict-looking line did not parse, judge the
            # flagged batch again single-threaded
            cand = [ln for ln in res.stdout.splitlines() if ln.strip().startswith('"')]
            if len(cand) != len(bad):
                res1 = common.run_tlc(common.SPECS / 'ninja', module, env={'TRACE_FILE': str(tf)}, timeout=3000, workers=1)
                bad = res1.json_lines()
            chk.add_tlc(f'{module}[{label}#{part_no}]', res, model=False)
            bad_all.extend(bad)
    return bad_all


def run_tool(cmd: T.Sequence[str], **kw: T.Any) -> subprocess.CompletedProcess:
    return subprocess.run(list(cmd), stdout=subprocess.PIPE, stderr=subprocess.PIPE, text=True, errors='replace', **kw)


def unpickle(path: Path) -> T.Any:
    common.use_repo_meson()
    with open(path, 'rb') as f:
        return pickle.load(f)
