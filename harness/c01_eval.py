"""C01 - Build definitions evaluate exactly as the language reference prescribes.

1. TLC model-checks specs/lang/MesonEval_MC: the reference evaluator is total
   over every token sequence up to N of three alphabets (expressions,
   statements, methods); typing/immutability laws and the fixed facts of the
   reference (floor division, escapes, short circuit ...) hold.
   MesonSubst_MC: f-string / .format() substitution is one pass over the
   literal, substituted text is never scanned again (every template up to N
   over `@ a b 0 1`, values that look like placeholders).  MesonMethods_MC:
   laws of flatten / slice / values / splitlines.  The bounded spaces of both
   are replayed through the real interpreter as well (A).
2. (A) every token sequence of those bounded spaces is rendered to text and
   run by the real ``mparser.Parser`` + ``Interpreter`` (in-process, one
   long-lived interpreter per worker, fresh variable table per program); the
   recorded outcome (value store or failure) is judged by TraceEval (TLC runs
   the reference parser and evaluator on the same tokens) and the tree shape by
   TraceGrammar (mode C01).
3. (B) seeded grammar-generated programs (nested control flow, containers,
   methods, f-strings, escapes, aliasing) judged the same way; a sample also
   runs through the real ``meson setup`` CLI.
"""
from __future__ import annotations

import argparse
import json
import os
import random
import shutil
import subprocess
import sys
import tempfile
import typing as T
from concurrent.futures import ProcessPoolExecutor

from . import common, lang_driver as ld, lang_gen
from .common import Check, MachineryError, SPECS, run_tlc, scratch
from . import c02_parser

PROP = 'C01'

MC_CFG = '''SPECIFICATION Spec
CONSTANTS MaxLen = %d
 AlphabetName = "%s"
INVARIANT Total
INVARIANT PredefinedUntouched
INVARIANT ComparisonIsBool
CHECK_DEADLOCK FALSE
POSTCONDITION EmitAlphabet
'''

SUBST_CFG = '''SPECIFICATION Spec
CONSTANTS MaxLen = %d
INVARIANT OnePassF
INVARIANT OnePassN
INVARIANT NeverRescannedF
INVARIANT NeverRescannedN
INVARIANT PiecesLossless
INVARIANT PlainTextUntouched
CHECK_DEADLOCK FALSE
POSTCONDITION Emit
'''

METHODS_CFG = '''SPECIFICATION Spec
CONSTANTS MaxLen = %d
INVARIANT FlattenLaws
INVARIANT SliceLaws
INVARIANT ValuesLaws
INVARIANT SplitLinesLaws
CHECK_DEADLOCK FALSE
POSTCONDITION Emit
'''

# ---------------------------------------------------------------------------
# in-process interpreter

_INTR: T.Any = None
_BASE: T.Dict[str, T.Any] = {}
_MODS: T.Any = None
_TMP: T.Optional[str] = None


def _make_interpreter() -> None:
    global _INTR, _BASE, _MODS, _TMP
    if _INTR is not None:
        return
    _MODS = ld.load_modules()
    from mesonbuild import environment, build, interpreter, msetup, cmdline
    _TMP = tempfile.mkdtemp(prefix='c01-intr-')
    src = os.path.join(_TMP, 'src')
    bld = os.path.join(_TMP, 'bld')
    os.makedirs(src)
    with open(os.path.join(src, 'meson.build'), 'w') as f:
        f.write("project('verif')\n")
    parser = argparse.ArgumentParser()
    msetup.add_arguments(parser)
    opts = parser.parse_args(['--backend=none', src, bld])
    cmdline.parse_cmd_line_options(opts)
    env = environment.Environment(src, bld, opts)
    b = build.Build(env)
    intr = interpreter.Interpreter(b, user_defined_options=opts)
    intr.run()
    _INTR = intr
    _BASE = dict(intr.variables)
    import atexit
    atexit.register(lambda: shutil.rmtree(_TMP, ignore_errors=True))


def pval(v: T.Any, depth: int = 0) -> T.Dict[str, T.Any]:
    """python value -> spec value record"""
    if depth > 40:
        return {'k': 'alien:TooDeepOrCyclic', 'n': 0, 's': [], 'e': []}     # a broken interpreter may build cyclic values
    held = getattr(v, 'held_object', v)
    if isinstance(held, bool):
        return {'k': 'bool', 'n': 1 if held else 0, 's': [], 'e': []}
    if isinstance(held, int):
        if abs(held) >= 2 ** 31:
            return {'k': 'bigint', 'n': 0, 's': [ord(c) for c in str(held)], 'e': []}
        return {'k': 'int', 'n': held, 's': [], 'e': []}
    if isinstance(held, str):
        return {'k': 'str', 'n': 0, 's': [ord(c) for c in held], 'e': []}
    if isinstance(held, list):
        return {'k': 'arr', 'n': 0, 's': [], 'e': [pval(x, depth + 1) for x in held]}
    if isinstance(held, dict):
        return {'k': 'dict', 'n': 0, 's': [],
                'e': [{'k': 'ent', 'n': 0, 's': [ord(c) for c in str(k)], 'e': [pval(x, depth + 1)]} for k, x in held.items()]}
    if type(held).__name__ == 'Interpreter' and hasattr(held, 'variables'):       # SubprojectHolder -> sub-interpreter
        name = getattr(held, 'subproject', '') or ''
        ents = [{'k': 'ent', 'n': 0, 's': [ord(c) for c in str(k)], 'e': [pval(x, depth + 1)]} for k, x in held.variables.items()]
        return {'k': 'subproj', 'n': 0, 's': [ord(c) for c in name], 'e': [{'k': 'dict', 'n': 0, 's': [], 'e': ents}]}
    rng = getattr(held, 'range', None)
    if isinstance(rng, range):
        return {'k': 'range', 'n': 0, 's': [], 'e': [pval(x) for x in rng]}
    return {'k': 'alien:' + type(held).__name__, 'n': 0, 's': [], 'e': []}


def env0_to_python(env0: T.List[T.Any]) -> T.Dict[str, T.Any]:
    def unp(v: T.Dict[str, T.Any]) -> T.Any:
        k = v['k']
        if k == 'int':
            return v['n']
        if k == 'bool':
            return v['n'] == 1
        if k == 'str':
            return ''.join(chr(c) for c in v['s'])
        if k == 'arr':
            return [unp(x) for x in v['e']]
        if k == 'dict':
            return {''.join(chr(c) for c in e['s']): unp(e['e'][0]) for e in v['e']}
        raise MachineryError('cannot build initial value ' + k)
    return {''.join(chr(c) for c in name): unp(val) for name, val in env0}


class _Timeout(BaseException):
    pass


def _alarm(signum: int, frame: T.Any) -> None:
    raise _Timeout()


def _guard(seconds: int) -> None:
    """A program of the core language terminates quickly; a broken interpreter may loop or blow up memory."""
    import resource
    import signal
    signal.signal(signal.SIGALRM, _alarm)
    signal.alarm(seconds)
    try:
        soft, hard = resource.getrlimit(resource.RLIMIT_AS)
        want = 3 * 1024 ** 3
        if soft == resource.RLIM_INFINITY or soft > want:
            resource.setrlimit(resource.RLIMIT_AS, (want, hard))
    except (ValueError, OSError):
        pass


def _unguard() -> None:
    import signal
    signal.alarm(0)


def run_program(text: str, env0: T.Dict[str, T.Any]) -> T.Dict[str, T.Any]:
    """Never lets resource exhaustion caused by a broken interpreter escape: that is an outcome, not a harness failure."""
    try:
        return _run_program(text, env0)
    except (MemoryError, RecursionError) as e:
        import gc
        if _INTR is not None:
            _INTR.variables = dict(_BASE)
        gc.collect()
        return {'st': 'internal:' + type(e).__name__, 'vars': [], 'acc': True, 'ast': []}


def _run_program(text: str, env0: T.Dict[str, T.Any]) -> T.Dict[str, T.Any]:
    _make_interpreter()
    mp, pr, ml = _MODS
    from mesonbuild.interpreterbase import exceptions as iex
    intr = _INTR
    intr.variables = dict(_BASE)
    intr.argument_depth = 0
    for k, v in env0.items():
        intr.set_variable(k, v, holderify=True)
    try:
        ast = mp.Parser(text, 'verif.build').parse()
    except ml.MesonException:
        return {'st': 'fail', 'vars': _store(env_names=set(_BASE)), 'acc': False, 'ast': []}
    except RecursionError:
        return {'st': 'fail', 'vars': _store(set(_BASE)), 'acc': False, 'ast': []}
    except Exception as e:  # noqa: BLE001
        return {'st': 'internal:' + type(e).__name__, 'vars': [], 'acc': False, 'ast': []}
    out: T.Dict[str, T.Any] = {'acc': True, 'ast': ld.project_ast(ast, mp)}
    try:
        _guard(20)
        intr.evaluate_codeblock(ast)
        out['st'] = 'ok'
    except ml.MesonException:
        out['st'] = 'fail'
    except (iex.ContinueRequest, iex.BreakRequest):
        out['st'] = 'fail'
    except RecursionError:
        out['st'] = 'fail'
    except _Timeout:
        out['st'] = 'internal:DoesNotTerminate'
    except MemoryError:
        out['st'] = 'internal:MemoryError'
    except Exception as e:  # noqa: BLE001
        out['st'] = 'internal:' + type(e).__name__
    finally:
        _unguard()
    if out['st'].startswith('internal:'):
        intr.variables = dict(_BASE)
        out['vars'] = []
        return out
    out['vars'] = _store(set(_BASE))
    return out


def _store(env_names: T.Set[str]) -> T.List[T.Any]:
    return [[[ord(c) for c in k], pval(v)] for k, v in _INTR.variables.items() if k not in env_names]


# ---------------------------------------------------------------------------
# workers

def _worker_enum(args: T.Tuple[str, T.List[T.Dict[str, T.Any]], T.List[T.Any], int, int, int, int]) -> T.List[T.Dict[str, T.Any]]:
    name, alphabet, env0, n, lo, hi, sd = args
    penv = env0_to_python(env0)
    k = len(alphabet)
    out = []
    for code in range(lo, hi):
        idxs = []
        c = code
        for _ in range(n):
            idxs.append(c % k)
            c //= k
        toks = [alphabet[j] for j in idxs]
        rnd = random.Random(hash((sd, name, n, code)) & 0xffffffff)
        text, _spans = ld.render(toks, rnd, trivia=(code % 3 == 0))
        obs = run_program(text, penv)
        obs.update({'id': f'{name}{n}:{code}', 't': idxs, 'text': text})
        out.append(obs)
    return out


def subst_templates(space: T.Dict[str, T.Any]) -> T.List[T.List[int]]:
    """The template space of MesonSubst_MC: every code point sequence up to maxlen over its character set.  Templates
    with fewer than two delimiters hold no placeholder of either syntax: one in sixteen of them is kept."""
    chars = space['chars']
    out: T.List[T.List[int]] = []
    level: T.List[T.List[int]] = [[]]
    for _ in range(space['maxlen'] + 1):
        out += level
        level = [t + [c] for t in level for c in chars]
    return [t for i, t in enumerate(out) if t.count(64) >= 2 or i % 16 == 0]


def _worker_subst(args: T.Tuple[T.Dict[str, T.Any], T.List[T.List[int]], int, int, int]) -> T.Dict[str, T.Any]:
    """(A) for the substitution laws: each template of the model as an f-string over the two names and as a
    .format() over two arguments, under the mutually referring values and seeded other pairs of the model's pool."""
    space, templates, base, sd, k = args
    S, ident, string = lang_gen.S, lang_gen.ident, lang_gen.string
    pool = [''.join(chr(c) for c in v) for v in space['pool']]
    na, nb = [''.join(chr(c) for c in n) for n in space['names']]
    alpha = ld.Alphabet()
    cases = []
    for off, tpl in enumerate(templates):
        code = base + off
        body = ''.join(chr(c) for c in tpl)
        rnd = random.Random(hash((sd, 'subst', code)) & 0xffffffff)
        for kind, must in (('f', space['mutual_f']), ('n', space['mutual_n'])):
            pairs = [(pool[must[0] - 1], pool[must[1] - 1])] + [(rnd.choice(pool), rnd.choice(pool)) for _ in range(k - 1)]
            toks: T.List[T.Dict[str, T.Any]] = []
            for bi, (va, vb) in enumerate(pairs):
                toks += [ident(na), S('assign'), string(va), S('eol'), ident(nb), S('assign'), string(vb), S('eol'), ident(f'r{bi}'), S('assign')]
                if kind == 'f':
                    toks += [string(body, 'mfs' if bi == 1 else 'fs')]
                else:
                    fargs = [ident(na), S('comma'), ident(nb)] if bi != 1 else [string(va), S('comma'), string(vb, 'ms')]
                    toks += [string(body, 'ms' if bi == 2 else 's'), S('dot'), ident('format'), S('lparen')] + fargs + [S('rparen')]
                toks.append(S('eol'))
            text, _spans = ld.render(toks, rnd, trivia=(code % 4 == 0))
            obs = run_program(text, {})
            obs.update({'id': f'subst:{kind}:{code}', 't': [alpha.add(t) for t in toks], 'text': text})
            cases.append(obs)
    return {'alphabet': alpha.items, 'cases': cases}


def val_tokens(v: T.Dict[str, T.Any]) -> T.List[T.Dict[str, T.Any]]:
    """a value of the model (int / str / arr) written as a literal"""
    if v['k'] == 'int':
        return [lang_gen.num(v['n'])]
    if v['k'] == 'str':
        return [lang_gen.string(''.join(chr(c) for c in v['s']))]
    if v['k'] == 'arr':
        out = [lang_gen.S('lbracket')]
        for i, e in enumerate(v['e']):
            if i:
                out.append(lang_gen.S('comma'))
            out += val_tokens(e)
        return out + [lang_gen.S('rbracket')]
    raise MachineryError('cannot write a literal for ' + v['k'])


def _worker_methods(args: T.Tuple[T.Dict[str, T.Any], int, int, int]) -> T.Dict[str, T.Any]:
    """(A) for MesonMethods_MC: every word of the model as an array, a dictionary and a text; flatten / slice (seeded
    bounds and steps inside and outside the array) / values / keys / splitlines are applied to them."""
    space, lo, hi, sd = args
    S, ident, num = lang_gen.S, lang_gen.ident, lang_gen.num
    alpha = ld.Alphabet()
    cases = []

    def signed(n: int) -> T.List[T.Dict[str, T.Any]]:
        return [num(n)] if n >= 0 else [S('dash'), num(-n)]

    def assign(toks: T.List[T.Dict[str, T.Any]], name: str, e: T.List[T.Dict[str, T.Any]]) -> None:
        toks += [ident(name), S('assign')] + e + [S('eol')]

    def call(obj: str, m: str, pos: T.Sequence[int] = (), step: T.Optional[int] = None) -> T.List[T.Dict[str, T.Any]]:
        out = [ident(obj), S('dot'), ident(m), S('lparen')]
        parts = [signed(p) for p in pos] + ([[ident('step'), S('colon')] + signed(step)] if step is not None else [])
        for i, part in enumerate(parts):
            out += ([S('comma')] if i else []) + part
        return out + [S('rparen')]
    for code in range(lo, hi):
        # code -> word over 1..5 (all lengths up to maxlen, shortest first)
        n, c = 0, code
        while c >= 5 ** n:
            c -= 5 ** n
            n += 1
        word = [(c // 5 ** i) % 5 for i in range(n)]
        rnd = random.Random(hash((sd, 'methods', code)) & 0xffffffff)
        toks: T.List[T.Dict[str, T.Any]] = []
        arr = [S('lbracket')]
        dct = [S('lcurl')]
        for i, k in enumerate(word):
            sep = [S('comma')] if i else []
            arr += sep + val_tokens(space['elems'][k])
            dct += sep + [lang_gen.string(''.join(chr(ch) for ch in space['keys'][i])), S('colon')] + val_tokens(space['elems'][k])
        assign(toks, 'x', arr + [S('rbracket')])
        assign(toks, 'd', dct + [S('rcurl')])
        assign(toks, 't', [lang_gen.string(''.join(''.join(chr(ch) for ch in space['linesource'][k]) for k in word))])
        assign(toks, 'f', call('x', 'flatten'))
        assign(toks, 'ff', [S('lbracket'), ident('x'), S('comma'), ident('f'), S('rbracket'), S('dot'), ident('flatten'), S('lparen'), S('rparen')])
        assign(toks, 's0', call('x', 'slice'))
        assign(toks, 's1', call('x', 'slice', step=rnd.choice([-1, -1, -2, -3, 1, 2, 3])))
        for j in range(5):
            a, b = rnd.randint(-n - 2, n + 2), rnd.randint(-n - 2, n + 2)
            assign(toks, f'c{j}', call('x', 'slice', (a, b), step=rnd.choice([None, None, 1, 2, 3])))
        assign(toks, 'v', call('d', 'values'))
        assign(toks, 'k', call('d', 'keys'))
        assign(toks, 'l', call('t', 'splitlines'))
        if code % 3 == 0:
            # a call the reference rejects, last (everything before it must still be in the store)
            assign(toks, 'bad', rnd.choice([call('x', 'slice', (0,)), call('x', 'slice', step=0), call('x', 'slice', (0, 1, 2)),
                                            call('x', 'flatten', (1,)), call('d', 'values', (1,)), call('t', 'splitlines', (1,)),
                                            call('d', 'flatten'), call('x', 'values'), call('x', 'splitlines')]))
        text, _spans = ld.render(toks, rnd, trivia=(code % 4 == 0))
        obs = run_program(text, {})
        obs.update({'id': f'methods:{code}', 't': [alpha.add(t) for t in toks], 'text': text})
        cases.append(obs)
    return {'alphabet': alpha.items, 'cases': cases}


def _worker_gen(args: T.Tuple[int, int, int, int]) -> T.Dict[str, T.Any]:
    lo, hi, sd, subst_from = args
    alpha = ld.Alphabet()
    cases = []
    for j in range(lo, hi):
        rnd = random.Random(sd * 1000003 + j)
        # the programs from subst_from on carry the class "values that look like placeholders" (several identifiers in
        # one f-string, .format() arguments, values naming each other) and / or the methods flatten, slice, values,
        # splitlines; the ones before are generated as ever
        ext = j >= subst_from
        toks = lang_gen.program(rnd, subst=0.35 if ext and j % 3 != 2 else 0.0, newmeth=0.3 if ext and j % 3 != 1 else 0.0)
        text, _spans = ld.render(toks, rnd, trivia=(j % 2 == 0))
        obs = run_program(text, {})
        obs.update({'id': f'gen:{j}', 't': [alpha.add(t) for t in toks], 'text': text})
        cases.append(obs)
    return {'alphabet': alpha.items, 'cases': cases}


def run_tree(main: str, files: T.Dict[str, str], subs: T.Dict[str, str]) -> T.Dict[str, T.Any]:
    try:
        return _run_tree(main, files, subs)
    except (MemoryError, RecursionError) as e:
        import gc
        gc.collect()
        return {'st': 'internal:' + type(e).__name__, 'vars': [], 'acc': True, 'ast': []}


def _run_tree(main: str, files: T.Dict[str, str], subs: T.Dict[str, str]) -> T.Dict[str, T.Any]:
    """A program spread over sub-directories and subprojects: written to disk and run by a fresh Interpreter."""
    mp, pr, ml = ld.load_modules()
    from mesonbuild import environment, build, interpreter, msetup, cmdline
    from mesonbuild.interpreterbase import exceptions as iex
    with tempfile.TemporaryDirectory(prefix='c01-tree-') as td:
        src = os.path.join(td, 'src')
        os.makedirs(src)
        with open(os.path.join(src, 'meson.build'), 'w') as f:
            f.write("project('verif')\n" + main)
        for path, text in files.items():
            os.makedirs(os.path.join(src, path), exist_ok=True)
            with open(os.path.join(src, path, 'meson.build'), 'w') as f:
                f.write(text)
        for name, text in subs.items():
            os.makedirs(os.path.join(src, 'subprojects', name), exist_ok=True)
            with open(os.path.join(src, 'subprojects', name, 'meson.build'), 'w') as f:
                f.write(f"project('{name}')\n" + text)
        parser = argparse.ArgumentParser()
        msetup.add_arguments(parser)
        opts = parser.parse_args(['--backend=none', src, os.path.join(td, 'bld')])
        cmdline.parse_cmd_line_options(opts)
        out: T.Dict[str, T.Any] = {'acc': True, 'ast': []}
        intr = None
        try:
            _guard(30)
            env = environment.Environment(src, os.path.join(td, 'bld'), opts)
            intr = interpreter.Interpreter(build.Build(env), user_defined_options=opts)
            intr.run()
            out['st'] = 'ok'
        except ml.MesonException:
            out['st'] = 'fail'
        except (iex.ContinueRequest, iex.BreakRequest, RecursionError):
            out['st'] = 'fail'
        except _Timeout:
            out['st'] = 'internal:DoesNotTerminate'
            intr = None
        except MemoryError:
            out['st'] = 'internal:MemoryError'
            intr = None
        except Exception as e:  # noqa: BLE001
            out['st'] = 'internal:' + type(e).__name__
        finally:
            _unguard()
        out['vars'] = [[[ord(c) for c in k], pval(v)] for k, v in intr.variables.items()] if intr is not None else []
        return out


def _worker_tree(args: T.Tuple[int, int, int]) -> T.Dict[str, T.Any]:
    lo, hi, sd = args
    alpha = ld.Alphabet()
    cases = []
    for j in range(lo, hi):
        rnd = random.Random(sd * 7368787 + j)
        main, files, subs = lang_gen.tree_program(rnd)
        render = lambda toks: ld.render(toks, rnd, trivia=False)[0]  # noqa: E731
        obs = run_tree(render(main), {p: render(t) for p, t in files.items()}, {n: render(t) for n, t in subs.items()})
        obs.update({'id': f'tree:{j}', 't': [alpha.add(t) for t in main], 'text': render(main),
                    'files': [[[ord(c) for c in p], [alpha.add(t) for t in toks]] for p, toks in files.items()],
                    'subs': [[[ord(c) for c in n], [alpha.add(t) for t in toks]] for n, toks in subs.items()],
                    'filetexts': {p: render(t) for p, t in files.items()}, 'subtexts': {n: render(t) for n, t in subs.items()}})
        cases.append(obs)
    return {'alphabet': alpha.items, 'cases': cases}


# ---------------------------------------------------------------------------

KEEP_EVAL = ('id', 't', 'st', 'vars', 'files', 'subs')


def judge_eval(chk: Check, alphabet: T.List[T.Any], env0: T.List[T.Any], cases: T.List[T.Dict[str, T.Any]], label: str) -> None:
    if not cases:
        return
    by_id = {c['id']: c for c in cases}
    for c in cases:
        if c['st'].startswith('internal:'):
            chk.violation(f"InternalError:{c['st']}@{c['text'][:80]!r}", {'text': c['text'], 'outcome': c['st']})
    cases = [c for c in cases if not c['st'].startswith('internal:')]
    for part_no, part in enumerate(common.size_chunks(cases, 200000, lambda c: {k: c.get(k, []) for k in KEEP_EVAL})):
        with scratch('c01-') as d:
            tf = d / 'cases.json'
            tf.write_text(json.dumps({'alphabet': alphabet, 'env0': env0,
                                      'cases': [{k: c.get(k, []) for k in KEEP_EVAL} for c in part]}))
            env = {'TRACE_FILE': str(tf)}
            res = run_tlc(SPECS / 'lang', 'TraceEval', env=env, timeout=3600, heap='8g')
            if not res.clean:
                raise MachineryError('TraceEval did not complete cleanly:\n' + res.stdout[-2500:])
            if res.distinct != 2 * len(part):
                raise MachineryError(f'TraceEval judged {res.distinct // 2} of {len(part)} cases')
            bad = res.json_lines()
            if bad:
                res1 = run_tlc(SPECS / 'lang', 'TraceEval', env=env, timeout=3600, workers=1, heap='8g')
                bad = res1.json_lines()
        chk.add_tlc(f'TraceEval[{label}#{part_no}]', res, model=False)
        chk.traces += len(part)
        for v in bad:
            c = by_id.get(v['id'], {})
            toks = [alphabet[j] for j in c.get('t', [])]
            chk.violation(signature(v, toks), {'verdict': v, 'text': c.get('text'), 'outcome': c.get('st'), 'store': c.get('vars'),
                                               'files': c.get('filetexts'), 'subprojects': c.get('subtexts')})


def signature(v: T.Dict[str, T.Any], toks: T.List[T.Dict[str, T.Any]]) -> str:
    clause = v.get('clause', '?')
    if clause.endswith(':BoolUsedAsInt'):
        return 'BoolUsedAsInt'
    words = ' '.join(ld.token_text(t) if t['t'] != 'eol' else ';' for t in toks[:40])
    return f'{clause}@{words}'


def account(chk: Check, cases: T.List[T.Dict[str, T.Any]]) -> None:
    chk.evaluations += len(cases)
    for c in cases:
        if c['st'] == 'ok' and c['vars']:
            chk.nontriv(('ok', c['t'] if len(c['t']) < 30 else c['id']))
    for c in cases[:: max(1, len(cases) // 2)][:2]:
        chk.sample({'id': c['id'], 'text': c['text'][:400], 'outcome': c['st'], 'store': c['vars'][:4]}, limit=10)


def cli_sample(chk: Check, programs: T.List[T.Dict[str, T.Any]], n: int) -> None:
    """The same programs through the real `meson setup`: success/failure must agree with the in-process run
    (which TLC judged), so the fast path and the CLI path are the same language."""
    picked = [c for c in programs if c['acc']][:n]
    jobs = []
    with scratch('c01-cli-') as d:
        for i, c in enumerate(picked):
            src = d / f'p{i}'
            src.mkdir()
            (src / 'meson.build').write_text("project('verif')\n" + c['text'] + '\n')
            jobs.append((i, src))

        def run(job: T.Tuple[int, T.Any]) -> T.Tuple[int, int, str]:
            i, src = job
            p = subprocess.run([common.PYTHON, str(common.REPO / 'meson.py'), 'setup', '--backend=none', str(src / 'b'), str(src)],
                               stdout=subprocess.PIPE, stderr=subprocess.STDOUT, text=True, timeout=600)
            return i, p.returncode, p.stdout[-600:]
        from concurrent.futures import ThreadPoolExecutor
        with ThreadPoolExecutor(max_workers=common.NCPU) as tp:
            for i, rc, out in tp.map(run, jobs):
                c = picked[i]
                expect_ok = c['st'] == 'ok'
                if 'Traceback (most recent call last)' in out or 'Unhandled python exception' in out:
                    if c['st'] == 'fail' and ('ContinueRequest' in out or 'BreakRequest' in out):
                        continue   # break/continue outside a loop: fails either way
                    chk.violation(f"CliInternalError@{c['text'][:80]!r}", {'text': c['text'], 'output': out})
                elif (rc == 0) != expect_ok:
                    chk.violation(f"CliDisagreesWithInProcess@{c['text'][:80]!r}", {'text': c['text'], 'rc': rc, 'inprocess': c['st'], 'output': out})
        chk.extra['cli_runs'] = len(picked)
        chk.traces += len(picked)


def main(chk: Check) -> None:
    quick = chk.tier == 'quick'
    bounds = {'evalexpr': 3, 'evalstmt': 3, 'evalmethod': 3} if quick else {'evalexpr': 4, 'evalstmt': 4, 'evalmethod': 4}
    ngen = 3000 if quick else 120000
    nsub = 700 if quick else 20000
    subst_len, subst_k = (6, 2) if quick else (7, 5)
    meth_len = 4 if quick else 5
    ncli = 32 if quick else 400
    ntree = 600 if quick else 20000
    chk.rule = ('A: every token sequence up to N over three alphabets exported by the TLC model (expression operators and '
                'literals; statements and control flow; method calls), evaluated in-process with x predefined; every template '
                'of the substitution model (f-string and .format() over values that look like placeholders) and every word of '
                'the methods model (flatten / slice / values / splitlines); B: seeded grammar-generated programs, a part of '
                'them with placeholder-like values and the newer methods; plus a CLI sample. Non-trivial = program accepted and evaluated without error '
                'leaving at least one variable (distinct token sequences).')
    alphabets = {}
    # the five model-checking runs are independent of each other; one at a time (several JVMs side by side were killed
    # for lack of memory on a loaded box)
    from concurrent.futures import ThreadPoolExecutor
    with ThreadPoolExecutor(max_workers=1) as tp:
        futs = {name: tp.submit(run_tlc, SPECS / 'lang', 'MesonEval_MC', cfg_text=MC_CFG % (n, name), collect=['alphabet.json'],
                                timeout=3600, heap='8g', allow_violation=False) for name, n in bounds.items()}
        fsub = tp.submit(run_tlc, SPECS / 'lang', 'MesonSubst_MC', cfg_text=SUBST_CFG % subst_len, collect=['subst.json'],
                         timeout=3600, allow_violation=False)
        fmeth = tp.submit(run_tlc, SPECS / 'lang', 'MesonMethods_MC', cfg_text=METHODS_CFG % meth_len, collect=['methods.json'],
                          timeout=3600, allow_violation=False)
        for name, n in bounds.items():
            res = futs[name].result()
            chk.add_tlc(f'MesonEval_MC[{name},MaxLen={n}]', res)
            alphabets[name] = json.loads(res.collected['alphabet.json'])
        res = fsub.result()
        chk.add_tlc(f'MesonSubst_MC[MaxLen={subst_len}]', res)
        space = json.loads(res.collected['subst.json'])
        res = fmeth.result()
        chk.add_tlc(f'MesonMethods_MC[MaxLen={meth_len}]', res)
        mspace = json.loads(res.collected['methods.json'])
    chk.extra['bounds'] = dict(bounds, subst=subst_len, methods=meth_len)
    with ProcessPoolExecutor(max_workers=common.NCPU) as ex:
        templates = subst_templates(space)
        step = max(1, len(templates) // (common.NCPU * 3) + 1)
        salpha, scases = ld.merge_batches(ex.map(_worker_subst, [(space, templates[lo:lo + step], lo, chk.seed, subst_k)
                                                                 for lo in range(0, len(templates), step)]))
        account(chk, scases)
        judge_eval(chk, salpha, [], scases, f'A:subst<={subst_len}')
        chk.extra['subst_templates'] = len(templates)
        nwords = sum(5 ** n for n in range(meth_len + 1))
        step = max(1, nwords // (common.NCPU * 2) + 1)
        malpha, mcases = ld.merge_batches(ex.map(_worker_methods, [(mspace, lo, min(nwords, lo + step), chk.seed) for lo in range(0, nwords, step)]))
        account(chk, mcases)
        judge_eval(chk, malpha, [], mcases, f'A:methods<={meth_len}')
        for name, nmax in bounds.items():
            alphabet = alphabets[name]['alphabet']
            env0 = alphabets[name]['env0']
            k = len(alphabet)
            cases: T.List[T.Dict[str, T.Any]] = []
            for n in range(1, nmax + 1):
                total = k ** n
                step = max(1, min(8000, total // (common.NCPU * 2) + 1))
                jobs = [(name, alphabet, env0, n, lo, min(total, lo + step), chk.seed) for lo in range(0, total, step)]
                for part in ex.map(_worker_enum, jobs):
                    cases.extend(part)
            account(chk, cases)
            judge_eval(chk, alphabet, env0, cases, f'A:{name}<={nmax}')
            for c in cases:
                c.update({'ext': [], 'lossless': True, 'located': True, 'exc': ''})
            c02_parser.judge(chk, alphabet, [c for c in cases if not c['st'].startswith('internal:')], f'A:{name}:tree', mode='C01')
        step = max(1, (ngen + nsub) // (common.NCPU * 2))
        alphabet, cases = ld.merge_batches(ex.map(_worker_gen, [(lo, min(ngen + nsub, lo + step), chk.seed, ngen)
                                                                for lo in range(0, ngen + nsub, step)]))
        account(chk, cases)
        judge_eval(chk, alphabet, [], cases, 'B:gen')
        for c in cases:
            c.update({'ext': [], 'lossless': True, 'located': True, 'exc': ''})
        c02_parser.judge(chk, alphabet, [c for c in cases if not c['st'].startswith('internal:')][:(1500 if quick else len(cases))],
                         'B:gen:tree', mode='C01')
        chk.extra['generated_ok_fraction'] = round(sum(1 for c in cases if c['st'] == 'ok') / max(1, len(cases)), 3)
        # programs spread over subdir() files and subprojects
        step = max(1, ntree // (common.NCPU * 2))
        talpha, tcases = ld.merge_batches(ex.map(_worker_tree, [(lo, min(ntree, lo + step), chk.seed) for lo in range(0, ntree, step)]))
        account(chk, tcases)
        judge_eval(chk, talpha, [], tcases, 'C:tree')
        chk.extra['tree_ok_fraction'] = round(sum(1 for c in tcases if c['st'] == 'ok') / max(1, len(tcases)), 3)
    cli_sample(chk, cases, ncli)
    chk.exhaustive = True
    chk.assumptions += [
        'outcomes are compared as value-vs-failure and by the full variable store (also at the point of failure), never by message text',
        'where the reference is silent the spec answers "unspecified" and any outcome is accepted: assignment or set_variable in '
        'expression position, int-vs-bool inside containers, textual form of containers in format()/f-strings, str methods on '
        'non-ASCII text, Windows-style paths with "/", digit separators in to_int, version_compare (covered by C19), '
        'array.slice with explicit bounds and a negative step, splitlines on text with line boundaries other than LF / CR / CR LF, '
        'arrays passed to methods that take no arguments, numbers beyond 30000 in products',
        'templates of the substitution model with fewer than two `@` (no placeholder possible) are replayed one in sixteen',
        'subdir() is modelled as in-place inclusion and subproject() as a separate store reachable through get_variable(); a directory entered twice and subdir() inside loops are not generated',
        'integers are kept below 2^31 (TLC integers)',
    ]


def replay(chk: Check, data: T.Dict[str, T.Any]) -> None:
    mp, pr, ml = ld.load_modules()
    text = data['detail'].get('text')
    if text is None:
        raise MachineryError('no text recorded')
    toks, _ = ld.lex_real(text, mp)
    alpha = ld.Alphabet()
    obs = run_program(text, {})
    obs.update({'id': 'replay', 't': [alpha.add(t) for t in toks], 'text': text})
    judge_eval(chk, alpha.items, [], [obs], 'replay')


if __name__ == '__main__':
    sys.exit(common.run_check(main, PROP, replay=replay))
