"""C02 - Parsing is total, lossless and position-accurate.

1. TLC model-checks specs/lang/MesonGrammar_MC over four token alphabets: the
   reference grammar is total, drops no accepted token, and its extents nest
   (plus the documented precedence laws).
2. (A) every token sequence of those bounded spaces (alphabets exported by
   the TLC runs) is rendered to text with seeded trivia (spaces, tabs,
   comments, line continuations, alternative number spellings), pushed through
   the real ``mparser.Parser`` + ``RawPrinter`` and the recorded outcome is
   judged by TraceGrammar (mode C02): no internal error, located syntax error,
   byte-exact re-printing, FunctionNode/ArrayNode extents equal to the
   reference extents.
3. (B) every build file of the repository, seeded mutations of them, and token
   soups, tokenised by the real Lexer, judged the same way; character soups
   for totality.
"""
from __future__ import annotations

import json
import os
import random
import sys
import typing as T
from concurrent.futures import ProcessPoolExecutor

from . import common, lang_driver as ld, lang_lexer, lang_gen
from .common import Check, MachineryError, SPECS, run_tlc, scratch

PROP = 'C02'
MODE = 'C02'

MC_CFG = '''SPECIFICATION Spec
CONSTANTS MaxLen = %d
 AlphabetName = "%s"
INVARIANT Total
INVARIANT NoTokenDropped
INVARIANT ExtentsNest
INVARIANT CallAndArrayExtents
INVARIANT NoComparisonChain
INVARIANT NoUnaryStack
INVARIANT NoNestedTernary
INVARIANT PrecedenceRespected
INVARIANT PostfixTight
CHECK_DEADLOCK FALSE
POSTCONDITION EmitAlphabet
'''


def model_check(chk: Check, bounds: T.Dict[str, int]) -> T.Dict[str, T.List[T.Dict[str, T.Any]]]:
    alphabets = {}
    for name, n in bounds.items():
        res = run_tlc(SPECS / 'lang', 'MesonGrammar_MC', cfg_text=MC_CFG % (n, name), collect=['alphabet.json'],
                      timeout=3600, heap='8g', allow_violation=False)
        chk.add_tlc(f'MesonGrammar_MC[{name},MaxLen={n}]', res)
        alphabets[name] = json.loads(res.collected['alphabet.json'])
    return alphabets


# ---------------------------------------------------------------------------
# workers

def _case_from_tokens(cid: str, toks: T.List[T.Dict[str, T.Any]], idxs: T.List[int], rnd: random.Random,
                      mods: T.Tuple[T.Any, T.Any, T.Any], want_ast: bool) -> T.Dict[str, T.Any]:
    mp, pr, ml = mods
    text, spans = ld.render(toks, rnd, trivia=True)
    obs = ld.run_parser(text, spans, mp, pr, ml, want_ast=want_ast)
    obs.update({'id': cid, 't': idxs, 'text': text})
    return obs


def _worker_enum(args: T.Tuple[str, T.List[T.Dict[str, T.Any]], int, int, int, int, bool]) -> T.List[T.Dict[str, T.Any]]:
    name, alphabet, n, lo, hi, sd, want_ast = args
    mods = ld.load_modules()
    k = len(alphabet)
    out = []
    for code in range(lo, hi):
        idxs = []
        c = code
        for _ in range(n):
            idxs.append(c % k)
            c //= k
        toks = [alphabet[j] for j in idxs]
        rnd = random.Random(hash((sd, name, n, code)) & 0xffffffff)
        out.append(_case_from_tokens(f'{name}{n}:{code}', toks, idxs, rnd, mods, want_ast))
    return out


def corpus_files() -> T.List[str]:
    out = []
    for root, dirs, files in os.walk(common.REPO):
        dirs[:] = [d for d in dirs if d not in ('.git', '__pycache__')]
        for f in files:
            if f in ('meson.build', 'meson.options', 'meson_options.txt'):
                out.append(os.path.join(root, f))
    return sorted(out)


def mutate_tokens(toks: T.List[T.Dict[str, T.Any]], rnd: random.Random, pool: T.List[T.Dict[str, T.Any]]) -> T.List[T.Dict[str, T.Any]]:
    toks = list(toks)
    for _ in range(rnd.randint(1, 3)):
        if not toks:
            break
        op = rnd.random()
        i = rnd.randrange(len(toks))
        if op < 0.35:
            del toks[i]
        elif op < 0.7:
            toks.insert(i, rnd.choice(pool))
        elif op < 0.85:
            toks[i] = rnd.choice(pool)
        else:
            j = rnd.randrange(len(toks))
            toks[i], toks[j] = toks[j], toks[i]
    return toks


def _worker_corpus(args: T.Tuple[T.List[str], int, int, bool]) -> T.Dict[str, T.Any]:
    """Corpus files: as they are (text from disk, tokens from the real Lexer), plus token-level mutants re-rendered."""
    files, sd, nmut, want_ast = args
    mp, pr, ml = mods = ld.load_modules()
    alpha = ld.Alphabet()
    cases = []
    pool = [ld.tok(t) for t in ('lparen', 'rparen', 'lbracket', 'rbracket', 'comma', 'colon', 'not', 'in', 'eol', 'endif',
                                'if', 'else', 'foreach', 'endforeach', 'dot', 'assign', 'plus', 'dash', 'questionmark',
                                'lcurl', 'rcurl', 'and', 'or', 'equal', 'elif', 'plusassign')] + \
           [ld.tok('id', s='x', cs=[120]), ld.tok('number', n=3), ld.tok('string', s='s', cs=[120])]
    for fn in files:
        try:
            text = open(fn, encoding='utf-8').read()
        except (OSError, UnicodeDecodeError):
            continue
        rel = os.path.relpath(fn, common.REPO)
        if len(text) > 40000:
            continue
        try:
            toks, spans = ld.lex_real(text, mp)
        except ml.MesonException:
            continue
        if len(toks) > 2500:
            continue
        obs = ld.run_parser(text, spans, mp, pr, ml, want_ast=want_ast)
        obs.update({'id': 'file:' + rel, 't': [alpha.add(t) for t in toks], 'text': None})
        cases.append(obs)
        if len(toks) <= 400:
            for m in range(nmut):
                rnd = random.Random(hash((sd, rel, m)) & 0xffffffff)
                mt = mutate_tokens(toks, rnd, pool)
                if m % 2 == 0:
                    mt = lang_gen.decorate_nested([t for t in mt if t['t'] != 'eol' or rnd.random() < 0.9], rnd, rate=0.1, anywhere=0.1)
                cases.append(_case_from_tokens(f'mut{m}:{rel}', mt, [alpha.add(t) for t in mt], rnd, mods, want_ast))
    return {'alphabet': alpha.items, 'cases': cases}


def _worker_soup(args: T.Tuple[int, int, int, bool]) -> T.Dict[str, T.Any]:
    lo, hi, sd, want_ast = args
    mods = ld.load_modules()
    alpha = ld.Alphabet()
    pool = [ld.tok(t) for t in ld.SYMTEXT] + [ld.tok(t) for t in sorted(ld.KEYWORDS)] + \
           [ld.tok('id', s=s, cs=[ord(c) for c in s]) for s in ('a', 'b', 'f', 'x_1')] + [ld.tok('number', n=n) for n in (0, 1, 7, 42)] + \
           [ld.tok('string', s=fl, cs=cs) for fl in ('s', 'ms', 'fs', 'mfs') for cs in ([], [97], [97, 32, 98], [64, 48, 64])] + \
           [ld.tok('string', s='s', cs=[97, 10, 98]), ld.tok('string', s='fs', cs=[10]), ld.tok('string', s='ms', cs=[97, 10, 10, 98])]
    # weights: make well-formed fragments likely
    cases = []
    for j in range(lo, hi):
        rnd = random.Random(sd * 104729 + j)
        n = rnd.randint(1, 60)
        toks: T.List[T.Dict[str, T.Any]] = []
        while len(toks) < n:
            r = rnd.random()
            if r < 0.25:
                toks += [ld.ident(rnd.choice('abf')), ld.tok('lparen'), rnd.choice(pool), ld.tok('rparen')]
            elif r < 0.4:
                toks += [ld.ident('x'), ld.tok('assign'), ld.tok('lbracket'), rnd.choice(pool), ld.tok('comma'),
                         rnd.choice(pool), ld.tok('rbracket'), ld.tok('eol')]
            elif r < 0.5:
                toks += [ld.tok('if'), rnd.choice(pool), ld.tok('eol'), rnd.choice(pool), ld.tok('eol'), ld.tok('endif'), ld.tok('eol')]
            else:
                toks.append(rnd.choice(pool))
        if j % 2:
            toks = lang_gen.decorate_nested(toks, rnd, rate=0.2, anywhere=0.15)
        cases.append(_case_from_tokens(f'soup:{j}', toks, [alpha.add(t) for t in toks], rnd, mods, want_ast))
    return {'alphabet': alpha.items, 'cases': cases}


def _worker_gen(args: T.Tuple[int, int, int, bool]) -> T.Dict[str, T.Any]:
    """Well-formed programs from the grammar-based generators, decorated with newlines (and hence comments) at arbitrary
    places inside brackets: mostly accepted, so losslessness and extents are exercised on deep trees."""
    lo, hi, sd, want_ast = args
    mods = ld.load_modules()
    alpha = ld.Alphabet()
    cases = []
    for j in range(lo, hi):
        rnd = random.Random(sd * 86028121 + j)
        toks = lang_gen.build_program(rnd) if j % 2 else lang_gen.program(rnd, err_rate=0.0)
        toks = lang_gen.decorate_nested(toks, rnd, rate=rnd.choice([0.1, 0.3]), anywhere=rnd.choice([0.05, 0.2, 0.5]))
        cases.append(_case_from_tokens(f'gen:{j}', toks, [alpha.add(t) for t in toks], rnd, mods, want_ast))
    return {'alphabet': alpha.items, 'cases': cases}


def _worker_chars(args: T.Tuple[int, int, int]) -> T.List[str]:
    lo, hi, sd = args
    mp, pr, ml = ld.load_modules()
    frags = ["'", "'''", 'f', '\\', '\n', ' ', '#', '(', ')', '[', ']', '{', '}', 'a', '0', '0x', '1', ':', ',', '.', '+', '-',
             '=', '!', '<', '?', '"', '\t', 'not', ' in ', 'if', 'endif', '\r', '\x00', 'é', '@', '$', '﻿', '0b', '9' * 30, '\\x', '\\N{']
    bad = []
    for j in range(lo, hi):
        rnd = random.Random(sd * 15485863 + j)
        text = ''.join(rnd.choice(frags) for _ in range(rnd.randint(0, 25)))
        try:
            ast = mp.Parser(text, 'verif.build').parse()
            p = pr.RawPrinter()
            ast.accept(p)
            if p.result != text:
                bad.append(json.dumps({'text': text, 'clause': 'NotLossless', 'printed': p.result}))
        except ml.MesonException as e:
            if not text.startswith('﻿') and not ld.located(e, text):
                bad.append(json.dumps({'text': text, 'clause': 'NotLocated', 'lineno': getattr(e, 'lineno', None), 'colno': getattr(e, 'colno', None)}))
        except RecursionError:
            pass
        except Exception as e:  # noqa: BLE001
            bad.append(json.dumps({'text': text, 'clause': 'InternalError', 'exc': type(e).__name__ + ': ' + str(e)[:200]}))
    return bad


# ---------------------------------------------------------------------------
# judging

KEEP = ('id', 't', 'acc', 'ast', 'ext', 'lossless', 'located', 'exc')


def judge(chk: Check, alphabet: T.List[T.Dict[str, T.Any]], cases: T.List[T.Dict[str, T.Any]], label: str,
          mode: str = MODE) -> None:
    if not cases:
        return
    by_id = {c['id']: c for c in cases}
    for part_no, part in enumerate(common.size_chunks(cases, 250000, lambda c: {k: c[k] for k in KEEP})):
        with scratch('lang-') as d:
            tf = d / 'cases.json'
            tf.write_text(json.dumps({'alphabet': alphabet, 'cases': [{k: c[k] for k in KEEP} for c in part]}))
            env = {'TRACE_FILE': str(tf), 'JUDGE_MODE': mode}
            res = run_tlc(SPECS / 'lang', 'TraceGrammar', env=env, timeout=3600, heap='8g')
            if not res.clean:
                raise MachineryError('TraceGrammar did not complete cleanly:\n' + res.stdout[-2000:])
            if res.distinct != 2 * len(part):
                raise MachineryError(f'TraceGrammar judged {res.distinct // 2} of {len(part)} cases')
            bad = res.json_lines()
            if bad:
                res1 = run_tlc(SPECS / 'lang', 'TraceGrammar', env=env, timeout=3600, workers=1, heap='8g')
                bad = res1.json_lines()
        chk.add_tlc(f'TraceGrammar[{label}#{part_no}]', res, model=False)
        chk.traces += len(part)
        for v in bad:
            c = by_id.get(v['id'], {})
            toks = [alphabet[j] for j in c.get('t', [])]
            chk.violation(signature(v, toks), {'verdict': v, 'text': c.get('text'), 'tokens': [ld.token_text(t) for t in toks][:200],
                                               'observed': {k: c.get(k) for k in ('acc', 'ext', 'lossless', 'located', 'exc', 'printed')}})


def signature(v: T.Dict[str, T.Any], toks: T.List[T.Dict[str, T.Any]]) -> str:
    clause = v.get('clause', '?')
    if clause in ('NotLossless:PositionalAfterKeyword',):
        return clause
    kinds = ' '.join(t['t'] if t['t'] not in ('id', 'number', 'string') else t['t'][0] for t in toks[:40])
    return f'{clause}@{kinds}'


def account(chk: Check, cases: T.List[T.Dict[str, T.Any]]) -> None:
    chk.evaluations += len(cases)
    for c in cases:
        if c['acc'] and c['ext']:
            chk.nontriv(('ext', c['t'] if len(c['t']) < 30 else c['id']))
    for c in cases[:: max(1, len(cases) // 2)][:2]:
        chk.sample({'id': c['id'], 'text': (c.get('text') or '')[:300], 'accepted': c['acc'], 'extents': c['ext'],
                    'lossless': c['lossless'], 'located': c['located']}, limit=10)


def run_enumeration(chk: Check, ex: ProcessPoolExecutor, alphabets: T.Dict[str, T.List[T.Dict[str, T.Any]]],
                    bounds: T.Dict[str, int], mode: str, want_ast: bool) -> None:
    for name, nmax in bounds.items():
        alphabet = alphabets[name]
        k = len(alphabet)
        cases: T.List[T.Dict[str, T.Any]] = []
        for n in range(1, nmax + 1):
            total = k ** n
            step = max(1, min(15000, total // (common.NCPU * 2) + 1))
            jobs = [(name, alphabet, n, lo, min(total, lo + step), chk.seed, want_ast) for lo in range(0, total, step)]
            for part in ex.map(_worker_enum, jobs):
                cases.extend(part)
                if len(cases) >= 240000:
                    account(chk, cases)
                    judge(chk, alphabet, cases, f'A:{name}', mode)
                    cases = []
        account(chk, cases)
        judge(chk, alphabet, cases, f'A:{name}<={nmax}', mode)


def run_corpus_and_soups(chk: Check, ex: ProcessPoolExecutor, nmut: int, nsoup: int, mode: str, want_ast: bool) -> None:
    files = corpus_files()
    chk.extra['corpus_files'] = len(files)
    groups = [files[i::common.NCPU * 2] for i in range(common.NCPU * 2)]
    alphabet, cases = ld.merge_batches(ex.map(_worker_corpus, [(g, chk.seed, nmut, want_ast) for g in groups if g]))
    account(chk, cases)
    judge(chk, alphabet, cases, 'B:corpus', mode)
    step = max(1, nsoup // (common.NCPU * 2))
    alphabet, cases = ld.merge_batches(ex.map(_worker_soup, [(lo, min(nsoup, lo + step), chk.seed, want_ast)
                                                             for lo in range(0, nsoup, step)]))
    account(chk, cases)
    judge(chk, alphabet, cases, 'B:soup', mode)
    ngen = max(200, nsoup // 2)
    step = max(1, ngen // (common.NCPU * 2))
    alphabet, cases = ld.merge_batches(ex.map(_worker_gen, [(lo, min(ngen, lo + step), chk.seed, want_ast) for lo in range(0, ngen, step)]))
    account(chk, cases)
    judge(chk, alphabet, cases, 'B:gen', mode)
    chk.extra['generated_accept_fraction'] = round(sum(1 for c in cases if c['acc']) / max(1, len(cases)), 3)


def main(chk: Check) -> None:
    quick = chk.tier == 'quick'
    mc_bounds = {'full': 3, 'expr': 4, 'block': 4, 'call': 4} if quick else {'full': 4, 'expr': 5, 'block': 5, 'call': 5}
    impl_bounds = {'full': 2, 'expr': 4, 'block': 4, 'call': 4} if quick else {'full': 3, 'expr': 5, 'block': 5, 'call': 5}
    nmut = 1 if quick else 6
    nsoup = 3000 if quick else 60000
    nchars = 20000 if quick else 600000
    chk.rule = ('L: every string up to N characters over the 16-character alphabet of the lexer model and random fragment soups '
                'through the real Lexer, judged by TraceLexer; A: every token sequence up to N over four alphabets exported by the TLC model (full 35 tokens, expression '
                'core, block structure, calls/containers), rendered with seeded trivia; B: all build files of the repository, '
                'token-level mutants of them and token soups (tokens from the real Lexer); character soups for totality. '
                'Non-trivial = accepted input containing at least one call or array literal whose extent is compared '
                '(distinct token sequences).')
    alphabets = model_check(chk, mc_bounds)
    chk.extra['model_bounds'] = mc_bounds
    chk.extra['impl_exhaustive_bounds'] = impl_bounds
    with ProcessPoolExecutor(max_workers=common.NCPU) as ex:
        lang_lexer.run_lexer_level(chk, ex, 4 if quick else 5, 4 if quick else 5, 20000 if quick else 400000)
        run_enumeration(chk, ex, alphabets, impl_bounds, MODE, want_ast=False)
        run_corpus_and_soups(chk, ex, nmut, nsoup, MODE, want_ast=False)
        step = max(1, nchars // (common.NCPU * 2))
        for bad in ex.map(_worker_chars, [(lo, min(nchars, lo + step), chk.seed) for lo in range(0, nchars, step)]):
            for b in bad:
                d = json.loads(b)
                chk.violation(f"{d['clause']}@chars:{d['text'][:60]!r}", d)
        chk.evaluations += nchars
    chk.exhaustive = True
    chk.assumptions += [
        'token-level: the abstract token alphabet of specs/lang; string literal contents in the exhaustive tier are short',
        'byte-exact round trip is a harness observation (RawPrinter output == text) fed to the trace; the spec proves at token level that the reference grammar drops nothing',
        'extents are compared for FunctionNode and ArrayNode (the constructs the statement names)',
        'a UTF-8 BOM input is rejected with line 0 by design of the lexer message and is not generated',
        'RecursionError on absurdly deep nesting is treated as a rejection',
    ]


def replay(chk: Check, data: T.Dict[str, T.Any]) -> None:
    mp, pr, ml = ld.load_modules()
    det = data['detail']
    text = det.get('text')
    if text is None:
        raise MachineryError('replay needs the recorded text (corpus files: re-run the check)')
    toks, spans = ld.lex_real(text, mp)
    alpha = ld.Alphabet()
    obs = ld.run_parser(text, spans, mp, pr, ml, want_ast=True)
    obs.update({'id': 'replay', 't': [alpha.add(t) for t in toks], 'text': text})
    judge(chk, alpha.items, [obs], 'replay')


if __name__ == '__main__':
    sys.exit(common.run_check(main, PROP, replay=replay))
