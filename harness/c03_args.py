"""C03 - Commands receive exactly the arguments the build definition specifies.

Specification family ``specs/ninja``: ``NinjaText`` (``$``-escapes, variable expansion and scoping of
a build statement against its rule), ``Quoting`` (``ShSplit`` POSIX sh words, ``RspSplit`` gcc response
file, the specified encoders), ``ArgFidelity`` (``Expected(args, pos, mode, tmpl)`` with the four
documented rewrites; ``Final``: from a shell command to the argv of the process that finally runs).

0. TLC model-checks ``ArgFidelity_MC``: for every text over the 14 code-point alphabet up to N,
   Decode(Encode(s)) = s for every layering, no Ninja text denotes a newline (=> pickled wrapper),
   the algebra of ``Expected``.  The alphabet is exported and reused below.
1. (B, level 1) every text of that space through the real ``ninja_quote``, ``quote_arg``/``join_args``,
   ``gcc_rsp_quote``, ``NinjaRule._quoter`` (all four quoting classes, sh and rsp style) and the real
   ``NinjaBuildElement.write``; TLC (``TraceArgFidelity``) decodes the emitted text and must get the
   input back.  ``RspSplit`` itself is validated against the real gcc (``-wrapper`` dump of cc1's argv).
2. (B, level 2) generated projects (stub NINJA) place every test string in every command position
   (c_args / link_args: option, global, project, target, -D and /D forms; custom_target plain /
   capture / feed / env / environment() / capture+env; run_target (+env); generator (+capture,
   +env); test / benchmark args, env, workdir; response-file mode via MESON_RSP_THRESHOLD=0; environment
   VALUES in every spelling - dict, list of 'K=V', a single 'K=V', environment({..}) / ([..]) / ('K=V'),
   environment(x, method:, separator:), env.set/append/prepend(.., separator:) - for test, custom_target,
   run_target, generator.process and meson.add_devenv, over an ambient environment).  The raw
   rule and build-block text (``c03_raw``), the paths (``ninja_ref``), the unpickled
   ``meson_exe_*.dat`` / ``meson_test_setup.dat`` go to TLC, which expands, splits, unwraps and
   compares with ``Expected``.
3. (level 3, environment validation) the same expanded command lines are run by the real
   ``/bin/sh -c`` with a compiled argv dumper as tool (compiler shim on PATH, real ``env``, real
   ``meson --internal exe``), tests by the real ``meson test --repeat 3`` (every execution of every test
   object is compared), the developer environment by the real ``meson devenv``; families of serialised commands whose argument lists differ only in where the
   boundaries fall share one build directory (each must run with its own argv); the recorded argv/env must equal the
   argv the spec decoders computed - a disagreement is a MachineryError (the environment model is
   wrong), never a violation.
"""
from __future__ import annotations

import itertools
import json
import os
import random
import re
import shutil
import subprocess
import sys
import time
import typing as T
from concurrent.futures import ProcessPoolExecutor
from pathlib import Path

from . import c03_raw, common, ninja_ref, projgen
from .common import Check, MachineryError, SPECS, run_tlc, scratch

PROP = 'C03'

DUMP_C = r'''
#include <fcntl.h>
#include <stdio.h>
#include <stdlib.h>
#include <string.h>
#include <unistd.h>
extern char **environ;
static char *buf; static size_t len, cap;
static void put(const char *s, size_t n) {
    if (len + n + 1 > cap) { cap = (len + n + 1) * 2; buf = realloc(buf, cap); if (!buf) _exit(97); }
    memcpy(buf + len, s, n); len += n;
}
static void hex(const char *s, size_t n) {
    static const char d[] = "0123456789abcdef"; size_t i;
    put("\"", 1);
    for (i = 0; i < n; i++) { char h[2]; h[0] = d[((unsigned char)s[i]) >> 4]; h[1] = d[((unsigned char)s[i]) & 15]; put(h, 2); }
    put("\"", 1);
}
/* appends ONE line {"argv":[hex..],"env":{"C03V..":hex}} to $C03_DUMP, or to $C03_DUMP_DIR/<tag>, tag the first
   argument that starts with C03T (argv[1] if there is none) */
int main(int argc, char **argv) {
    const char *path = getenv("C03_DUMP"); char tmp[4096]; int i, fd, first = 1; char **e;
    if (!path) {
        const char *dir = getenv("C03_DUMP_DIR"); const char *tag = argc >= 2 ? argv[1] : 0;
        for (i = 1; i < argc; i++) if (strncmp(argv[i], "C03T", 4) == 0) { tag = argv[i]; break; }
        if (!dir || !tag || strchr(tag, '/') || strlen(dir) + strlen(tag) + 2 > sizeof tmp) return 0;
        snprintf(tmp, sizeof tmp, "%s/%s", dir, tag); path = tmp;
    }
    put("{\"argv\":[", 9);
    for (i = 0; i < argc; i++) { if (i) put(",", 1); hex(argv[i], strlen(argv[i])); }
    put("],\"env\":{", 9);
    for (e = environ; *e; e++) {
        const char *eq;
        if (strncmp(*e, "C03V", 4) != 0 || !(eq = strchr(*e, '='))) continue;
        if (!first) put(",", 1);
        first = 0; put("\"", 1); put(*e, (size_t)(eq - *e)); put("\":", 2); hex(eq + 1, strlen(eq + 1));
    }
    put("}}\n", 3);
    fd = open(path, O_WRONLY | O_CREAT | O_APPEND, 0644);
    if (fd < 0) return 98;
    if (write(fd, buf, len) != (ssize_t)len) return 99;
    close(fd);
    return 0;
}
'''

# strings outside the model alphabet that are placed in every position as well (printable + control)
SPECIALS = ['--', '-', '-x', 'a@b', '@', '@@', '%', '!', '~', '~a', '{a,b}', '(', ')', '(a)', '<', '>', '>a', '`', '`a`',
            '\t', 'a\tb', '=', 'a=b', '[', ']', '[a]', '?', '^', ',', "''", '""', '\\\\', '$$', '${a}', '$(a)', '$a',
            '\\$', '\\"', "\\'", '\\ ', ' a', 'a ', '  ', '\x01', '\x7f', 'éü', '€', '日本',
            '\U0001f600', 'a\\b\\', '\\', 'a;b', 'a|b', 'a&b', '&&a', 'a&&', '& &', '#a', 'a#', '*.c', 'a*', '"a b"',
            "'a b'", 'a"b', "a'b", '%s', '$0', '-Da', '/Da', '-D', '@a@']
NAMES = {'\n': 'NL', ' ': 'SP', '$': 'DOLLAR', ':': 'COLON', "'": 'SQ', '"': 'DQ', '\\': 'BS', '#': 'HASH', ';': 'SEMI',
         '*': 'STAR', '&': 'AMP', '|': 'PIPE', '\t': 'TAB', '@': 'AT', '~': 'TILDE', '`': 'BTICK', '(': 'LPAR', ')': 'RPAR',
         '<': 'LT', '>': 'GT', '[': 'LBRACK', ']': 'RBRACK', '?': 'QMARK', '{': 'LBRACE', '}': 'RBRACE', '!': 'BANG',
         '=': 'EQ', '%': 'PCT', '^': 'CARET', ',': 'COMMA', '-': 'DASH', '/': 'SLASH'}


def cp(s: str) -> T.List[int]:
    return [ord(c) for c in s]


def uncp(v: T.Sequence[int]) -> str:
    return ''.join(chr(c) if c >= 0 else '␀' for c in v)


def cls(s: str) -> str:
    """Normalised class of an argument string, used in violation signatures."""
    if '\n' in s:
        return 'NL'
    if s == '':
        return 'EMPTY'
    if s == '&&':
        return 'ANDAND'
    out = set()
    for ch in s:
        if ch in NAMES:
            out.add(NAMES[ch])
        elif ord(ch) > 127:
            out.add('U')
        elif ord(ch) < 32 or ord(ch) == 127:
            out.add('CTL')
    return '+'.join(sorted(out)) or 'plain'


def mlit(s: str) -> str:
    """Meson string literal denoting exactly ``s``."""
    out = []
    for ch in s:
        if ch == '\\':
            out.append('\\\\')
        elif ch == "'":
            out.append("\\'")
        elif ch == '\n':
            out.append('\\n')
        elif ch == '\t':
            out.append('\\t')
        elif ord(ch) < 32 or ord(ch) == 127:
            out.append('\\x%02x' % ord(ch))
        else:
            out.append(ch)
    return "'" + ''.join(out) + "'"


def mlist(xs: T.Iterable[str]) -> str:
    return '[' + ', '.join(xs) + ']'


# ---------------------------------------------------------------------------
# environment values: what a build definition says (entries of ArgFidelity!ExpectedEnv) and how it spells it

ENV_SPELLINGS = ['list', 'str', 'envobj-dict', 'envobj-list', 'envobj-str', 'envobj-kw', 'methods']
ENV_BUILD_CONSUMERS = ['custom_target', 'run_target', 'generator']
ENV_CONSUMERS = ['test', 'run_command'] + ENV_BUILD_CONSUMERS + ['devenv']
ENV_POSITIONS = [f'{c}.envvalue-{sp}' for c in ENV_CONSUMERS for sp in ENV_SPELLINGS]
SEPARATORS = [':', ';', ' ', '', ', ', '=', '\t', "'", '$x', '\\', ' : ', '"']

EnvEntry = T.Dict[str, T.Any]


def e_pair(op: str, name: str, values: T.Sequence[str], sep: str = ':') -> EnvEntry:
    return {'form': 'pair', 'op': op, 'name': name, 'values': list(values), 'sep': sep}


def e_str(op: str, text: str, sep: str = ':') -> EnvEntry:
    return {'form': 'string', 'op': op, 'name': '', 'values': [text], 'sep': sep}


def dict_spec(pairs: T.Iterable[T.Tuple[str, str]]) -> T.List[EnvEntry]:
    return [e_pair('set', a, [b]) for a, b in pairs]


def spec_cp(spec: T.Iterable[EnvEntry]) -> T.List[T.Dict[str, T.Any]]:
    return [{'form': e['form'], 'op': e['op'], 'name': cp(e['name']), 'values': [cp(v) for v in e['values']], 'sep': cp(e['sep'])}
            for e in spec]


def pairs_cp(pairs: T.Iterable[T.Sequence[str]]) -> T.List[T.List[T.List[int]]]:
    return [[cp(a), cp(b)] for a, b in pairs]


def spec_names(spec: T.Iterable[EnvEntry]) -> T.List[str]:
    """Names in order of first mention (bookkeeping for signatures only; the verdict is TLC's)."""
    out: T.List[str] = []
    for e in spec:
        n = e['values'][0].split('=', 1)[0] if e['form'] == 'string' else e['name']
        if n not in out:
            out.append(n)
    return out


def spec_strings(spec: T.Iterable[EnvEntry]) -> T.List[str]:
    out = []
    for e in spec:
        out += [v.split('=', 1)[1] for v in e['values']] if e['form'] == 'string' else list(e['values'])
    return out


def render_env(spelling: str, pairs: T.List[T.Tuple[str, str]], uid: int, rnd: random.Random,
               ambient: T.List[T.Tuple[str, str]]) -> T.Dict[str, T.Any]:
    """One spelling of the environment NAME_j=VALUE_j: {'pre': statements in front, 'expr': the expression for
    `env:', 'direct': (X, kwargs text) when X can also be given to meson.add_devenv(X, ...) itself, 'spec': entries}."""
    def dct(ps: T.Iterable[T.Tuple[str, T.Any]]) -> str:
        return '{' + ', '.join(f'{mlit(a)}: {mlist(mlit(x) for x in b) if isinstance(b, list) else mlit(b)}' for a, b in ps) + '}'

    def lst(ps: T.Iterable[T.Tuple[str, str]]) -> str:
        return mlist(mlit(f'{a}={b}') for a, b in ps)

    if spelling == 'dict':
        return {'pre': [], 'expr': dct(pairs), 'direct': (dct(pairs), ''), 'spec': dict_spec(pairs)}
    if spelling == 'list':
        return {'pre': [], 'expr': lst(pairs), 'direct': (lst(pairs), '') if len(pairs) == 1 else None,
                'spec': [e_str('set', f'{a}={b}') for a, b in pairs]}
    if spelling == 'str':
        a, b = pairs[0]
        return {'pre': [], 'expr': mlit(f'{a}={b}'), 'direct': (mlit(f'{a}={b}'), ''), 'spec': [e_str('set', f'{a}={b}')]}
    if spelling == 'envobj-dict':
        return {'pre': [], 'expr': f'environment({dct(pairs)})', 'direct': None, 'spec': dict_spec(pairs)}
    if spelling == 'envobj-list':
        return {'pre': [], 'expr': f'environment({lst(pairs)})', 'direct': None, 'spec': [e_str('set', f'{a}={b}') for a, b in pairs]}
    if spelling == 'envobj-str':
        a, b = pairs[0]
        return {'pre': [], 'expr': f'environment({mlit(a + "=" + b)})', 'direct': None, 'spec': [e_str('set', f'{a}={b}')]}
    if spelling == 'envobj-kw':
        # environment(X, method: M, separator: S): X a dictionary (some values lists, joined by S), a list of
        # 'K=V' or a single 'K=V'; one name may be a variable of the ambient environment
        method = rnd.choice(['set', 'append', 'prepend'])
        sep = rnd.choice(SEPARATORS)
        ps = list(pairs)
        if ambient and rnd.random() < 0.7:
            ps[0] = (rnd.choice(ambient)[0], ps[0][1])
        variant = rnd.randrange(3)
        kw = f', method: {mlit(method)}, separator: {mlit(sep)}'
        if variant == 0:
            vals = [(a, [b] + ([rnd.choice(pairs)[1]] if rnd.random() < 0.4 else [])) for a, b in ps]
            x = dct((a, v if len(v) > 1 or rnd.random() < 0.3 else v[0]) for a, v in vals)
            spec = [e_pair(method, a, v, sep) for a, v in vals]
            direct: T.Optional[T.Tuple[str, str]] = (x, kw)
        elif variant == 1:
            x = lst(ps)
            spec = [e_str(method, f'{a}={b}', sep) for a, b in ps]
            direct = (x, kw) if len(ps) == 1 else None
        else:
            a, b = ps[0]
            x = mlit(f'{a}={b}')
            spec = [e_str(method, f'{a}={b}', sep)]
            direct = (x, kw)
        return {'pre': [], 'expr': f'environment({x}{kw})', 'direct': direct, 'spec': spec}
    if spelling == 'methods':
        # env.set / append / prepend(name, value..., separator: S) in sequence; a name may come back (the later
        # operation sees the earlier one) or be a variable of the ambient environment
        var = f'env{uid}'
        pre = [f'{var} = environment()']
        spec = []
        used: T.List[str] = []
        for name, s in pairs:
            op = rnd.choice(['set', 'append', 'prepend'])
            r = rnd.random()
            n = rnd.choice(used) if used and r < 0.25 else rnd.choice(ambient)[0] if ambient and r < 0.45 else name
            vals = [s] + ([rnd.choice(pairs)[1]] if rnd.random() < 0.3 else [])
            sep = None if rnd.random() < 0.5 else rnd.choice(SEPARATORS)
            pre.append(f"{var}.{op}({mlit(n)}, {', '.join(mlit(v) for v in vals)}{'' if sep is None else ', separator: ' + mlit(sep)})")
            spec.append(e_pair(op, n, vals, ':' if sep is None else sep))
            used.append(n)
        return {'pre': pre, 'expr': var, 'direct': None, 'spec': spec}
    raise MachineryError('unknown env spelling ' + spelling)


# ---------------------------------------------------------------------------
# tools: dumper binary + compiler shims


class Tools:
    def __init__(self, root: Path):
        self.root = root
        self.dump = root / 'c03dump'
        self.shims = root / 'shims'

    @staticmethod
    def build(root: Path) -> 'Tools':
        t = Tools(root)
        root.mkdir(parents=True, exist_ok=True)
        src = root / 'c03dump.c'
        src.write_text(DUMP_C)
        r = subprocess.run(['gcc', '-O1', '-o', str(t.dump), str(src)], stdout=subprocess.PIPE, stderr=subprocess.STDOUT, text=True)
        if r.returncode != 0 or not t.dump.exists():
            raise MachineryError('cannot compile the argv dumper: ' + r.stdout[-500:])
        t.shims.mkdir(exist_ok=True)
        for name in ('cc', 'gcc', 'c++', 'g++', 'clang'):
            os.symlink(t.dump, t.shims / name)
        return t


def read_dumps(path: Path) -> T.List[T.Dict[str, T.Any]]:
    if not path.exists():
        return []
    out = []
    for line in path.read_bytes().splitlines():
        d = json.loads(line)
        try:
            argv = [bytes.fromhex(a).decode('utf-8') for a in d['argv']]
            env = [[k, bytes.fromhex(v).decode('utf-8')] for k, v in sorted(d['env'].items())]
        except UnicodeDecodeError as e:
            raise MachineryError(f'dumper recorded bytes that are not UTF-8: {e}')
        out.append({'argv': [cp(a) for a in argv], 'env': [[cp(k), cp(v)] for k, v in env]})
    return out


# ---------------------------------------------------------------------------
# string spaces


def strings_upto(alphabet: T.Sequence[int], n: int) -> T.Iterator[str]:
    chars = [chr(c) for c in alphabet]
    for k in range(n + 1):
        for tup in itertools.product(chars, repeat=k):
            yield ''.join(tup)


def random_strings(alphabet: T.Sequence[int], rnd: random.Random, count: int, lo: int, hi: int) -> T.List[str]:
    chars = [chr(c) for c in alphabet]
    extra = chars + ['\t', '@', '~', '(', '<', '`', '=', '-', '%', '€', 'b', '/', '{', '?', '[', '!']
    out = []
    for _ in range(count):
        pool = chars if rnd.random() < 0.7 else extra
        out.append(''.join(rnd.choice(pool) for _ in range(rnd.randint(lo, hi))))
    return out


# ---------------------------------------------------------------------------
# level 1: the quoting functions and the manifest writer, in-process


def _fn_outputs(nb: T.Any, ml: T.Any, ss: T.List[str]) -> T.List[T.Dict[str, T.Any]]:
    outs = []

    def call(name: str, f: T.Callable[[], str]) -> None:
        try:
            outs.append({'f': name, 'r': 0, 't': cp(f())})
        except ml.MesonException:
            outs.append({'f': name, 'r': 1, 't': []})

    if len(ss) == 1:
        s = ss[0]
        Q = nb.Quoting
        call('ninja_quote', lambda: nb.ninja_quote(s))
        call('ninja_quote_build', lambda: nb.ninja_quote(s, True))
        call('quote_arg', lambda: ml.quote_arg(s))
        call('gcc_rsp_quote', lambda: nb.gcc_rsp_quote(s))
        call('quoter_both', lambda: nb.NinjaRule._quoter(nb.NinjaCommandArg(s, Q.both)))
        call('quoter_notshell', lambda: nb.NinjaRule._quoter(nb.NinjaCommandArg(s, Q.notShell)))
        call('quoter_notninja', lambda: nb.NinjaRule._quoter(nb.NinjaCommandArg(s, Q.notNinja)))
        call('quoter_none', lambda: nb.NinjaRule._quoter(nb.NinjaCommandArg(s, Q.none)))
        call('quoter_both_rsp', lambda: nb.NinjaRule._quoter(nb.NinjaCommandArg(s, Q.both), nb.gcc_rsp_quote))
    call('join_args', lambda: ml.join_args(ss))
    return outs


def _writer_text(nb: T.Any, ml: T.Any, ss: T.List[str], rsp: bool) -> T.Optional[str]:
    """The real manifest writer on one build statement whose ARGS are ``ss``; None if it refused."""
    import io
    rule = nb.NinjaRule('R', ['tool'], ['$ARGS', '$in'], 'desc', rspable=True)
    elem = nb.NinjaBuildElement(set(), 'out.o', 'R', 'in.c')
    elem.rule = rule
    elem.add_item('ARGS', list(ss))
    saved = nb.rsp_threshold
    nb.rsp_threshold = 0 if rsp else 1 << 30
    try:
        elem.count_rule_references()
        buf = io.StringIO()
        rule.write(buf)
        elem.write(buf)
        return buf.getvalue()
    except ml.MesonException:
        return None
    finally:
        nb.rsp_threshold = saved


def _edge_case_from_text(cid: str, text: str, out: str, spec: T.Dict[str, T.Any]) -> T.Dict[str, T.Any]:
    man = ninja_ref.parse_text(text)
    raw = c03_raw.raw_manifest(text)
    edges = [e for e in man.edges if out in e.outs]
    if not edges:
        raise MachineryError('ninja_ref cannot find the build statement in the writer output: ' + '; '.join(man.errors[:3]) + '\n' + text[:400])
    # a manifest the independent reader rejects is judged by the specification alone (NinjaSyntax)
    return edge_case(cid, edges[0], raw, spec, ref=not man.errors)


def tbl(pairs: T.Iterable[T.Tuple[str, str]]) -> T.List[T.List[T.List[int]]]:
    return [[cp(a), cp(b)] for a, b in pairs]


def edge_case(cid: str, edge: ninja_ref.Edge, raw: T.Dict[str, T.Any], spec: T.Dict[str, T.Any],
              ref: bool = True) -> T.Dict[str, T.Any]:
    """One build statement as raw text + what the build definition said (spec)."""
    rule = raw['rules'].get(edge.rule)
    if rule is None:
        raise MachineryError(f'rule {edge.rule} not found in the raw manifest')
    cmd_ref = rsp_ref = ''
    if ref:
        try:
            cmd_ref = edge.command
            rsp_ref = edge.get('rspfile_content')
        except ninja_ref.NinjaSyntaxError as e:
            raise MachineryError('ninja_ref: ' + str(e))
    c = {'id': cid, 'kind': 'edge', 'ins': [cp(x) for x in edge.ins], 'outs': [cp(x) for x in edge.outs],
         'block': tbl(raw['edges'][edge.lineno]), 'rule': tbl(rule), 'globals': tbl(raw['globals']),
         'pos': spec['tlcpos'], 'args': [cp(a) for a in spec['args']], 'bracket': spec.get('bracket', 0),
         'envspec': spec_cp(spec.get('envspec', [])), 'ambient': pairs_cp(spec.get('ambient', [])),
         'tmpl': [[cp(k), [cp(v) for v in vs]] for k, vs in spec.get('tmpl', [])],
         'pickles': spec.get('pickles', []), 'has_ref': 1 if ref else 0, 'cmd_ref': cp(cmd_ref), 'rsp_ref': cp(rsp_ref),
         'has_real': 0, 'real': []}
    return c


def _worker_level1(args: T.Tuple[T.List[T.List[str]], str]) -> T.List[T.Dict[str, T.Any]]:
    groups, label = args
    common.use_repo_meson()
    from mesonbuild.backend import ninjabackend as nb
    from mesonbuild import mesonlib as ml
    cases = []
    for j, ss in enumerate(groups):
        cid = f'{label}:{j}'
        cases.append({'id': 'F' + cid, 'kind': 'fn', 'ss': [cp(s) for s in ss], 'outs': _fn_outputs(nb, ml, ss)})
        # the real writer: ARGS = sentinel, strings, sentinel
        if len(ss) == 1 and len(ss[0]) > 3 and j % 8:
            continue
        if any(a == '&&' and (k + 1 == len(ss) or ss[k + 1] == '&&') for k, a in enumerate(ss)):
            continue    # an empty command: the build definition itself is ill-formed
        for rsp in (False, True):
            wargs = ['C03B'] + ss + ['C03E']
            text = _writer_text(nb, ml, wargs, rsp)
            wid = ('R' if rsp else 'W') + cid
            if text is None:
                cases.append({'id': wid, 'kind': 'fn', 'ss': [cp(s) for s in ss],
                              'outs': [{'f': 'var_write_rsp' if rsp else 'var_write', 'r': 1, 't': []}]})
                continue
            if any('\n' in s for s in ss):
                # the writer must have refused; let the spec say so
                cases.append({'id': wid, 'kind': 'fn', 'ss': [cp(s) for s in ss],
                              'outs': [{'f': 'var_write_rsp' if rsp else 'var_write', 'r': 0, 't': cp(text)}]})
                continue
            cases.append(_edge_case_from_text(wid, text, 'out.o', {'tlcpos': 'link', 'args': wargs, 'bracket': 1}))
    return cases


def envfn_case(cid: str, f: str, spec: T.List[EnvEntry], ambient: T.List[T.Tuple[str, str]]) -> T.Dict[str, T.Any]:
    """Render one environment specification as the call of the real code its form `f' names, and project the
    environment the resulting object yields over the empty and over the ambient environment."""
    from mesonbuild.interpreter.type_checking import env_convertor_with_method
    from mesonbuild.utils.core import EnvironmentVariables
    from mesonbuild import mesonlib as ml
    c = {'id': cid, 'kind': 'envfn', 'f': f, 'envspec': spec_cp(spec), 'ambient': pairs_cp(ambient), 'r': 0, 'obs0': [], 'obs': []}
    try:
        if f == 'env_convertor:str':
            obj = env_convertor_with_method(spec[0]['values'][0])
        elif f == 'env_convertor:list':
            obj = env_convertor_with_method([e['values'][0] for e in spec], spec[0]['op'], spec[0]['sep'])
        elif f == 'env_convertor:dict':
            obj = env_convertor_with_method({e['name']: (list(e['values']) if len(e['values']) > 1 else e['values'][0]) for e in spec},
                                            spec[0]['op'], spec[0]['sep'])
        elif f == 'env_object:methods':
            obj = EnvironmentVariables()
            for e in spec:
                getattr(obj, e['op'])(e['name'], list(e['values']), e['sep'])
        else:
            raise MachineryError('unknown environment form ' + f)
        c['obs0'] = pairs_cp(obj.get_env({}).items())
        c['obs'] = pairs_cp(obj.get_env(dict(ambient)).items())
    except ml.MesonException:
        c['r'] = 1
    return c


def _worker_envfn(args: T.Tuple[T.List[str], str, int, int]) -> T.List[T.Dict[str, T.Any]]:
    """Level 1 for environment values: the real convertor behind the `env:' keyword, environment() and
    meson.add_devenv (string, list of strings, dictionary, with method and separator) and the real
    env.set/append/prepend, on every text as VALUE; the environment the resulting object yields over the empty and
    over an ambient environment is judged by TLC against E1-E3."""
    strings, label, seed, short = args
    common.use_repo_meson()
    rnd = random.Random(f'C03/envfn/{seed}/{label}')
    cases: T.List[T.Dict[str, T.Any]] = []

    def one(f: str, spec: T.List[EnvEntry], ambient: T.List[T.Tuple[str, str]]) -> None:
        cases.append(envfn_case(f'E{label}:{len(cases)}', f, spec, ambient))

    for si, s in enumerate(strings):
        t = rnd.choice(strings)
        amb = [('C03VA', rnd.choice(strings) or 'amb')]
        method = rnd.choice(['set', 'append', 'prepend'])
        sep = rnd.choice(SEPARATORS)
        # short texts meet all four forms, longer ones one of them in rotation
        forms = range(4) if len(s) <= short else [si % 4]
        if 0 in forms:      # a single 'K=V'
            one('env_convertor:str', [e_str('set', 'C03V0=' + s)], amb)
        if 1 in forms:      # a list of 'K=V': the value itself, with a further `=' inside, as the value of an ambient variable
            one('env_convertor:list', [e_str(method, x, sep) for x in ('C03V0=' + s, 'C03V1=' + s + '=' + t, 'C03VA=' + t + s)], amb)
        if 2 in forms:      # a dictionary, values strings or lists of strings joined by the separator
            one('env_convertor:dict', [e_pair(method, 'C03V0', [s], sep), e_pair(method, 'C03V1', [s, t], sep),
                                       e_pair(method, 'C03VA', [t, s, t], sep)], amb)
        if 3 in forms:      # the methods of the environment object, in sequence
            names = ['C03V0', 'C03V1', 'C03VA']
            one('env_object:methods', [e_pair(rnd.choice(['set', 'append', 'prepend']), rnd.choice(names),
                                              [s] + ([t] if rnd.random() < 0.4 else []), rnd.choice(SEPARATORS))
                                       for _ in range(rnd.randint(2, 4))], amb)
    return cases


def rsp_real_cases(tools: Tools, strings: T.List[str], work: Path) -> T.List[T.Dict[str, T.Any]]:
    """Validate RspSplit against the real gcc: response-file texts for -DC03R<i>=<s> written by three
    harness-local encoders (independent of meson) are read by the real gcc driver; cc1's argv is recorded
    through -wrapper and must equal RspSplit(text)."""
    import shlex
    cases = []
    work.mkdir(parents=True, exist_ok=True)
    wrapper = work / 'wrap.sh'
    wrapper.write_text('#!/bin/sh\nshift\nexec ' + str(tools.dump) + ' "$@"\n')
    wrapper.chmod(0o755)

    def enc_quotes(a: str) -> str:      # backslashes doubled, then one single-quoted word
        return shlex.quote(a.replace('\\', '\\\\'))

    def enc_backslash(a: str) -> str:   # every character that is not alphanumeric protected by a backslash
        return ''.join(c if (c.isascii() and c.isalnum()) else '\\' + c for c in a) or "''"

    def enc_dquotes(a: str) -> str:     # one double-quoted word
        return '"' + a.replace('\\', '\\\\').replace('"', '\\"') + '"'

    batches = [(enc, part) for enc in (enc_quotes, enc_backslash, enc_dquotes) for part in common.chunks(strings, 200)]
    for bi, (enc, part) in enumerate(batches):
        args = [f'-DC03R{j}={s}' for j, s in enumerate(part)]
        text = ' '.join(enc(a) for a in args)
        rsp = work / f'r{bi}.rsp'
        rsp.write_text(text, encoding='utf-8')
        dump = work / f'r{bi}.dump'
        e = dict(os.environ, C03_DUMP=str(dump), LC_ALL='C.UTF-8')
        r = subprocess.run(['gcc', '-wrapper', str(wrapper), '-E', '-x', 'c', '/dev/null', '@' + str(rsp)],
                           env=e, stdout=subprocess.PIPE, stderr=subprocess.PIPE, cwd=work, timeout=600)
        recs = read_dumps(dump)
        if len(recs) != 1:
            raise MachineryError(f'gcc -wrapper produced {len(recs)} records (rc={r.returncode}): ' + r.stderr.decode(errors="replace")[-300:])
        argv = recs[0]['argv']
        got = []
        D = cp('-D')
        for k, a in enumerate(argv):
            if a == D and k + 1 < len(argv) and argv[k + 1][:4] == cp('C03R'):
                got.append(D + argv[k + 1])
        cases.append({'id': f'G{bi}', 'kind': 'rspreal', 'text': cp(text), 'real': got})
    return cases


# ---------------------------------------------------------------------------
# level 2: generated projects

# position name -> (TLC position class, family)
COMPILE_SHARED = ['c_args.option', 'c_args.global', 'c_args.project']
LINK_SHARED = ['link_args.option', 'link_args.global', 'link_args.project']
BOUNDARY_POSITIONS = ['custom_target.boundary', 'run_target.boundary', 'custom_target.boundary-envobj']
CUSTOM_POSITIONS = ['custom_target', 'custom_target.capture', 'custom_target.feed', 'custom_target.env',
                    'custom_target.envobj', 'custom_target.capture+env', 'custom_target.envvalue', 'custom_target.console',
                    'run_target', 'run_target.envvalue', 'generator', 'generator.capture', 'generator.envvalue',
                    'test.args', 'test.envvalue', 'test.workdir', 'benchmark.args',
                    'run_command.args', 'run_command.envvalue', 'postconf_script.args', 'install_script.args']
# commands meson itself runs, at configure time (run_command, add_postconf_script) or from `meson install'
RAN_POSITIONS = {'run_command.args': 'configure', 'run_command.envvalue': 'configure', 'postconf_script.args': 'configure',
                 'install_script.args': 'install'}
TARGET_POSITIONS = ['c_args.target', 'c_args.target-D', 'link_args.target', 'link_args.shlib']
ALL_POSITIONS = COMPILE_SHARED + LINK_SHARED + TARGET_POSITIONS + CUSTOM_POSITIONS


def with_tool_after_andand(strs: T.List[str], tool: str) -> T.List[str]:
    """An element `&&' starts a new command: make the next word the dumper so that the command exists."""
    out = []
    for s in strs:
        out.append(s)
        if s == '&&':
            out.append(tool)
    return out


class ProjectBuilder:
    """Accumulates meson.build text and the expectations (items) of one generated project."""

    def __init__(self, pid: str, lang: str, tool: str, rsp: bool = False, seed: int = 0,
                 ambient: T.Optional[T.List[T.Tuple[str, str]]] = None):
        self.pid = pid
        self.lang = lang
        self.tool = tool
        self.rsp = rsp
        self.rnd = random.Random(f'C03/{seed}/{pid}')
        # C03V* variables of the environment the commands / `meson test' / `meson devenv' are started in
        self.ambient: T.List[T.Tuple[str, str]] = list(ambient or [])
        self.devenv: T.List[T.Tuple[str, T.List[EnvEntry]]] = []     # (position, entries) per add_devenv call
        # cross build: the arguments of `exe_wrapper' in the cross file (after the dumper, which is the wrapper)
        self.wrapper: T.Optional[T.List[str]] = None
        self.has_xe = False
        self.lines: T.List[str] = []
        self.items: T.List[T.Dict[str, T.Any]] = []
        self.n = 0
        self.default_options: T.Dict[str, T.List[str]] = {}
        self.head: T.List[str] = []

    def uid(self) -> int:
        self.n += 1
        return self.n

    def item(self, **kw: T.Any) -> None:
        kw['id'] = f'{self.pid}/{kw["posname"]}/{len(self.items)}'
        self.items.append(kw)

    # -- compile / link ------------------------------------------------------------------
    def shared_args(self, posname: str, strs: T.List[str]) -> None:
        """option / global / project level arguments; judged on the edges of the first build target."""
        k = self.uid()
        link = posname.startswith('link')
        if posname.endswith('.option'):
            # option-level arguments are also given to the compiler sanity check: only -D forms are usable, and
            # only macro bodies the preprocessor accepts (no `##' at either end, no unterminated comment)
            strs = [s for s in strs if not (s.strip(' \t').startswith('##') or s.strip(' \t').endswith('##') or '/*' in s)]
            b, e = f'-DC03OB{k}', f'-DC03OE{k}'
            args = [b] + [f'-DC03O{k}x{j}={s}' for j, s in enumerate(strs)] + [e]
            self.default_options['c_link_args' if link else 'c_args'] = args
            src = [''] + strs + ['']
        else:
            b, e = f'C03SB{k}', f'C03SE{k}'
            body = with_tool_after_andand(strs, self.tool)
            args = [b] + body + [e]
            fn = {'c_args.global': 'add_global_arguments', 'c_args.project': 'add_project_arguments',
                  'link_args.global': 'add_global_link_arguments', 'link_args.project': 'add_project_link_arguments'}[posname]
            self.head.append(f"{fn}({mlist(mlit(a) for a in args)}, language: 'c')")
            src = list(args)
        self.item(posname=posname, tlcpos='link' if link else 'compile', args=args, src=src, bracket=1,
                  find=('first_link' if link else 'first_compile',), strs=strs)

    def build_target(self, c_strs: T.List[str], d_strs: T.List[str], l_strs: T.List[str], shlib: bool = False) -> None:
        k = self.uid()
        name = f'e{k}'
        cb, ce, lb, le = f'C03TB{k}', f'C03TE{k}', f'C03LB{k}', f'C03LE{k}'
        cbody = with_tool_after_andand(c_strs, self.tool)
        dforms = []
        for j, s in enumerate(d_strs):
            dforms.append(('-D' if j % 3 != 2 else '/D') + f'C03K{j}=' + s)
        c_args = [cb] + cbody + [ce]
        d_args = [f'-DC03DB{k}'] + dforms + [f'-DC03DE{k}']
        l_args = [lb] + with_tool_after_andand(l_strs, self.tool) + [le]
        fn = 'shared_library' if shlib else 'executable'
        self.lines.append(f"{fn}({mlit(name)}, 'main.c', c_args: {mlist(mlit(a) for a in c_args + d_args)}, "
                          f"link_args: {mlist(mlit(a) for a in l_args)})")
        obj = (f'lib{name}.so.p' if shlib else f'{name}.p') + '/main.c.o'
        out = f'lib{name}.so' if shlib else name
        self.item(posname='c_args.target', tlcpos='compile_target', args=c_args, src=c_args, bracket=1, find=('out', obj))
        if dforms:
            self.item(posname='c_args.target-D', tlcpos='compile_target', args=d_args, src=[''] + d_strs + [''], bracket=1,
                      find=('out', obj))
        self.item(posname='link_args.shlib' if shlib else 'link_args.target', tlcpos='link', args=l_args, src=l_args,
                  bracket=1, find=('out', out))

    # -- custom commands ---------------------------------------------------------------------
    def custom(self, posname: str, strs: T.List[str]) -> None:
        k = self.uid()
        tag = f'C03T{k}'
        tool = self.tool
        body = with_tool_after_andand(strs, tool)
        envpairs: T.List[T.Tuple[str, str]] = []
        if posname.endswith('.envvalue'):
            envpairs = [(f'C03V{j}', s) for j, s in enumerate(strs)]
            body = ['x y', '$a']
        envdict = '{' + ', '.join(f'{mlit(a)}: {mlit(b)}' for a, b in envpairs) + '}'
        args = [tool, tag] + body
        cmd = mlist(['tool'] + [mlit(a) for a in args[1:]])
        out = f'o{k}.out'
        base = posname.split('.')[0]
        if posname in RAN_POSITIONS:
            # no shell, no template, no rewrite: `&&' is the argument it is
            args = [tool, tag] + (['x y', '$a'] if envpairs else strs)
            rest = ', '.join(mlit(a) for a in args[1:])
            if base == 'run_command':
                self.lines.append(f"run_command(tool, {rest}, check: true{', env: ' + envdict if envpairs else ''})")
            elif base == 'postconf_script':
                self.lines.append(f'meson.add_postconf_script(tool, {rest})')
            else:
                self.lines.append(f'meson.add_install_script(tool, {rest})')
            self.item(posname=posname, tlcpos='test', args=args, src=args, envspec=dict_spec(envpairs), find=('ran', tag),
                      via=RAN_POSITIONS[posname])
        elif base == 'custom_target':
            kws = [f'output: {mlit(out)}']
            env = dict_spec(envpairs)
            if posname == 'custom_target.capture':
                kws.append('capture: true')
            elif posname == 'custom_target.console':
                kws.append('console: true')
            elif posname == 'custom_target.feed':
                kws += ["input: 'in.txt'", 'feed: true']
            elif posname == 'custom_target.env':
                env = dict_spec([('C03V0', 'x y'), ('C03V1', "q'$;")])
                kws.append("env: {'C03V0': 'x y', 'C03V1': 'q\\'$;'}")
            elif posname == 'custom_target.envobj':
                env = [e_pair('set', 'C03V0', ['x y']), e_pair('append', 'C03V0', ['z w'])]
                self.lines.append(f"env{k} = environment()\nenv{k}.set('C03V0', 'x y')\nenv{k}.append('C03V0', 'z w')")
                kws.append(f'env: env{k}')
            elif posname == 'custom_target.capture+env':
                env = dict_spec([('C03V0', 'x y')])
                kws += ['capture: true', "env: {'C03V0': 'x y'}"]
            elif posname == 'custom_target.envvalue':
                kws.append(f'env: {envdict}')
            self.lines.append(f"custom_target({mlit('ct%d' % k)}, {', '.join(kws)}, command: {cmd})")
            self.item(posname=posname, tlcpos='custom', args=args, src=args, envspec=env, find=('out', out))
        elif base == 'run_target':
            kws = []
            if envpairs:
                kws.append(f'env: {envdict}')
            self.lines.append(f"run_target({mlit('rt%d' % k)}, command: {cmd}{''.join(', ' + x for x in kws)})")
            self.item(posname=posname, tlcpos='custom', args=args, src=args, envspec=dict_spec(envpairs),
                      find=('out', f'meson-internal__rt{k}'))
        elif base == 'generator':
            kws = [f"output: '@BASENAME@.g{k}'", f'arguments: {mlist(mlit(a) for a in args[1:])}']
            pkw = ''
            if posname == 'generator.capture':
                kws.append('capture: true')
            if envpairs:
                pkw = f', env: {envdict}'
            self.lines.append(f"gen{k} = generator(tool, {', '.join(kws)})")
            self.lines.append(f"custom_target({mlit('gc%d' % k)}, input: gen{k}.process('in.txt'{pkw}), output: {mlit(out)}, "
                              f"command: [tool, {mlit(tag + 'c')}, '@INPUT@'])")
            self.item(posname=posname, tlcpos='custom', args=args, src=args, envspec=dict_spec(envpairs),
                      find=('suffix', f'/in.g{k}'))
        elif base in ('test', 'benchmark'):
            kws = [f'args: {mlist(mlit(a) for a in args[1:])}']
            if envpairs:
                kws.append(f'env: {envdict}')
            if posname == 'test.workdir':
                kws.append('workdir: meson.current_source_dir()')
            self.lines.append(f"{base}({mlit(tag)}, tool, {', '.join(kws)})")
            # no shell is involved: `&&' followed by the tool is just two arguments
            self.item(posname=posname, tlcpos='test', args=args, src=args, envspec=dict_spec(envpairs),
                      find=('bench' if base == 'benchmark' else 'test', tag))
        else:
            raise MachineryError('unknown position ' + posname)

    def envvalues(self, consumer: str, spelling: str, strs: T.List[str]) -> None:
        """The strings as environment VALUES of one command, in one spelling (render_env), for one consumer."""
        posname = f'{consumer}.envvalue-{spelling}'
        tool = self.tool
        if consumer == 'devenv':
            # all add_devenv() calls of a project make one environment: names are unique over the project.  A list
            # with several elements cannot be given to add_devenv itself (its arguments are flattened), so the
            # one-string spellings make one call per value
            one = spelling in ('list', 'str', 'envobj-str')
            groups = [[s] for s in strs] if one else [strs]
            for g in groups:
                k = self.uid()
                pairs = [(f'C03VD{k}x{j}', s) for j, s in enumerate(g)]
                r = render_env(spelling, pairs, k, self.rnd, self.ambient)
                self.lines += r['pre']
                if r['direct'] is not None and (spelling in ('list', 'str') or self.rnd.random() < 0.5):
                    self.lines.append(f"meson.add_devenv({r['direct'][0]}{r['direct'][1]})")
                else:
                    self.lines.append(f"meson.add_devenv({r['expr']})")
                self.devenv.append((posname, r['spec']))
            return
        single = spelling in ('str', 'envobj-str')
        for g in ([[s] for s in strs] if single else [strs]):
            k = self.uid()
            tag = f'C03T{k}'
            pairs = [(f'C03V{j}', s) for j, s in enumerate(g)]
            r = render_env(spelling, pairs, k, self.rnd, self.ambient)
            self.lines += r['pre']
            args = [tool, tag, 'x y', '$a']
            rest = mlist(mlit(a) for a in args[1:])
            common_kw = dict(posname=posname, args=args, src=args, envsrc=spec_strings(r['spec']), envspec=r['spec'])
            if consumer == 'test':
                self.lines.append(f"test({mlit(tag)}, tool, args: {rest}, env: {r['expr']})")
                self.item(tlcpos='test', find=('test', tag), **common_kw)
            elif consumer == 'run_command':
                self.lines.append(f"run_command(tool, {rest[1:-1]}, check: true, env: {r['expr']})")
                self.item(tlcpos='test', find=('ran', tag), via='configure', **common_kw)
            elif consumer == 'custom_target':
                out = f'o{k}.out'
                self.lines.append(f"custom_target({mlit('ct%d' % k)}, output: {mlit(out)}, command: [tool, {rest[1:]}, env: {r['expr']})")
                self.item(tlcpos='custom', find=('out', out), **common_kw)
            elif consumer == 'run_target':
                self.lines.append(f"run_target({mlit('rt%d' % k)}, command: [tool, {rest[1:]}, env: {r['expr']})")
                self.item(tlcpos='custom', find=('out', f'meson-internal__rt{k}'), **common_kw)
            elif consumer == 'generator':
                out = f'o{k}.out'
                self.lines.append(f"gen{k} = generator(tool, output: '@BASENAME@.g{k}', arguments: {rest})")
                self.lines.append(f"custom_target({mlit('gc%d' % k)}, input: gen{k}.process('in.txt', env: {r['expr']}), "
                                  f"output: {mlit(out)}, command: [tool, {mlit(tag + 'c')}, '@INPUT@'])")
                self.item(tlcpos='custom', find=('suffix', f'/in.g{k}'), **common_kw)
            else:
                raise MachineryError('unknown env consumer ' + consumer)

    def wrapped(self, posname: str, strs: T.List[str]) -> None:
        """A cross-built executable as test program / as custom-target command: what runs is the exe wrapper of the
        cross file with ITS arguments, then the executable, then the arguments given here."""
        assert self.wrapper is not None
        if not self.has_xe:
            self.lines.append("xe = executable('xe', 'main.c')")
            self.has_xe = True
        k = self.uid()
        tag = f'C03T{k}'
        args = [self.tool] + self.wrapper + ['@@BLD@@/xe', tag] + strs
        rest = mlist(['xe'] + [mlit(a) for a in [tag] + strs])
        if posname.startswith('test'):
            self.lines.append(f"test({mlit(tag)}, xe, args: {mlist(mlit(a) for a in [tag] + strs)})")
            self.item(posname=posname, tlcpos='test', args=args, src=args, envspec=[], find=('test', tag))
        else:
            out = f'o{k}.out'
            self.lines.append(f"custom_target({mlit('ct%d' % k)}, output: {mlit(out)}, command: {rest})")
            self.item(posname=posname, tlcpos='custom', args=args, src=args, envspec=[], find=('out', out))

    def boundary_family(self, kind: str, members: T.List[T.List[str]]) -> None:
        """Commands that all need the pickled wrapper and whose argument lists differ only in where the
        boundaries between the arguments fall (same program, same concatenation, same env): every target must
        still be run with ITS OWN argument list."""
        fam = self.uid()
        tool = self.tool
        for mem in members:
            k = self.uid()
            out = f'o{k}.out'
            env: T.List[EnvEntry] = []
            if kind == 'custom_target.boundary-envobj':
                args = [tool] + mem
                env = [e_pair('set', 'C03V0', ['x y']), e_pair('append', 'C03V0', ['z w'])]
                self.lines.append(f"env{k} = environment()\nenv{k}.set('C03V0', 'x y')\nenv{k}.append('C03V0', 'z w')")
                extra = f', env: env{k}'
            else:
                args = [tool, 'l1\nl2'] + mem           # the newline forces the serialised form
                extra = ''
            cmd = mlist(['tool'] + [mlit(a) for a in args[1:]])
            if kind.startswith('custom_target'):
                self.lines.append(f"custom_target({mlit('bt%d' % k)}, output: {mlit(out)}, command: {cmd}{extra})")
                find: T.Tuple[str, str] = ('out', out)
            else:
                self.lines.append(f"run_target({mlit('br%d' % k)}, command: {cmd})")
                find = ('out', f'meson-internal__br{k}')
            self.item(posname=kind, tlcpos='custom', args=args, src=args, envspec=env, find=find, family=fam)

    def templates(self) -> None:
        """R1: the documented placeholders, embedded in odd surroundings."""
        k = self.uid()
        tool = self.tool
        out = f'o{k}.out'
        out2 = f'o{k}b.out'
        args = [tool, f'C03T{k}', '@INPUT@', '@OUTPUT@', 'a @OUTPUT0@ $b', "q'@INPUT0@\"", '@OUTDIR@;', '#@PLAINNAME@', '*@BASENAME@*',
                '@BUILD_ROOT@ x', 'a@b', '@@', '@UNKNOWN', 'x@', '@SOURCE_ROOT@/s p', '@CURRENT_SOURCE_DIR@|', '@OUTPUT1@\\']
        self.lines.append(f"custom_target({mlit('ct%d' % k)}, input: 'in.txt', output: [{mlit(out)}, {mlit(out2)}], "
                          f"command: {mlist(['tool'] + [mlit(a) for a in args[1:]])})")
        tmpl = [('@INPUT@', ['../src/in.txt']), ('@OUTPUT@', [out, out2]), ('@OUTPUT0@', [out]), ('@OUTPUT1@', [out2]),
                ('@INPUT0@', ['../src/in.txt']), ('@OUTDIR@', ['.']), ('@PLAINNAME@', ['in.txt']), ('@BASENAME@', ['in']),
                ('@BUILD_ROOT@', ['.']), ('@SOURCE_ROOT@', ['../src']), ('@CURRENT_SOURCE_DIR@', ['../src/'])]
        self.item(posname='custom_target.templates', tlcpos='custom', args=args, src=[], tmpl=tmpl, envspec=[], find=('out', out))
        # the dependency file: its name is a string of the build definition too (after @BASENAME@ / @PLAINNAME@), and
        # @DEPFILE@ stands for its path
        k = self.uid()
        out = f'o{k}.out'
        dargs = [tool, f'C03T{k}', '@DEPFILE@', 'a @DEPFILE@;', "q'@DEPFILE@\"", '-MF@DEPFILE@', '@OUTPUT@']
        self.lines.append(f"custom_target({mlit('ct%d' % k)}, input: 'in.txt', output: {mlit(out)}, depfile: '@BASENAME@ d$x;@PLAINNAME@.d', "
                          f"command: {mlist(['tool'] + [mlit(a) for a in dargs[1:]])})")
        self.item(posname='custom_target.depfile', tlcpos='custom', args=dargs, src=[], envspec=[], find=('out', out),
                  tmpl=[('@DEPFILE@', ['in d$x;in.txt.d']), ('@OUTPUT@', [out])])

    # -- files ----------------------------------------------------------------------------
    def files(self) -> T.Dict[str, str]:
        if self.lang:
            do = ''
            if self.default_options:
                do = ', default_options: {' + ', '.join(f'{mlit(k)}: {mlist(mlit(a) for a in v)}'
                                                       for k, v in self.default_options.items()) + '}'
            first = f"project({mlit(self.pid)}, 'c'{do}, meson_version: '>=1.3.0')"
        else:
            first = f"project({mlit(self.pid)}, meson_version: '>=1.3.0')"
        text = '\n'.join([first, f'tool = find_program({mlit(self.tool)})'] + self.head + self.lines) + '\n'
        return {'meson.build': text, 'main.c': 'int main(void) { return 0; }\n', 'in.txt': 'input\n', 'in2.txt': 'input 2\n'}

    def spec(self) -> T.Dict[str, T.Any]:
        items = list(self.items)
        if self.devenv:
            # one command run by `meson devenv' sees the environment all add_devenv() calls make together
            tag = f'C03TD{self.n + 1}'
            entries = [e for _, sp in self.devenv for e in sp]
            owner = {}
            for posname, sp in self.devenv:
                for n in spec_names(sp):
                    owner.setdefault(n, posname)
            items.append({'id': f'{self.pid}/devenv.envvalue/{len(items)}', 'posname': 'devenv.envvalue', 'tlcpos': 'devenv',
                          'args': [self.tool, tag, 'x y'], 'src': [self.tool, tag, 'x y'], 'envsrc': spec_strings(entries),
                          'envspec': entries,
                          'find': ('devenv', tag), 'owner': owner})
        sp = {'pid': self.pid, 'lang': self.lang, 'rsp': self.rsp, 'files': self.files(), 'items': items,
              'tool': self.tool, 'ambient': self.ambient}
        if self.wrapper is not None:
            # a machine file doubles every backslash before it reads the value: no escape sequence can be written, a string
            # is the characters between the quotes
            sp['cross'] = ("[binaries]\nc = 'cc'\nexe_wrapper = " + mlist("'" + a + "'" for a in [self.tool] + self.wrapper) + "\n"
                           "[host_machine]\nsystem = 'linux'\ncpu_family = 'x86_64'\ncpu = 'x86_64'\nendian = 'little'\n"
                           "[properties]\nneeds_exe_wrapper = true\n")
        return sp


def _test_wrapper(ts: T.Any) -> T.List[str]:
    """The serialised test names its exe wrapper apart from the command (cross-built test programs only)."""
    if ts.cmd_is_exe and ts.is_cross_built and ts.needs_exe_wrapper and ts.exe_wrapper is not None:
        return list(ts.exe_wrapper.get_command())
    return []


def _load_pickles(builddir: Path, rawtext: str) -> T.List[T.Dict[str, T.Any]]:
    import pickle
    out = []
    for name in sorted(set(re.findall(r'meson_exe_[A-Za-z0-9_.+-]*\.dat', rawtext))):
        p = builddir / 'meson-private' / name
        if not p.exists():
            continue
        with open(p, 'rb') as f:
            es = pickle.load(f)
        env = es.env.get_env({}) if es.env is not None else {}
        wrap = list(es.exe_wrapper.get_command()) if es.exe_wrapper is not None else []
        out.append({'path': cp(str(p)), 'argv': [cp(a) for a in wrap + list(es.cmd_args)], 'env': [[cp(k), cp(v)] for k, v in env.items()]})
    return out


def run_project(spec: T.Dict[str, T.Any], root: Path, tools_root: str, level3: bool) -> T.Dict[str, T.Any]:
    """Write, configure, read back, (level 3) execute; returns {'cases': [...], 'meta': {...}}."""
    common.use_repo_meson()
    t_start = time.time()
    tools = Tools(Path(tools_root))
    pid = spec['pid']
    src = root / 'src'
    bld = root / 'b'
    src.mkdir(parents=True)
    for name, text in spec['files'].items():
        (src / name).write_text(text, encoding='utf-8')
    env = {'MESON_RSP_THRESHOLD': '0'} if spec['rsp'] else {}
    # commands meson runs while it configures (run_command, postconf scripts) record themselves under cdumps/<tag>;
    # they are started in the ambient environment like every other command
    cdumps = root / 'cdumps'
    cdumps.mkdir()
    env.update(dict(tuple(x) for x in spec.get('ambient', [])))
    env['C03_DUMP_DIR'] = str(cdumps)
    extra: T.List[str] = []
    if spec.get('cross'):
        (root / 'cross.ini').write_text(spec['cross'], encoding='utf-8')
        extra = ['--cross-file', str(root / 'cross.ini')]
    res = projgen.setup(src, bld, None, backend='ninja', env=env, timeout=1200, extra_args=extra)
    meta = {'pid': pid, 'ok': res.ok, 'wall': round(res.wall, 2), 'error': '' if res.ok else res.error_text}
    items = spec['items']
    if not res.ok:
        log = (res.stdout + res.stderr)[-1500:]
        return {'cases': [{'id': f'{pid}/refused', 'kind': 'refused', 'items': [it['id'] for it in items]}],
                'meta': dict(meta, log=log), 'index': {f'{pid}/refused': {'posname': items[0]['posname'] if items else '', 'src': [],
                                                                          'refused': True, 'strs': sorted({s for it in items for s in list(it.get('strs', it['src'])) + list(it.get('envsrc', []))}),
                                                                          'pid': pid}}}
    text = (bld / 'build.ninja').read_text(encoding='utf-8')
    man = ninja_ref.parse_text(text, basedir=str(bld))
    # a manifest the independent reader rejects is judged by the specification alone (NinjaSyntax clauses);
    # nothing of it is executed
    ref_ok = not man.errors
    meta['reader_errors'] = man.errors[:3]
    raw = c03_raw.raw_manifest(text)
    by_out: T.Dict[str, ninja_ref.Edge] = {}
    for e in man.edges:
        for o in e.outs:
            by_out[o] = e
    compile_edges = [e for e in man.edges if e.rule.startswith('c_COMPILER')]
    link_edges = [e for e in man.edges if e.rule.startswith('c_LINKER')]
    tests: T.Dict[str, T.Any] = {}
    benches: T.Dict[str, T.Any] = {}
    if any(it['find'][0] in ('test', 'bench') for it in items):
        import pickle
        for fn, dst in (('meson_test_setup.dat', tests), ('meson_benchmark_setup.dat', benches)):
            with open(bld / 'meson-private' / fn, 'rb') as f:
                for ts in pickle.load(f):
                    dst[ts.name] = ts
    cases: T.List[T.Dict[str, T.Any]] = []
    index: T.Dict[str, T.Dict[str, T.Any]] = {}
    shell_jobs: T.List[T.Tuple[T.Dict[str, T.Any], str]] = []
    for it in items:        # the build directory is known only now
        it['args'] = [a.replace('@@BLD@@', str(bld)) for a in it['args']]
        it['src'] = [a.replace('@@BLD@@', str(bld)) for a in it['src']]
    ambient = [tuple(x) for x in spec.get('ambient', [])]
    amb_env = dict(ambient)
    # a runner that hangs (it has been seen to, on an environment it cannot hand to a process) must not take the tier with it
    run_tmo = 900 if os.environ.get('VERIF_TIER', 'quick') == 'quick' else 3600
    devenv_items = []
    for it in items:
        how = it['find']
        index[it['id']] = {'posname': it['posname'], 'src': it['src'], 'pid': pid, 'args': it['args'],
                           'envsrc': it.get('envsrc', []), 'envnames': spec_names(it.get('envspec', [])),
                           'owner': it.get('owner', {})}
        if how[0] == 'devenv':
            devenv_items.append(it)
            continue
        if how[0] == 'ran':
            c = {'id': it['id'], 'kind': 'ran', 'pos': it['tlcpos'], 'via': it['via'], 'args': [cp(a) for a in it['args']],
                 'envspec': spec_cp(it.get('envspec', [])), 'ambient': pairs_cp(ambient), 'has_real': 0, 'real': [], 'runs': 1,
                 'tag': how[1]}
            if it['via'] == 'configure':
                c['has_real'] = 1
                c['real'] = read_dumps(cdumps / how[1])
            cases.append(c)
            continue
        if how[0] in ('test', 'bench'):
            ts = (benches if how[0] == 'bench' else tests).get(how[1])
            if ts is None:
                raise MachineryError(f'{pid}: test {how[1]} missing from the serialised tests')
            obs_env = ts.env.get_env({})
            c = {'id': it['id'], 'kind': 'test', 'pos': 'test', 'args': [cp(a) for a in it['args']], 'bracket': 0,
                 'envspec': spec_cp(it.get('envspec', [])), 'ambient': pairs_cp(ambient), 'tmpl': [],
                 'obs': {'argv': [cp(a) for a in _test_wrapper(ts) + list(ts.fname) + list(ts.cmd_args)],
                         'env': [[cp(k), cp(v)] for k, v in obs_env.items()]},
                 'has_real': 0, 'real': [], 'runs': 0, 'tag': how[1]}
            cases.append(c)
            continue
        if how[0] == 'out':
            edge = by_out.get(how[1])
        elif how[0] == 'suffix':
            edge = next((e for e in man.edges if any(o.endswith(how[1]) for o in e.outs)), None)
        elif how[0] == 'first_compile':
            edge = compile_edges[0] if compile_edges else None
        elif how[0] == 'first_link':
            edge = link_edges[0] if link_edges else None
        else:
            edge = None
        if edge is None:
            raise MachineryError(f'{pid}: no build statement found for {it["id"]} ({how})')
        sp = dict(it)
        sp['ambient'] = ambient
        rawblock = ' '.join(v for _, v in raw['edges'][edge.lineno])
        sp['pickles'] = _load_pickles(bld, rawblock)
        c = edge_case(it['id'], edge, raw, sp, ref=ref_ok)
        cases.append(c)
        if level3 and ref_ok and not edge.rule.endswith('_RSP'):
            for o in edge.outs:     # ninja creates the directories of the outputs before it runs a command
                os.makedirs(os.path.dirname(os.path.join(bld, o)) or '.', exist_ok=True)
            shell_jobs.append((c, edge.command))
    if level3:
        dumps = root / 'dumps'
        dumps.mkdir()
        seen: T.Dict[str, T.List[T.Dict[str, T.Any]]] = {}
        base_env = projgen.run_env({'PATH': str(tools.shims) + os.pathsep + os.environ.get('PATH', '')})
        for k in list(base_env):
            if k.startswith('C03'):
                del base_env[k]
        base_env.update(amb_env)
        for n, (c, cmdline) in enumerate(shell_jobs):
            if cmdline in seen:
                recs = seen[cmdline]
            else:
                df = dumps / f's{n}.json'
                e = dict(base_env, C03_DUMP=str(df))
                try:
                    subprocess.run(['/bin/sh', '-c', cmdline], cwd=bld, env=e, stdout=subprocess.DEVNULL,
                                   stderr=subprocess.DEVNULL, stdin=subprocess.DEVNULL, timeout=600)
                except subprocess.TimeoutExpired as ex:
                    raise MachineryError(f'{pid}: /bin/sh -c timed out on {cmdline[:200]}') from ex
                recs = read_dumps(df)
                seen[cmdline] = recs
            c['has_real'] = 1
            c['real'] = recs
        tcases = [c for c in cases if c['kind'] == 'test']
        if spec.get('cross') and not (bld / 'xe').exists():
            # `meson test' wants the test program to exist; nothing ever runs it (the wrapper is the dumper)
            shutil.copy(tools.dump, bld / 'xe')
        if tcases:
            tdir = root / 'tdumps'
            tdir.mkdir()
            for bench in (False, True):
                if not any((c['id'].split('/')[1].startswith('benchmark')) == bench for c in tcases):
                    continue
                # every test object is executed several times in one invocation (--repeat: one runner per
                # iteration, all created from the same un-pickled TestSerialisation)
                rep = 2 if bench else 3
                r = projgen.run_meson(['test', '-C', str(bld), '--no-rebuild', '--num-processes', '4', '-t', '20', '--repeat', str(rep)]
                                      + (['--benchmark'] if bench else []),
                                      env=dict(amb_env, C03_DUMP_DIR=str(tdir)), timeout=run_tmo)
                if r.returncode != 0:
                    raise MachineryError(f'{pid}: meson test failed (rc={r.returncode}): ' + (r.stdout + r.stderr)[-600:])
                for c in tcases:
                    if (c['id'].split('/')[1].startswith('benchmark')) == bench:
                        c['runs'] = rep
            for c in tcases:
                c['has_real'] = 1
                c['real'] = read_dumps(tdir / c['tag'])
    icases = [c for c in cases if c['kind'] == 'ran' and c['via'] == 'install']
    if level3 and icases:
        idumps = root / 'idumps'
        idumps.mkdir()
        r = projgen.run_meson(['install', '-C', str(bld), '--no-rebuild', '--destdir', str(root / 'dest')],
                              env=dict(amb_env, C03_DUMP_DIR=str(idumps)), timeout=run_tmo)
        if r.returncode != 0:
            raise MachineryError(f'{pid}: meson install failed (rc={r.returncode}): ' + (r.stdout + r.stderr)[-600:])
        for c in icases:
            c['has_real'] = 1
            c['real'] = read_dumps(idumps / c['tag'])
    for it in devenv_items:
        # the developer environment: every add_devenv() of the project, seen by a command run by `meson devenv'
        c = {'id': it['id'], 'kind': 'devenv', 'args': [cp(a) for a in it['args']], 'envspec': spec_cp(it['envspec']),
             'ambient': pairs_cp(ambient), 'has_real': 0, 'real': []}
        if level3:
            df = root / 'devenv.json'
            r = projgen.run_meson(['devenv', '-C', str(bld)] + it['args'], env=dict(amb_env, C03_DUMP=str(df)), timeout=run_tmo)
            if r.returncode != 0:
                raise MachineryError(f'{pid}: meson devenv failed (rc={r.returncode}): ' + (r.stdout + r.stderr)[-600:])
            c['has_real'] = 1
            c['real'] = read_dumps(df)
        cases.append(c)
    for c in cases:
        c.pop('tag', None)
    meta['total'] = round(time.time() - t_start, 2)
    meta['cases'] = len(cases)
    return {'cases': cases, 'meta': meta, 'index': index}


def _worker_project(args: T.Tuple[T.Dict[str, T.Any], str, str, bool]) -> T.Dict[str, T.Any]:
    spec, base, tools_root, level3 = args
    root = Path(base) / re.sub(r'[^A-Za-z0-9_.-]', '_', spec['pid'])
    try:
        return run_project(spec, root, tools_root, level3)
    except MachineryError as e:
        return {'machinery': str(e), 'cases': [], 'meta': {'pid': spec['pid']}, 'index': {}}
    finally:
        shutil.rmtree(root, ignore_errors=True)


# ---------------------------------------------------------------------------
# planning the projects of a tier


def plan_projects(tool: str, tier: str, seed: int, alphabet: T.Sequence[int]) -> T.List[T.Dict[str, T.Any]]:
    rnd = random.Random(1000003 * seed + 17)
    quick = tier == 'quick'
    base = list(strings_upto(alphabet, 1 if quick else 3))
    base += SPECIALS + ['&&']
    base += random_strings(alphabet, rnd, 24 if quick else 400, 2, 6)
    seen: T.Set[str] = set()
    strs = [s for s in base if not (s in seen or seen.add(s))]  # type: ignore[func-returns-value]
    plain = [s for s in strs if '\n' not in s]
    flagfree = [s for s in plain if not s.startswith(('-D', '-I', '-L', '-l', '-U', '-W'))]
    withnl = [s for s in strs if '\n' in s]
    if quick:
        withnl = withnl[:6]
    shared = flagfree if quick else [s for s in flagfree if len(s) <= 2] + rnd.sample([s for s in flagfree if len(s) > 2], 320)
    per = 28
    specs: T.List[T.Dict[str, T.Any]] = []

    def shuffled(xs: T.List[str], salt: int) -> T.List[str]:
        ys = list(xs)
        random.Random(seed * 7919 + salt).shuffle(ys)
        return ys

    # ---- C projects (plain and response-file mode)
    for rsp in (False, True):
        tgt = shuffled(flagfree, 1 + rsp)
        dsrc = [s for s in plain if '\\' in s] + rnd.sample(plain, min(len(plain), 40 if quick else 300))
        dsrc = shuffled(list(dict.fromkeys(dsrc)), 3 + rsp)
        lnk = shuffled(flagfree, 5 + rsp)
        if rsp and not quick:
            tgt, dsrc, lnk = tgt[:len(tgt) // 2], dsrc[:len(dsrc) // 2], lnk[:len(lnk) // 2]
        sh = shuffled(shared, 7 + rsp)
        groups_t = list(common.chunks(tgt, per))
        groups_d = list(common.chunks(dsrc, 10))
        groups_l = list(common.chunks(lnk, per))
        ntargets = max(len(groups_t), len(groups_d), len(groups_l))
        shared_chunks = list(common.chunks(sh, 16))
        # every project carries six shared lists (one chunk each) and a slice of the targets; with as many
        # projects as chunks every chunk meets every shared position once
        nchunks = max(1, len(shared_chunks))
        if rsp and not quick:
            nchunks = (nchunks + 1) // 2
        nproj = 1 if quick else max((ntargets + 7) // 8, nchunks)
        tper = (ntargets + nproj - 1) // nproj
        for pj in range(nproj):
            pb = ProjectBuilder(f'c{"r" if rsp else ""}{pj}', 'c', tool, rsp=rsp)
            for pi, posname in enumerate(COMPILE_SHARED + LINK_SHARED):
                chunk = shared_chunks[(pj + pi * 5) % len(shared_chunks)] if shared_chunks else []
                pb.shared_args(posname, list(chunk))
            for t in range(pj * tper, min(ntargets, (pj + 1) * tper)):
                pb.build_target(list(groups_t[t]) if t < len(groups_t) else ['a'],
                                list(groups_d[t]) if t < len(groups_d) else [],
                                list(groups_l[t]) if t < len(groups_l) else ['a'], shlib=(t % 5 == 4))
            if not pb.lines:
                pb.build_target(['a b'], ['a\\b'], ['a b'])
            specs.append(pb.spec())
    # ---- custom-command projects
    nl_free = {'test.args', 'test.envvalue', 'test.workdir', 'benchmark.args'} | set(RAN_POSITIONS)
    jobs: T.List[T.Tuple[str, T.List[str]]] = []
    for pi, posname in enumerate(CUSTOM_POSITIONS):
        pool = shuffled(strs if posname in nl_free else plain, 11 + pi)
        if posname in ('custom_target.env', 'custom_target.envobj', 'custom_target.capture+env', 'test.workdir', 'benchmark.args',
                       'custom_target.console', 'postconf_script.args', 'install_script.args') and not quick:
            pool = pool[:len(pool) // 3]
        width = 16 if posname.endswith('.envvalue') else per
        for chunk in common.chunks(pool, width):
            jobs.append((posname, list(chunk)))
    nproj = 3 if quick else max(1, min(24, len(jobs) // 60))
    # ---- environment values in every spelling (ENV_SPELLINGS; the dictionary is the `.envvalue' positions above):
    # tests meet every string in every spelling; the build-time consumers share the chunks of a spelling in
    # rotation with run_command (every consumer meets every spelling, every string meets every spelling in one of them); the
    # developer environment takes every string in one spelling
    envjobs: T.List[T.Tuple[str, str, T.List[str]]] = []
    rotation = ENV_BUILD_CONSUMERS + ['run_command']
    for si, spelling in enumerate(ENV_SPELLINGS):
        single = spelling in ('str', 'envobj-str')
        tpool = shuffled(strs, 41 + si)
        bpool = shuffled(plain, 51 + si)
        if not quick:
            tpool = tpool[:len(tpool) // (8 if single else 1 if spelling == 'list' else 3)]
            bpool = bpool[:len(bpool) // 3]
        if single:
            bpool = bpool[:12 if quick else 60]
        for chunk in common.chunks(tpool, 16):
            envjobs.append(('test', spelling, list(chunk)))
        for ci, chunk in enumerate(common.chunks(bpool, 4 if single else 16)):
            envjobs.append((rotation[(ci + si + seed) % len(rotation)], spelling, list(chunk)))
    for ci, chunk in enumerate(common.chunks(shuffled(strs, 61), 16)):
        envjobs.append(('devenv', ENV_SPELLINGS[(ci + seed) % len(ENV_SPELLINGS)], list(chunk)))
    nonempty = [s for s in strs if s]
    for pj in range(nproj):
        arnd = random.Random(seed * 104729 + pj)
        pb = ProjectBuilder(f'u{pj}', '', tool, seed=seed,
                            ambient=[(f'C03VA{j}', arnd.choice(nonempty)) for j in range(3)])
        for posname, chunk in jobs[pj::nproj]:
            pb.custom(posname, chunk)
        for consumer, spelling, chunk in envjobs[pj::nproj]:
            pb.envvalues(consumer, spelling, chunk)
        if pj == 0:
            pb.templates()
        specs.append(pb.spec())
    # ---- cross builds: the arguments of the exe wrapper (cross file) and the arguments that follow a cross-built
    # executable in a test / a custom-target command; one wrapper per project
    wpool = [w for w in shuffled(strs, 81) if "'" not in w and '\n' not in w]      # what a machine file can spell
    xpool = shuffled(strs, 83)
    nx = 2 if quick else 10
    xchunks = list(common.chunks(xpool, per))
    # the command of a custom target loses its backslashes (R2) and the wrapper's arguments are not part of it: the
    # wrappers with a backslash in an argument (odd projects) meet tests only
    w_nobs = [w for w in wpool if '\\' not in w]
    w_bs = [w for w in wpool if '\\' in w]
    for pj in range(nx):
        pb = ProjectBuilder(f'x{pj}', 'c', tool, seed=seed)
        pb.wrapper = ['C03W'] + w_nobs[pj::nx] + (w_bs[pj // 2::max(1, nx // 2)] if pj % 2 else [])
        pb.wrapped('test.args/exe_wrapper', ['a b'])
        custom_ok = not any('\\' in w for w in pb.wrapper)
        for ci, chunk in enumerate(xchunks[pj::nx]):
            if ci % 2 == 0 or not custom_ok:
                pb.wrapped('test.args/exe_wrapper', list(chunk))
            else:
                pb.wrapped('custom_target/exe_wrapper', [a for a in chunk])
        specs.append(pb.spec())
    # ---- argument-boundary families: several serialised commands in ONE build directory whose argv differ only
    # in where the boundaries fall (a name derived from the concatenated arguments would make them collide)
    fams: T.List[T.List[T.List[str]]] = [
        [['ab', 'c'], ['a', 'bc'], ['abc'], ['abc', ''], ['', 'abc'], ['a', 'b', 'c'], ['', 'a', '', 'bc', '']],
        [['-D', 'FOO', '=1'], ['-D', 'FOO=', '1'], ['-DFOO=1'], ['-D', 'FOO=1'], ['-DFOO', '=1']],
        [['x y', ' z'], ['x ', 'y z'], ['x y z'], ['x', 'y', 'z'], ['x', 'y z']],
        [['a', 'b'], ['a b'], ['a,b'], ["a', 'b"], ['a", "b'], ['a\', \'b'], ['a\\', 'b'], ['a', '\\b']],
        [['x', ''], ['x'], ['', 'x'], ['', '', 'x']],
    ]
    for _ in range(2 if quick else 30):
        w = ''.join(rnd.choice([chr(c) for c in alphabet if c != 10]) for _ in range(rnd.randint(3, 6)))
        mem: T.List[T.List[str]] = []
        for _ in range(6):
            cuts = sorted(rnd.randint(0, len(w)) for _ in range(rnd.randint(0, 3)))
            pieces = [w[a:b] for a, b in zip([0] + cuts, cuts + [len(w)])]
            if pieces not in mem:
                mem.append(pieces)
        if len(mem) >= 2:
            fams.append(mem)
    kinds = ['custom_target.boundary', 'run_target.boundary', 'custom_target.boundary-envobj']
    nbp = 1 if quick else 3
    for pj in range(nbp):
        pb = ProjectBuilder(f'g{pj}', '', tool)
        for fi, fam in enumerate(fams):
            if fi % nbp != pj:
                continue
            for ki, kind in enumerate(kinds):
                if quick and fi >= 5 and ki != fi % 3:
                    continue
                pb.boundary_family(kind, fam)
        specs.append(pb.spec())
    # ---- newline strings: one small project per position, so that a refusal names the position
    if withnl:
        for pi, posname in enumerate(ALL_POSITIONS):
            if posname in nl_free:
                continue
            pool = shuffled(withnl, 31 + pi)
            if not quick:
                pool = pool[:120]
            lang = 'c' if posname in COMPILE_SHARED + LINK_SHARED + TARGET_POSITIONS else ''
            pb = ProjectBuilder(f'n{pi}', lang, tool)
            if posname in COMPILE_SHARED + LINK_SHARED:
                pb.shared_args(posname, pool[:12])
                pb.build_target(['a'], [], ['a'])
            elif posname in TARGET_POSITIONS:
                for chunk in common.chunks(pool[:40], 10):
                    if posname == 'c_args.target':
                        pb.build_target(list(chunk), [], ['a'])
                    elif posname == 'c_args.target-D':
                        pb.build_target(['a'], list(chunk), ['a'])
                    else:
                        pb.build_target(['a'], [], list(chunk), shlib=posname.endswith('shlib'))
            else:
                for chunk in common.chunks(pool, 12):
                    pb.custom(posname, list(chunk))
            sp = pb.spec()
            sp['nlpos'] = posname
            specs.append(sp)
        # the environment spellings of the build-time consumers: one project per consumer
        for ci, consumer in enumerate(ENV_BUILD_CONSUMERS):
            pb = ProjectBuilder(f'ne{ci}', '', tool, seed=seed, ambient=[('C03VA0', 'amb\nient')])
            for si, spelling in enumerate(ENV_SPELLINGS):
                pool = shuffled(withnl, 71 + ci * 7 + si)[:6 if quick else 40]
                if spelling in ('str', 'envobj-str'):
                    pool = pool[:3 if quick else 12]
                for chunk in common.chunks(pool, 8):
                    pb.envvalues(consumer, spelling, list(chunk))
            sp = pb.spec()
            sp['nlpos'] = f'{consumer}.envvalue-spellings'
            specs.append(sp)
    return specs


# ---------------------------------------------------------------------------
# judging


MODEL_PREFIX = 'Model'


def judge(chk: Check, cases: T.List[T.Dict[str, T.Any]], index: T.Dict[str, T.Dict[str, T.Any]], label: str,
          detail_extra: T.Optional[T.Dict[str, T.Any]] = None) -> None:
    if not cases:
        return
    for part_no, part in enumerate(common.chunks(cases, 25000)):
        with scratch('c03-') as d:
            tf = d / 'cases.json'
            tf.write_text(json.dumps(part))
            res = run_tlc(SPECS / 'ninja', 'TraceArgFidelity', env={'TRACE_FILE': str(tf)}, timeout=7200)
            bad = res.json_lines()
            if not res.clean:
                raise MachineryError('TraceArgFidelity did not complete cleanly:\n' + res.stdout[-1500:])
            if res.distinct != 2 * len(part):
                raise MachineryError(f'TraceArgFidelity judged {res.distinct // 2} of {len(part)} cases')
            if bad:
                res1 = run_tlc(SPECS / 'ninja', 'TraceArgFidelity', env={'TRACE_FILE': str(tf)}, timeout=7200, workers=1)
                bad = res1.json_lines()
        chk.add_tlc(f'TraceArgFidelity[{label}#{part_no}]', res, model=False)
        chk.traces += len(part)
        by_id = {c['id']: c for c in part}
        for v in bad:
            report(chk, v, by_id.get(v['id'], {}), index.get(v['id'], {}), detail_extra)


def _txt(x: T.Any) -> T.Any:
    if isinstance(x, list) and x and all(isinstance(e, int) for e in x):
        return uncp(x)
    if isinstance(x, list):
        return [_txt(e) for e in x]
    return x


def report(chk: Check, v: T.Dict[str, T.Any], case: T.Dict[str, T.Any], ix: T.Dict[str, T.Any],
           detail_extra: T.Optional[T.Dict[str, T.Any]]) -> None:
    clause = v['clause']
    detail = {'verdict': {k: _txt(x) for k, x in v.items()}, 'position': ix.get('posname'), 'project': ix.get('pid')}
    if detail_extra:
        detail.update(detail_extra)
    if clause.startswith(MODEL_PREFIX):
        raise MachineryError(f'environment models disagree ({clause}) on case {v["id"]}: ' + json.dumps(detail['verdict'], ensure_ascii=False)[:900])
    kind = case.get('kind')
    if kind == 'envfn':
        exp = _txt(v.get('exp') or [])
        detail['envfn'] = {'f': case.get('f'), 'ambient': [[uncp(a), uncp(b)] for a, b in case.get('ambient', [])],
                           'spec': [{'form': e['form'], 'op': e['op'], 'name': uncp(e['name']), 'values': [uncp(x) for x in e['values']],
                                     'sep': uncp(e['sep'])} for e in case.get('envspec', [])]}
        sig = f'L1:{clause}:{v["f"]}:{cls(exp[0] if exp and isinstance(exp[0], str) else "")}'
    elif kind in ('fn', 'rspreal'):
        ss = [uncp(s) for s in case.get('ss', [])]
        detail['inputs'] = ss
        sig = f'L1:{clause}:{v["f"]}:{"|".join(sorted({cls(s) for s in ss}))}'
    elif kind == 'refused':
        strs = ix.get('strs', [])
        detail['strings'] = strs
        detail['error'] = ix.get('error')
        if ix.get('nlpos'):
            sig = f'ConfigureRefused@{ix["nlpos"]}:NL'
        else:
            sig = 'ConfigureRefused@project:' + re.sub(r'[^A-Za-z ]+', ' ', (ix.get('error') or '').split('\n')[0])[:80].strip()
    else:
        if not ix and kind == 'edge':
            ix = {'posname': 'writer', 'src': [uncp(a) for a in case.get('args', [])]}
            detail['inputs'] = ix['src'][1:-1]
        pos = ix.get('posname', '?')
        src = ix.get('src') or []
        k = v.get('k', 0)
        if clause.startswith('ShellFault') or clause.startswith('NinjaSyntax'):
            ch = v.get('ch', 0)
            c = NAMES.get(chr(ch), 'U+%04X' % ch) if ch else 'none'
            sig = f'{clause}@{pos}:ch={c}'
        elif clause.startswith('Wrapper:') or clause in ('SentinelLost', 'SentinelOrder', 'EmptyCommandLine', 'RuntimeProcessCount'):
            sig = f'{clause}@{pos}'
        elif clause in ('EnvDiffers', 'RuntimeEnv'):
            # k: index into the names the specification mentions (order of first mention); exp: the value prescribed
            names = ix.get('envnames') or []
            name = names[k - 1] if 0 < k <= len(names) else ''
            exp = _txt(v.get('exp') or [])
            val = exp[0] if exp and isinstance(exp[0], str) else ''
            if kind == 'devenv':
                pos = (ix.get('owner') or {}).get(name, pos)
            sig = f'{clause}@{pos}/{v["f"]}:{cls(val)}'
            detail['env_name'] = name
            detail['envspec'] = [{kk: _txt(x) for kk, x in e.items()} for e in case.get('envspec', [])]
            detail['ambient'] = _txt(case.get('ambient', []))
        else:
            s = src[k - 1] if 0 < k <= len(src) else None
            sig = f'{clause}@{pos}/{v["f"]}:{cls(s) if s is not None else ("beyond-last" if k > len(src) > 0 else "?")}'
            detail['source_argument'] = s
        detail['args'] = ix.get('args')
    detail['case_id'] = v['id']
    chk.violation(sig, detail)


# ---------------------------------------------------------------------------


MC_CFG = '''SPECIFICATION Spec
CONSTANTS MaxLen = %d
INVARIANT ShellRoundTrip
INVARIANT NinjaRoundTrip
INVARIANT NinjaPathRoundTrip
INVARIANT DirectRoundTrip
INVARIANT RspRoundTrip
INVARIANT RspViaNinjaRoundTrip
INVARIANT PairRoundTrip
INVARIANT AndAndSeparates
INVARIANT EnvAssignRoundTrip
INVARIANT EnvStringSplitsAtFirstEqOnly
INVARIANT EnvSpellingsAgree
INVARIANT EnvValueExact
INVARIANT EnvJoin
INVARIANT EnvAlgebra
INVARIANT EnvStringThroughEnvWord
INVARIANT NoTextDenotesNewline
INVARIANT ShellCarriesNewline
INVARIANT NoSilentMeta
INVARIANT ExpectedIsIdentityElsewhere
INVARIANT CustomLosesBackslashOnly
INVARIANT DefineReachesCLiteral
INVARIANT AndAndSplitsOnlyInShell
INVARIANT TemplateSubstitution
CHECK_DEADLOCK FALSE
POSTCONDITION EmitAlphabet
'''


def baseline(tools: Tools, base: Path) -> None:
    """The environment must be able to configure a C project and a language-less project at all."""
    for lang in ('c', ''):
        pb = ProjectBuilder('base' + lang, lang, str(tools.dump))
        if lang:
            pb.build_target(['a'], ['a'], ['a'])
        else:
            pb.custom('custom_target', ['a'])
        out = _worker_project((pb.spec(), str(base), str(tools.root), False))
        if out.get('machinery') or not out['meta'].get('ok'):
            raise MachineryError('baseline project does not configure: ' + json.dumps(out.get('meta'))[:800] + str(out.get('machinery')))


def main(chk: Check) -> None:
    quick = chk.tier == 'quick'
    n_mc = int(os.environ.get('C03_MAXLEN', 3 if quick else 4))
    n_l1 = n_mc
    chk.rule = ('level 1: every text over the model alphabet (14 code points incl. space $ : quotes backslash # ; * & | newline '
                'e-acute) up to N through the real quoting functions and manifest writer; level 2/3: every string of the tier '
                '(all texts up to length 1 (quick) / 3 (thorough), 70 special strings, seeded random texts of length 2-6) in '
                'every command position, environment values included (7 spellings + dictionary x test / custom_target / '
                'run_target / generator.process / add_devenv, over an ambient environment). Non-trivial = distinct (position, '
                'string) placements whose string needs quoting in '
                'at least one layer (anything but [A-Za-z0-9_@%+=:,./-]+).')
    res = run_tlc(SPECS / 'ninja', 'ArgFidelity_MC', cfg_text=MC_CFG % n_mc, collect=['alphabet.json'], timeout=7200,
                  allow_violation=False)
    chk.add_tlc(f'ArgFidelity_MC[MaxLen={n_mc}]', res)
    alphabet = json.loads(res.collected['alphabet.json'])
    chk.extra['alphabet'] = [chr(c) for c in alphabet]
    chk.extra['model_bound'] = n_mc

    with scratch('c03-run-') as top:
        tools = Tools.build(top / 'tools')
        # ---------------- level 1
        rnd = random.Random(chk.seed * 31 + 5)
        singles = list(strings_upto(alphabet, n_l1)) + SPECIALS
        singles += random_strings(alphabet, rnd, 300 if quick else 20000, n_l1 + 1, n_l1 + 3)
        groups: T.List[T.List[str]] = [[s] for s in singles]
        short = list(strings_upto(alphabet, 1)) + ['&&']
        groups += [[a, b] for a in short for b in short]
        groups += [[rnd.choice(singles) for _ in range(rnd.randint(2, 6))] for _ in range(200 if quick else 5000)]
        step = max(50, min(4000, len(groups) // (common.NCPU * 3) + 1))
        jobs = [(groups[lo:lo + step], f'{lo}') for lo in range(0, len(groups), step)]
        l1cases: T.List[T.Dict[str, T.Any]] = []
        with ProcessPoolExecutor(max_workers=common.NCPU) as ex:
            for part in ex.map(_worker_level1, jobs):
                l1cases.extend(part)
        estep = max(100, len(singles) // (common.NCPU * 2) + 1)
        with ProcessPoolExecutor(max_workers=common.NCPU) as ex:
            for part in ex.map(_worker_envfn, [(singles[lo:lo + estep], f'{lo}', chk.seed, n_l1 - 1) for lo in range(0, len(singles), estep)]):
                l1cases.extend(part)
        chk.extra['level1_env_cases'] = sum(1 for c in l1cases if c['kind'] == 'envfn')
        rs = [s for s in singles if len(s) <= (2 if quick else 3)] + SPECIALS
        l1cases += rsp_real_cases(tools, list(dict.fromkeys(rs)), top / 'rspreal')
        chk.evaluations += len(l1cases)
        for g in groups:
            if any(cls(s) != 'plain' for s in g):
                chk.nontriv('L1|' + '\x1f'.join(g))
        chk.sample({'level': 1, 'case': {k: _txt(v) for k, v in l1cases[len(l1cases) // 3].items()}})
        judge(chk, l1cases, {}, 'level1')
        chk.extra['level1_cases'] = len(l1cases)

        # ---------------- level 2 / 3
        baseline(tools, top / 'base')
        specs = plan_projects(str(tools.dump), chk.tier, chk.seed, alphabet)
        chk.extra['projects'] = len(specs)
        allcases: T.List[T.Dict[str, T.Any]] = []
        index: T.Dict[str, T.Dict[str, T.Any]] = {}
        metas = []
        specs_by_pid = {s['pid']: s for s in specs}
        with ProcessPoolExecutor(max_workers=common.NCPU) as ex:
            for out in ex.map(_worker_project, [(s, str(top / 'proj'), str(tools.root), True) for s in specs]):
                if out.get('machinery'):
                    raise MachineryError(out['machinery'])
                metas.append(out['meta'])
                for cid, ix in out['index'].items():
                    sp = specs_by_pid[ix['pid']]
                    ix['nlpos'] = sp.get('nlpos')
                    ix['error'] = out['meta'].get('error')
                    index[cid] = ix
                allcases.extend(out['cases'])
        chk.extra['project_walls'] = {m['pid']: [m.get('wall'), m.get('total'), m.get('cases')] for m in metas}
        chk.extra['projects_configured'] = sum(1 for m in metas if m.get('ok'))
        chk.extra['projects_refused'] = [m['pid'] + ': ' + m.get('error', '')[:160] for m in metas if not m.get('ok')]
        placements = 0
        for cid, ix in index.items():
            for s in list(ix.get('src') or []) + list(ix.get('envsrc') or []):
                if isinstance(s, str) and s and cls(s) != 'plain':
                    placements += 1
                    chk.nontriv(ix['posname'] + '|' + s)
        chk.extra['placements'] = placements
        chk.extra['positions'] = sorted({ix['posname'] for ix in index.values()})
        chk.extra['real_executions'] = sum(len(c.get('real', [])) for c in allcases)
        chk.evaluations += len(allcases)
        for c in allcases[:: max(1, len(allcases) // 4)][:4]:
            small = {k: _txt(v) for k, v in c.items() if k in ('id', 'kind', 'pos', 'args', 'env', 'real', 'block')}
            chk.sample({'level': 2, 'case': small}, limit=6)
        files_by_pid = {s['pid']: s for s in specs}
        # judge per project so that a replay file can carry the project
        judge_cases(chk, allcases, index, files_by_pid)
    chk.exhaustive = True
    chk.assumptions += [
        'host is POSIX: cmd_quote / MSVC response files / Windows quote_arg are not exercised',
        'non-UTF-8 bytes and NUL are out of scope; a lone carriage return (which the Ninja manual does not define) is not generated',
        'the compiler sanity check also receives option-level c_args / c_link_args, so that position is exercised with -DNAME=<string> forms only',
        'generator() arguments are treated like custom-target commands (backslash -> /), they share the command evaluation path',
        "an element that is exactly '&&' is expected to separate commands wherever a shell runs the command line and to be a plain "
        'argument in response files, the pickled wrapper and meson test (no shell there); it is always followed by the dumper path',
        'custom targets with rspable=True (only set by modules) are not generated',
        'cross builds: the exe wrapper is the dumper itself and the cross-built executable is never built or run (a copy of the '
        "dumper stands where `meson test' wants the program to exist); a machine file cannot spell a string with a single quote or a "
        'newline (every backslash is doubled before the value is read), such strings are not placed in the exe_wrapper position; '
        'wrappers with a backslash in an argument meet tests only (the custom-target rewrite R2 is specified for the command)',
        'meson.add_dist_script() is not exercised here (it needs a VCS checkout and `meson dist\', see X12); run_command(), '
        'add_postconf_script() and add_install_script() arguments are strings only (no files / targets)',
        "a '|' inside a path of a build line is C04's finding and is not judged here (ninja_quote(.., True) is otherwise checked)",
        'response-file mode is forced with MESON_RSP_THRESHOLD=0; its level-3 validation is RspSplit vs the real gcc driver (-wrapper), not a compile',
        'static_library link_args are ignored by meson by design and are not a position',
        'strings that start with a flag CompilerArgs de-duplicates or reorders (-D -I -L -l -U -W) are not placed raw in compile/link '
        'positions (that is C13); the -D forms carry unique macro names',
        'option-level -D forms skip macro bodies the preprocessor itself rejects (## at either end, /*), because the compiler sanity '
        'check would fail before anything is generated',
        'a configure-time refusal is judged a violation only for projects that differ from an accepted baseline by their argument strings',
        "environment values: names are plain identifiers (C03V...); a 'NAME=VALUE' text always contains an `=' and a non-empty "
        'NAME (the validator refuses others); one list / dictionary never mentions a name twice (the manual does not say whether a '
        'repeated name replaces or accumulates under method: append/prepend)',
        "meson.add_devenv() is given a list of 'NAME=VALUE' only with one element: its positional arguments are flattened, a longer "
        "list is refused ('takes exactly 1 arguments') although the manual lists array[str] - reported, not judged here",
        'the ambient environment defines only non-empty values (the manual describes append/prepend for a variable that has a value '
        'or is not defined, not for an empty one); env.unset() and add_test_setup(env:) are not generated',
    ]


def judge_cases(chk: Check, cases: T.List[T.Dict[str, T.Any]], index: T.Dict[str, T.Dict[str, T.Any]],
                specs: T.Dict[str, T.Dict[str, T.Any]]) -> None:
    before = len(chk.violations)
    judge(chk, cases, index, 'level2')
    # attach the project to new replay files
    for sig, path in chk.violations[before:]:
        try:
            data = json.loads(Path(path).read_text())
            pid = data['detail'].get('project')
            if pid in specs:
                data['detail']['project_spec'] = specs[pid]
                Path(path).write_text(json.dumps(data, indent=1, default=str))
        except Exception:
            continue


def replay(chk: Check, data: T.Dict[str, T.Any]) -> None:
    det = data['detail']
    with scratch('c03-replay-') as top:
        tools = Tools.build(top / 'tools')
        if 'project_spec' in det:
            spec = det['project_spec']
            # the dumper lives at a new path: rewrite it
            old = spec['tool']
            blob = json.dumps(spec).replace(old, str(tools.dump))
            spec = json.loads(blob)
            out = _worker_project((spec, str(top / 'proj'), str(tools.root), True))
            if out.get('machinery'):
                raise MachineryError(out['machinery'])
            index = out['index']
            for ix in index.values():
                ix['nlpos'] = spec.get('nlpos')
                ix['error'] = out['meta'].get('error')
            want = det.get('case_id')
            cases = [c for c in out['cases'] if c['id'] == want or c['kind'] == 'refused'] or out['cases']
            judge(chk, cases, index, 'replay')
        elif 'envfn' in det:
            common.use_repo_meson()
            ef = det['envfn']
            judge(chk, [envfn_case('Ereplay', ef['f'], ef['spec'], [tuple(x) for x in ef['ambient']])], {}, 'replay')
        elif 'inputs' in det:
            cases = _worker_level1(([det['inputs']], 'replay'))
            judge(chk, cases, {}, 'replay')
        else:
            raise MachineryError('replay file has neither a project nor level-1 inputs')


if __name__ == '__main__':
    sys.exit(common.run_check(main, PROP, replay=replay))
