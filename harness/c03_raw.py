"""C03 helper: the *raw* text of a Ninja manifest, per declaration.

``harness/ninja_ref.py`` (shared, read-only for C03) decodes ``$``-escapes and expands variables
itself.  C03 needs the undecoded text, because decoding is exactly what the TLA+ specification
(``NinjaText!Expand``) has to do; this module only cuts the file into declarations:

    raw_manifest(text) -> {'globals': [(name, rawvalue)],            # top-level bindings, file order
                           'rules':   {name: [(var, rawvalue)]},
                           'edges':   {lineno: [(var, rawvalue)]},   # build blocks keyed by the line of `build`
                           'lines':   {lineno: raw build line}}

A raw value is everything after ``name =`` and the blanks that follow it, up to the end of the
logical line (a physical line ending in an odd number of ``$`` continues on the next one; the
``$``+newline stays in the raw text, the specification interprets it).
"""
from __future__ import annotations

import re
import typing as T

_BIND = re.compile(r'( *)([A-Za-z0-9_.-]+) *= *(.*)\Z', re.S)


def _logical_lines(text: str) -> T.Iterator[T.Tuple[int, str]]:
    lines = text.split('\n')
    i = 0
    while i < len(lines):
        start = i
        cur = lines[i]
        while (len(cur) - len(cur.rstrip('$'))) % 2 == 1 and i + 1 < len(lines):
            i += 1
            cur = cur + '\n' + lines[i]
        yield start + 1, cur
        i += 1


def raw_manifest(text: str) -> T.Dict[str, T.Any]:
    out: T.Dict[str, T.Any] = {'globals': [], 'rules': {}, 'edges': {}, 'lines': {}}
    block: T.Optional[T.List[T.Tuple[str, str]]] = None
    for lineno, line in _logical_lines(text):
        stripped = line.lstrip(' ')
        if stripped == '' or stripped.startswith('#'):
            continue
        indented = line.startswith(' ')
        if indented:
            m = _BIND.match(line)
            if m and block is not None:
                block.append((m.group(2), m.group(3)))
            continue
        block = None
        if line.startswith('rule '):
            block = out['rules'].setdefault(line[5:].strip(), [])
        elif line.startswith('build '):
            block = out['edges'].setdefault(lineno, [])
            out['lines'][lineno] = line
        elif line.startswith(('default ', 'pool ', 'include ', 'subninja ')):
            if line.startswith('pool '):
                block = []
        else:
            m = _BIND.match(line)
            if m:
                out['globals'].append((m.group(2), m.group(3)))
    return out
