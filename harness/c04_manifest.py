"""C04 - The generated Ninja manifest is well-formed and closed.

1. TLC model-checks ``specs/ninja/BuildGraph_MC`` (every manifest of <= NE edges over a small path alphabet,
   every schedule of the Run(e) state machine: confluence of the greedy fixpoint, "every deadlocked state has
   all edges built" <=> Closed /\\ Acyclic, counting form of UniqueProducer = pairwise form) and
   ``specs/ninja/ProjectModel_MC`` (the bounded family of abstract projects: collision rule coherent with the
   model's own graph, expectations reachable, no stuck schedule).
2. (A) abstract projects of that family (exported by the TLC run, with expectations) are written by ``projgen``,
   configured by the real ``meson setup`` (stub NINJA), build.ninja is read by the independent reader
   ``ninja_ref`` and ``TraceBuildGraph`` (TLC) judges: collision <=> rejected at configure time, Lexical,
   RulesDefined, PoolsDefined, UniqueProducer (explicit and implicit outputs), Closed, Acyclic (greedy run
   builds every edge), DefaultsKnown, target outputs produced, reachability from all / meson-test-prereq /
   meson-benchmark-prereq.  (A') the small graphs exported by BuildGraph_MC are pushed through the real
   manifest writer (NinjaBuild / NinjaBuildElement): a graph with a doubly produced path must be refused,
   any other graph must come back unchanged through ninja_ref.
   (A'') ``specs/ninja/RuleFlavours_MC`` (rules in two flavours, plain `R` and response-file `R_RSP`; every queue of
   <= 3 statements of three rule kinds under every threshold: the flavours the writer's counters select are exactly
   the names the statements use, none may be left out, response-file variables sit exactly on `_RSP` statements);
   its (queue, threshold) family goes through the real writer under ``MESON_RSP_THRESHOLD`` (``c04_rsp``).
3. (B) the same trace spec on seeded random larger projects (odd names, subprojects, generators, unity,
   flat layout) and on the projects of ``test cases/common`` that configure in this sandbox (obligations for
   `all` / test prerequisites taken from the introspection files).  A part of the random projects is configured
   again with ``MESON_RSP_THRESHOLD`` placed inside the range of command-line lengths of one rule kind (compile,
   link, static link) so that the manifest mixes both flavours of it; one project mixes them under the built-in
   threshold (very long c_args / link_args / object lists).  Laws: RulesDefined, RspBound, RspUsed, FlavourBinds,
   FlavourChoice (band around the threshold).
"""
from __future__ import annotations

import io
import json
import os
import random
import sys
import threading
import typing as T
from concurrent.futures import ProcessPoolExecutor

from . import backend_views as bv
from . import c04_rsp, common, ninja_ref, projgen
from .common import Check, MachineryError, SPECS, run_tlc

PROP = 'C04'


# ---------------------------------------------------------------------------
# model checking


def model_check(chk: Check, quick: bool) -> T.Tuple[T.Dict[str, T.Any], T.List[T.Dict[str, T.Any]]]:
    out: T.Dict[str, T.Any] = {}
    err: T.List[BaseException] = []

    def graphs() -> None:
        try:
            cfg = (SPECS / 'ninja' / 'BuildGraph_MC.cfg').read_text()
            res = run_tlc(SPECS / 'ninja', 'BuildGraph_MC', cfg_text=cfg, collect=['graphs.json'], timeout=1500,
                          workers=8, allow_violation=False)
            out['graphs'] = res
            if not quick:
                cfg3 = cfg.replace('NE = 2', 'NE = 3').replace('MaxIns = 2', 'MaxIns = 1').replace('POSTCONDITION EmitFamily\n', '')
                out['graphs3'] = run_tlc(SPECS / 'ninja', 'BuildGraph_MC', cfg_text=cfg3, timeout=3000, workers=8,
                                         allow_violation=False)
        except BaseException as e:  # re-raised in the main thread
            err.append(e)

    def family() -> None:
        try:
            cfg = (SPECS / 'ninja' / 'ProjectModel_MC.cfg').read_text()
            if quick:
                cfg = cfg.replace('Deflibs = {"shared", "both", "static"}', 'Deflibs = {"shared", "both"}')
                cfg = cfg.replace('LocSet = "all"', 'LocSet = "small"')
            else:
                cfg = cfg.replace('Behavioural = "some"', 'Behavioural = "mirror"')
            out['family'] = run_tlc(SPECS / 'ninja', 'ProjectModel_MC', cfg_text=cfg, collect=['family.json'], timeout=3000,
                                    workers=8, allow_violation=False)
        except BaseException as e:
            err.append(e)

    def flavours() -> None:
        try:
            cfg = (SPECS / 'ninja' / 'RuleFlavours_MC.cfg').read_text()
            out['flavours'] = run_tlc(SPECS / 'ninja', 'RuleFlavours_MC', cfg_text=cfg, collect=['rsp_family.json'],
                                      timeout=1500, workers=4, allow_violation=False)
        except BaseException as e:
            err.append(e)

    th = [threading.Thread(target=graphs), threading.Thread(target=family), threading.Thread(target=flavours)]
    for t in th:
        t.start()
    for t in th:
        t.join()
    if err:
        raise err[0]
    chk.add_tlc('BuildGraph_MC[NE=2,MaxIns=2]', out['graphs'])
    if 'graphs3' in out:
        chk.add_tlc('BuildGraph_MC[NE=3,MaxIns=1]', out['graphs3'])
    chk.add_tlc('ProjectModel_MC', out['family'])
    chk.add_tlc('RuleFlavours_MC[MaxStmts=3,MaxLen=2]', out['flavours'])
    fam = json.loads(out['family'].collected['family.json'])
    fam['rsp'] = json.loads(out['flavours'].collected['rsp_family.json'])
    graphs_ = json.loads(out['graphs'].collected['graphs.json'])
    return fam, graphs_


def model_check_parts(chk: Check) -> T.List[T.Dict[str, T.Any]]:
    """The conditional parts (small model, run first: its configurations parameterise the (B) jobs)."""
    res = run_tlc(SPECS / 'ninja', 'ManifestParts_MC', collect=['parts_family.json'], timeout=1500, workers=4,
                  allow_violation=False)
    chk.add_tlc('ManifestParts_MC[MaxLinks=2]', res)
    fam = json.loads(res.collected['parts_family.json'])
    for c in fam:
        for k in ('tools', 'dotfiles', 'linkers', 'compilers'):
            c[k] = list(c[k]) if c[k] else []
    return fam


def pick_parts(fam: T.List[T.Dict[str, T.Any]], rnd: random.Random, dotfiles: T.Sequence[str], n: int) -> T.List[T.Dict[str, T.Any]]:
    """n configurations realisable here (gcc dependency style) for a source tree with the given dot files; the first
    has a link pool, the second coverage cleaners, and tools are preferred whose dot file is there."""
    ok = [c for c in fam if c['depstyle'] == 'gcc' and sorted(c['dotfiles']) == sorted(dotfiles)]
    rnd.shuffle(ok)
    picks: T.List[T.Dict[str, T.Any]] = []
    wants = [lambda c: c['max_links'] > 0 and c['tools'], lambda c: c['coverage'] and len(c['tools']) >= 2,
             lambda c: c['max_links'] > 0 and c['coverage']]
    for k in range(n):
        want = wants[k % len(wants)]
        cand = [c for c in ok if want(c) and c not in picks] or [c for c in ok if c not in picks]
        if cand:
            picks.append(cand[0])
    return picks


# ---------------------------------------------------------------------------
# (A') writer-level binding


def _writer_worker(args: T.Tuple[int, T.List[T.Dict[str, T.Any]]]) -> T.List[T.Dict[str, T.Any]]:
    base, graphs = args
    common.use_repo_meson()
    from mesonbuild.backend import ninjabackend as nb
    from mesonbuild.mesonlib import MesonException
    out = []
    for k, g in enumerate(graphs):
        all_outputs: T.Set[str] = set()
        build = nb.NinjaBuild()
        build.add_rule(nb.NinjaRule('R', ['tool', '$in', '$out'], [], 'running R'))
        configured = True
        text = ''
        try:
            for e in g['edges']:
                el = nb.NinjaBuildElement(all_outputs, list(e['outs']), e['rule'], list(e['ins']),
                                          implicit_outs=list(e['iouts']))
                for d in e['imp']:
                    el.add_dep(d)
                for d in e['ord']:
                    el.add_orderdep(d)
                build.add_build(el)
            buf = io.StringIO()
            build.write(buf)
            text = buf.getvalue()
        except MesonException:
            configured = False
        M = bv.EMPTY_M()
        if configured:
            M = ninja_ref.parse_text(text).to_json()
        out.append({'id': f'W{base + k}', 'kind': 'writer', 'p': dict(bv.EMPTY_P), 'configured': configured, 'M': M,
                    'exists': [], 'ex_all': [], 'ex_test': [], 'ex_bench': [], 'intended': g, 'info': {'text': text[-600:]}})
    return out


# ---------------------------------------------------------------------------
# signatures


def short_project(p: T.Dict[str, T.Any]) -> str:
    ts = ';'.join(f"{t['kind']}:{t['name']}@{projgen.location(t) or '.'}" + (('>' + ','.join(t['outs'])) if t['outs'] else '')
                  for t in p['targets'])
    return f"{p['layout']}/{p['deflib']}[{ts}]"


def signature(case: T.Dict[str, T.Any], v: T.Dict[str, T.Any]) -> str:
    clause = v['clause']
    kind = case.get('kind')
    if kind == 'writer':
        if clause == 'WriterAcceptedDuplicate':
            return f"{clause}:{v['detail'][0]}"
        return f"{clause}@{json.dumps(case['intended']['edges'], sort_keys=True)[:300]}"
    if kind == 'rspwriter':
        # normalised cause: the situation of the queue (are both flavours of a kind in use) and the flavour(s) named
        situation = 'mixed' if case['intended'].get('mixed') else 'unmixed'
        flav = '+'.join(sorted({'rsp-flavour' if d.endswith('_RSP') else 'plain-flavour' for d in v['detail']}))
        return f"{clause}@rspwriter:{situation}-queue:{flav}"
    if kind == 'corpus':
        return f"{clause}@corpus:{case['info'].get('name')}:{'|'.join(sorted(v['detail'])[:3])[:200]}"
    tag = case['info'].get('tag', '')
    if tag:
        return f'{clause}@{tag}'
    if clause == 'Closed' and v['detail']:
        # normalised cause: every dangling path is the bare name of a run target that lives in a subproject
        sp_runs = {t['name'] for t in case['p']['targets'] if t['kind'] in ('run', 'alias') and t['sp']}
        if all(q in sp_runs for q in v['detail']):
            return 'Closed:bare-name-of-subproject-run-target-as-input'
    opts = ''.join(sorted(case['info'].get('args') or case['info'].get('extra_args', [])))
    if case['info'].get('parts_in'):
        opts += ';tools=' + '+'.join(case['parts']['tools']) + ';dotfiles=' + '+'.join(case['parts']['dotfiles'])
    if case['info'].get('threshold', -1) >= 0:
        opts += f";MESON_RSP_THRESHOLD={case['info']['threshold']}"
    return f"{clause}@{short_project(case['p'])}{opts}:{'|'.join(sorted(v['detail'])[:3])[:200]}"


# ---------------------------------------------------------------------------


def _tag(job: T.Dict[str, T.Any], case: T.Dict[str, T.Any]) -> T.Dict[str, T.Any]:
    for k in ('tag', 'name', 'family'):
        if k in job:
            case['info'][k] = job[k]
    if job.get('p') is not None:
        case['info']['p_full'] = job['p']
    case['info']['extra_args'] = list(job.get('extra_args', []))
    return case


def _run_job(job: T.Dict[str, T.Any]) -> T.Dict[str, T.Any]:
    case = _tag(job, bv.run_case(job))
    # configured under the built-in response-file threshold, with the gcc / ar toolchain of the sandbox
    case['rsp'] = c04_rsp.rsp_field(None)
    # conditional parts: the options are those on the command line (a corpus project may set its own defaults: not
    # known), no tools were placed (those of the sandbox itself count), dot files only where we wrote the tree
    corpus = job['kind'] == 'corpus'
    case['parts'] = c04_rsp.parts_field(job.get('extra_args', []), None if corpus else c04_rsp.system_tools(),
                                        None if corpus else [], options_known=not corpus)
    return case


def _run_sweep(job: T.Dict[str, T.Any]) -> T.List[T.Dict[str, T.Any]]:
    """One project under the built-in threshold and under thresholds inside its own range of command lengths."""
    cases = c04_rsp.run_sweep(job)
    for c in cases:
        _tag(job, c)
        if job.get('rsp_default'):
            c['info']['rsp_default'] = job['rsp_default']
    return cases


def pick_family(fam: T.Dict[str, T.Any], rnd: random.Random, n: int, exhaustive: bool,
                exhaustive_f5: bool = True) -> T.List[T.Dict[str, T.Any]]:
    """Seeded sample of the exported family: half of it projects the rule book says must be rejected."""
    f3 = [dict(p, family='F3') for p in fam['f3']] + [dict(p, family='F4') for p in fam['f4']]
    # F5 (unity chunk boundaries): all of it in the thorough tier, the mirror-layout half in the quick tier
    f3 += [dict(p, family='F5') for p in fam['f5'] if exhaustive_f5 or p['layout'] == 'mirror']
    allp = [dict(p, family='F1') for p in fam['f1']] + [dict(p, family='F2') for p in fam['f2']]
    if exhaustive or n >= len(allp):
        return allp + f3
    coll = [p for p in allp if p['x']['collides']]
    f1ok = [p for p in allp if not p['x']['collides'] and p['family'] == 'F1']
    f2 = [p for p in allp if p['family'] == 'F2']
    f2t = [p for p in f2 if p['tests']]
    picks = rnd.sample(coll, min(len(coll), n // 4)) + rnd.sample(f1ok, min(len(f1ok), n // 4)) \
        + rnd.sample(f2t, min(len(f2t), n // 4))
    chosen = {id(p) for p in picks}
    others = [p for p in f2 if id(p) not in chosen]
    picks += rnd.sample(others, min(len(others), max(0, n - len(picks))))
    return picks + f3


def pipe_name_project() -> T.Dict[str, T.Any]:
    """Dedicated probe: a target name containing '|' (accepted by meson, not representable in a Ninja path)."""
    return projgen.normalize({'name': 'pipe', 'layout': 'mirror', 'deflib': 'shared', 'targets': [
        {'kind': 'exe', 'name': projgen.UNREPRESENTABLE_NAMES[0], 'srcs': ['m.c']}]})


def odd_names_project(layout: str) -> T.Dict[str, T.Any]:
    """Every odd-but-legal name once, as target name and as custom target output (escaping of paths)."""
    ts: T.List[T.Dict[str, T.Any]] = []
    kinds = ['exe', 'static', 'custom', 'shared', 'run', 'custom']
    names = list(projgen.ODD_NAMES)
    half = len(names) // 2
    for i, name in enumerate(names, 1):
        kind = kinds[i % len(kinds)]
        t: T.Dict[str, T.Any] = {'kind': kind, 'name': name, 'subdir': '' if i <= half else 'o dd'}
        if kind in projgen.BUILD_KINDS:
            t['srcs'] = [f't{i}.c']
        if kind == 'custom':
            t['outs'] = [name + '.out', f'second{i}.txt']
            t['bbd'] = 'true'
        ts.append(t)
    return projgen.normalize({'name': 'odd', 'layout': layout, 'deflib': 'shared', 'targets': ts})


def shared_genlist_project(layout: str) -> T.Dict[str, T.Any]:
    """ONE generator.process() result consumed by several targets: build target then custom target, custom target
    then build target, two custom targets (every consumer needs its own copy of the generator statements)."""
    ts = [
        {'kind': 'exe', 'name': 'useA', 'srcs': ['m1.c'], 'glist': [1]},
        {'kind': 'custom', 'name': 'packA', 'outs': ['packA.txt'], 'glist': [1], 'bbd': 'true'},
        {'kind': 'custom', 'name': 'packB', 'outs': ['packB.txt'], 'glist': [2], 'bbd': 'true', 'subdir': 'sub'},
        {'kind': 'static', 'name': 'useB', 'srcs': ['m4.c'], 'glist': [2], 'subdir': 'sub'},
        {'kind': 'custom', 'name': 'packC', 'outs': ['packC.txt'], 'glist': [3, 1], 'bbd': 'true'},
        {'kind': 'custom', 'name': 'packD', 'outs': ['packD.txt', 'packD2.txt'], 'glist': [3]},
    ]
    return projgen.normalize({'name': 'shgen', 'layout': layout, 'deflib': 'shared', 'targets': ts,
                              'genlists': [{'files': ['a.in', 'b.in']}, {'files': ['c.in']}, {'files': ['d.in']}]})


# one `meson setup` of a generated project takes ~3 s on an idle box; the limit only guards against a hang (a shared,
# heavily loaded box has needed minutes)
PROJ_TIMEOUT = 1500

# base options that add statements / targets to the manifest
BASE_OPTION_SETS: T.List[T.List[str]] = [[], [], ['-Db_coverage=true'], ['-Db_lto=true'], ['-Db_pch=false'],
                                        ['-Db_coverage=true', '-Db_lto=true']]


def main(chk: Check) -> None:
    quick = chk.tier == 'quick'
    rnd = random.Random(chk.seed * 1000003 + 4)
    n_family = 44 if quick else 1400
    n_random = 24 if quick else 400
    n_corpus = 30 if quick else 10000
    n_writer = 10000 if quick else 10 ** 9
    n_sweep = 6 if quick else 80            # random projects configured again under thresholds inside their own range
    n_thresholds = 2 if quick else 3
    n_rspwriter = 1200 if quick else 10 ** 9   # non-mixed (queue, threshold) pairs; the mixed ones always all
    # the built-in threshold is part of the configured space: never inherit one from the caller
    os.environ.pop('MESON_RSP_THRESHOLD', None)
    chk.rule = ('A: abstract two-target projects of the TLC family (seeded sample, a quarter each: colliding, non-colliding '
                'same-name, with tests, any), A\': every graph of <=2 edges through the real manifest writer, '
                'A\'\': every queue of <=3 statements x threshold of RuleFlavours_MC through the real writer, '
                'B: seeded random projects of 3-14 targets (some of them again under response-file thresholds inside '
                'their own range of command lengths) and the projects of test cases/common. Non-trivial = a '
                'configured manifest with >= 12 edges, or a project the rule book says must be rejected, or a writer graph '
                'with a duplicated path (distinct by abstract project / graph).')
    import time
    t0 = time.time()
    stages: T.Dict[str, float] = {}
    # (B) jobs do not depend on the TLC output: they are configured while the model checking runs
    bjobs: T.List[T.Dict[str, T.Any]] = []
    sjobs: T.List[T.Dict[str, T.Any]] = []
    for k in range(n_random):
        r2 = random.Random(chk.seed * 7919 + k)
        p = projgen.random_project(r2, n_targets=r2.randint(3, 14), installs=False, options=False, custom_inputs=True,
                                   alias_runs=True)
        job = {'id': f'B{k}', 'kind': 'proj', 'p': p, 'extra_args': r2.choice(BASE_OPTION_SETS), 'timeout': PROJ_TIMEOUT}
        if k < n_sweep:
            dots = r2.choice([[], ['clang-format'], ['clang-tidy'], ['clang-format', 'clang-tidy']])
            sjobs.append(dict(job, n_thresholds=n_thresholds, rot=k + chk.seed, dotfiles=dots, parts_rnd=r2))
        else:
            bjobs.append(job)
    bjobs.append({'id': 'P0', 'kind': 'proj', 'p': pipe_name_project(), 'tag': 'target-name-with-pipe', 'timeout': PROJ_TIMEOUT})
    bjobs.append({'id': 'O0', 'kind': 'proj', 'p': odd_names_project('mirror'), 'extra_args': ['-Db_coverage=true'], 'timeout': PROJ_TIMEOUT})
    bjobs.append({'id': 'O1', 'kind': 'proj', 'p': odd_names_project('flat'), 'timeout': PROJ_TIMEOUT})
    bjobs.append({'id': 'G0', 'kind': 'proj', 'p': shared_genlist_project('mirror'), 'timeout': PROJ_TIMEOUT})
    bjobs.append({'id': 'G1', 'kind': 'proj', 'p': shared_genlist_project('flat'), 'extra_args': ['-Db_coverage=true'], 'timeout': PROJ_TIMEOUT})
    for k, layout in enumerate(['mirror'] if quick else ['mirror', 'flat']):
        p, files = c04_rsp.rsp_default_project(layout)
        sjobs.append({'id': f'D{k}', 'kind': 'proj', 'p': p, 'files': files, 'rsp_default': layout, 'timeout': PROJ_TIMEOUT,
                      'n_thresholds': 0 if quick else 3, 'rot': k})
    dirs = bv.corpus_dirs()
    if len(dirs) > n_corpus:
        dirs = sorted(rnd.sample(dirs, n_corpus))
    for dd in dirs:
        bjobs.append({'id': 'C:' + dd.name, 'kind': 'corpus', 'p': None, 'srcdir': str(dd), 'name': dd.name, 'timeout': 240})

    cases: T.List[T.Dict[str, T.Any]] = []
    with ProcessPoolExecutor(max_workers=common.NCPU) as ex:
        bfut = [ex.submit(_run_job, j) for j in bjobs]
        # the small model of the conditional parts runs first: its configurations parameterise the sweep jobs
        parts_fam = model_check_parts(chk)
        stages['model_check_parts'] = round(time.time() - t0, 1)
        for j in sjobs:
            if 'parts_rnd' in j:
                j['parts_cfgs'] = pick_parts(parts_fam, j.pop('parts_rnd'), j['dotfiles'], n_thresholds)
        sfut = [ex.submit(_run_sweep, j) for j in sjobs]
        fam, graphs = model_check(chk, quick)
        stages['model_check'] = round(time.time() - t0 - stages['model_check_parts'], 1)
        chk.extra['family_sizes'] = {'F1': len(fam['f1']), 'F2': len(fam['f2']), 'F3': len(fam['f3']), 'F4': len(fam['f4']), 'F5': len(fam['f5']),
                                     'writer_graphs': len(graphs)}
        if n_writer < len(graphs):
            graphs = rnd.sample(graphs, n_writer)
        jobs: T.List[T.Dict[str, T.Any]] = []
        for k, p in enumerate(pick_family(fam, rnd, n_family, False, not quick)):
            x = p.pop('x')
            family = p.pop('family')
            projgen.normalize(p)
            # the expectations of F1-F4 do not depend on unity: vary it on the real run (F5 fixes it itself)
            if family != 'F5':
                p['unity'] = rnd.choice(['off', 'off', 'on'])
            jobs.append({'id': f'A{k}', 'kind': 'proj', 'p': p, 'family': family, 'expect': x,
                         'extra_args': rnd.choice(BASE_OPTION_SETS), 'timeout': PROJ_TIMEOUT})
        rfam = [f for f in fam['rsp'] if f['mixed']]
        rest = [f for f in fam['rsp'] if not f['mixed']]
        rfam += rest if n_rspwriter >= len(rest) else rnd.sample(rest, n_rspwriter)
        chk.extra['family_sizes'].update({'rsp_queues': len(fam['rsp']), 'rsp_queues_mixed': sum(1 for f in fam['rsp'] if f['mixed']),
                                          'rsp_queues_run': len(rfam)})
        rfut = ex.submit(c04_rsp.writer_cases, rfam)
        wjobs = [(lo, graphs[lo:lo + 1500]) for lo in range(0, len(graphs), 1500)]
        wfut = [ex.submit(_writer_worker, j) for j in wjobs]
        for case in ex.map(_run_job, jobs, chunksize=1):
            cases.append(case)
        for f in bfut:
            cases.append(f.result())
        sweep_ids: T.Set[str] = set()
        for f in sfut:
            for c in f.result():
                cases.append(c)
                sweep_ids.add(c['id'])
        wcases: T.List[T.Dict[str, T.Any]] = []
        for f in wfut:
            wcases.extend(f.result())
        rcases = rfut.result()

    stages['configure+writer'] = round(time.time() - t0 - stages['model_check'] - stages['model_check_parts'], 1)
    # bookkeeping
    skipped = [c['info'].get('name') for c in cases if c['kind'] == 'corpus' and not c['configured']]
    done_cases = [c for c in cases if not (c['kind'] == 'corpus' and not c['configured'])]
    chk.extra['corpus_configured'] = sum(1 for c in cases if c['kind'] == 'corpus' and c['configured'])
    chk.extra['corpus_skipped_not_configurable_here'] = len(skipped)
    chk.extra['rejected_at_configure'] = sum(1 for c in done_cases if not c['configured'])
    chk.extra['edges_total'] = sum(c['info'].get('edges', 0) for c in done_cases)
    for c in done_cases:
        if c['info'].get('crashed'):
            raise MachineryError(f"meson setup crashed on {c['id']}: {c['info'].get('error')}")
        if c['info'].get('edges', 0) >= 12 or not c['configured']:
            chk.nontriv(c['id'] if c['kind'] == 'corpus' else json.dumps(c['p'], sort_keys=True))
    for c in wcases:
        if not c['configured']:
            chk.nontriv(json.dumps(c['intended']['edges'], sort_keys=True))
    # coverage of the two-flavour class: manifests in which both flavours of one rule kind are in use
    mixed_proj = [c for c in done_cases if c['info'].get('mixed')]
    for c in mixed_proj:
        chk.nontriv(json.dumps([c['p'], c['info'].get('threshold')], sort_keys=True))
    for c in rcases:
        if c['info'].get('mixed'):
            chk.nontriv(json.dumps(c['intended'], sort_keys=True))
    chk.extra['rsp'] = {
        'sweep_cases': len(sweep_ids), 'project_manifests_mixing_flavours': len(mixed_proj),
        'mixed_kinds_seen': sorted({k for c in mixed_proj for k in c['info']['mixed']}),
        'mixed_under_builtin_threshold': sum(1 for c in mixed_proj if c['info'].get('threshold', -1) < 0),
        'writer_queues': len(rcases), 'writer_queues_mixing_flavours': sum(1 for c in rcases if c['info'].get('mixed')),
    }
    pc = [c['parts'] for c in done_cases if c['configured'] and c['info'].get('parts_in')]
    chk.extra['parts'] = {'configurations_run': len(pc), 'with_link_pool': sum(1 for g in pc if g['max_links'] > 0),
                          'with_coverage': sum(1 for g in pc if g['coverage']),
                          'tool_sets': sorted({'+'.join(g['tools']) for g in pc}),
                          'dotfile_sets': sorted({'+'.join(g['dotfiles']) for g in pc})}
    if not mixed_proj or not chk.extra['rsp']['mixed_under_builtin_threshold'] or not chk.extra['rsp']['writer_queues_mixing_flavours']:
        raise MachineryError('the configured space does not contain a manifest mixing both flavours of a rule '
                             f"(explicit thresholds, built-in threshold, writer level): {chk.extra['rsp']}")
    chk.evaluations += len(done_cases) + len(wcases) + len(rcases)
    for c in done_cases[:: max(1, len(done_cases) // 4)][:4]:
        chk.sample({'id': c['id'], 'project': short_project(c['p']) if c['kind'] == 'proj' else c['info'].get('name'),
                    'configured': c['configured'], 'edges': c['info'].get('edges'), 'error': c['info'].get('error', '')[:160],
                    'first_edges': c['M']['edges'][:2]}, limit=6)
    for c in wcases[:: max(1, len(wcases) // 2)][:2]:
        chk.sample({'id': c['id'], 'intended': c['intended']['edges'], 'written': c['info']['text'], 'accepted': c['configured']},
                   limit=8)

    by_id = {c['id']: c for c in done_cases + wcases + rcases}
    bad = bv.judge_cases(chk, 'TraceBuildGraph', done_cases, 'projects', chunk=300)
    bad += bv.judge_cases(chk, 'TraceBuildGraph', wcases + rcases, 'writer', chunk=25000)
    chk.traces += len(done_cases) + len(wcases) + len(rcases)
    stages['judge'] = round(time.time() - t0 - stages['model_check'] - stages['model_check_parts'] - stages['configure+writer'], 1)
    chk.extra['stage_wall_s'] = stages
    for v in bad:
        c = by_id[v['id']]
        if v['clause'] == 'SpuriousReject':
            raise MachineryError(f"meson rejected a project the generator model considers valid ({c['id']}): "
                                 f"{c['info'].get('error')} :: {json.dumps(c['p'])[:600]}")
        detail = {'verdict': v, 'kind': c['kind'], 'project': c['p'], 'info': c['info']}
        if c['kind'] in ('writer', 'rspwriter'):
            detail['intended'] = c['intended']
        if c['kind'] == 'corpus':
            detail['srcdir'] = c['info'].get('name')
        chk.violation(signature(c, v), detail)
    chk.exhaustive = False
    chk.assumptions += [
        'validity "as ninja would judge it" rests on harness/ninja_ref.py (no ninja binary in the sandbox)',
        'the abstract family has two targets (+ test); names foo/bar/clean; unity is varied on the real run only',
        'corpus projects that do not configure here with default options are skipped (not violations)',
        'corpus reachability obligations are read from intro-targets.json / intro-tests.json',
        'Exists = lexists() of non-produced inputs right after `meson setup`; depfile/dyndep edges are not modelled',
        'the writer-level binding uses NinjaBuild/NinjaBuildElement directly (implicit outputs are only emitted for MSVC '
        'debug files, unreachable with gcc)',
        'response files: rsp-capable rule kinds are those of the gcc/ar toolchain of the sandbox (c/cpp compile and link, '
        'static link); the writer compares an estimate of the command line with the threshold, so FlavourChoice is judged '
        'with a band (threshold -/+ 64+T/8 bytes; built-in threshold: plain below 4 KiB, response file from 32 KiB on); '
        'gcc-syntax response files only (MSVC / TASKING / NASM quoting styles are not reachable here)',
        'conditional parts: tools are empty executables placed in front of PATH (meson only looks them up at configure time); '
        'the msvc dependency style of ManifestParts_MC is model-checked but not realisable here; on corpus projects the '
        'option- and tool-dependent laws are not judged (their own default_options / dot files are not projected)',
    ]


def replay(chk: Check, data: T.Dict[str, T.Any]) -> None:
    det = data['detail']
    if det['kind'] == 'writer':
        cases = _writer_worker((0, [det['intended']]))
        cases[0]['id'] = det['verdict']['id']
    elif det['kind'] == 'rspwriter':
        cases = c04_rsp.writer_cases([det['intended']])
        cases[0]['id'] = det['verdict']['id']
    elif 'threshold' in det['info']:
        p = projgen.normalize(det['info'].get('p_full') or det['project'])
        job = {'id': det['verdict']['id'], 'kind': 'proj', 'p': p, 'extra_args': det['info'].get('extra_args', []),
               'thresholds': [det['info']['threshold']], 'parts_in': det['info'].get('parts_in'),
               'dotfiles': det['info'].get('dotfiles', [])}
        if det['info'].get('rsp_default'):
            job['rsp_default'] = det['info']['rsp_default']
            job['p'], job['files'] = c04_rsp.rsp_default_project(det['info']['rsp_default'])
        cases = _run_sweep(job)
    elif det['kind'] == 'corpus':
        dd = common.REPO / 'test cases' / 'common' / det['srcdir']
        cases = [_run_job({'id': det['verdict']['id'], 'kind': 'corpus', 'p': None, 'srcdir': str(dd), 'name': dd.name})]
    else:
        p = projgen.normalize(det['info'].get('p_full') or det['project'])
        job = {'id': det['verdict']['id'], 'kind': 'proj', 'p': p, 'extra_args': det['info'].get('extra_args', [])}
        if det['info'].get('tag'):
            job['tag'] = det['info']['tag']
        cases = [_run_job(job)]
    bad = bv.judge_cases(chk, 'TraceBuildGraph', cases, 'replay')
    for v in bad:
        chk.violation(signature(cases[0], v), {'verdict': v, 'kind': cases[0]['kind'], 'project': cases[0]['p'],
                                               'info': cases[0]['info'], 'intended': cases[0].get('intended'),
                                               'srcdir': cases[0]['info'].get('name')})


if __name__ == '__main__':
    sys.exit(common.run_check(main, PROP, replay=replay))
