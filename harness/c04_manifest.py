"""C04 - The generated Ninja manifest is well-formed and closed.

1. TLC model-checks ``specs/ninja/BuildGraph_MC`` (every manifest of <= NE edges over a small path alphabet,
   every schedule of the Run(e) state machine: confluence of the greedy fixpoint, "every deadlocked state has
   all edges built" <=> Closed /\\ Acyclic, counting form of UniqueProducer = pairwise form) and
   ``specs/ninja/ProjectModel_MC`` (the bounded family of abstract projects: collision rule coherent with the
   model's own graph, expectations reachable, no stuck schedule).
2. (A) abstract projects of that family (exported by the TLC run, with expectations) are written by ``projgen``,
   configured by the real ``meson setup`` (stub NINJA), build.ninja is read by the independent reader
   ``ninja_ref`` and ``TraceBuildGraph`` (TLC) judges: collision <=> rejected at configure time, Lexical,
   RulesDefined, PoolsDefined, UniqueProducer (explicit and implicit outputs), Closed, Acyclic (greedy run
   builds every edge), DefaultsKnown, target outputs produced, reachability from all / meson-test-prereq /
   meson-benchmark-prereq.  (A') the small graphs exported by BuildGraph_MC are pushed through the real
   manifest writer (NinjaBuild / NinjaBuildElement): a graph with a doubly produced path must be refused,
   any other graph must come back unchanged through ninja_ref.
3. (B) the same trace spec on seeded random larger projects (odd names, subprojects, generators, unity,
   flat layout) and on the projects of ``test cases/common`` that configure in this sandbox (obligations for
   `all` / test prerequisites taken from the introspection files).
"""
from __future__ import annotations

import io
import json
import random
import sys
import threading
import typing as T
from concurrent.futures import ProcessPoolExecutor

from . import backend_views as bv
from . import common, ninja_ref, projgen
from .common import Check, MachineryError, SPECS, run_tlc

PROP = 'C04'


# ---------------------------------------------------------------------------
# model checking


def model_check(chk: Check, quick: bool) -> T.Tuple[T.Dict[str, T.Any], T.List[T.Dict[str, T.Any]]]:
    out: T.Dict[str, T.Any] = {}
    err: T.List[BaseException] = []

    def graphs() -> None:
        try:
            cfg = (SPECS / 'ninja' / 'BuildGraph_MC.cfg').read_text()
            res = run_tlc(SPECS / 'ninja', 'BuildGraph_MC', cfg_text=cfg, collect=['graphs.json'], timeout=1500,
                          workers=8, allow_violation=False)
            out['graphs'] = res
            if not quick:
                cfg3 = cfg.replace('NE = 2', 'NE = 3').replace('MaxIns = 2', 'MaxIns = 1').replace('POSTCONDITION EmitFamily\n', '')
                out['graphs3'] = run_tlc(SPECS / 'ninja', 'BuildGraph_MC', cfg_text=cfg3, timeout=3000, workers=8,
                                         allow_violation=False)
        except BaseException as e:  # re-raised in the main thread
            err.append(e)

    def family() -> None:
        try:
            cfg = (SPECS / 'ninja' / 'ProjectModel_MC.cfg').read_text()
            if quick:
                cfg = cfg.replace('Deflibs = {"shared", "both", "static"}', 'Deflibs = {"shared", "both"}')
                cfg = cfg.replace('LocSet = "all"', 'LocSet = "small"')
            else:
                cfg = cfg.replace('Behavioural = "some"', 'Behavioural = "mirror"')
            out['family'] = run_tlc(SPECS / 'ninja', 'ProjectModel_MC', cfg_text=cfg, collect=['family.json'], timeout=3000,
                                    workers=8, allow_violation=False)
        except BaseException as e:
            err.append(e)

    th = [threading.Thread(target=graphs), threading.Thread(target=family)]
    for t in th:
        t.start()
    for t in th:
        t.join()
    if err:
        raise err[0]
    chk.add_tlc('BuildGraph_MC[NE=2,MaxIns=2]', out['graphs'])
    if 'graphs3' in out:
        chk.add_tlc('BuildGraph_MC[NE=3,MaxIns=1]', out['graphs3'])
    chk.add_tlc('ProjectModel_MC', out['family'])
    fam = json.loads(out['family'].collected['family.json'])
    graphs_ = json.loads(out['graphs'].collected['graphs.json'])
    return fam, graphs_


# ---------------------------------------------------------------------------
# (A') writer-level binding


def _writer_worker(args: T.Tuple[int, T.List[T.Dict[str, T.Any]]]) -> T.List[T.Dict[str, T.Any]]:
    base, graphs = args
    common.use_repo_meson()
    from mesonbuild.backend import ninjabackend as nb
    from mesonbuild.mesonlib import MesonException
    out = []
    for k, g in enumerate(graphs):
        all_outputs: T.Set[str] = set()
        build = nb.NinjaBuild()
        build.add_rule(nb.NinjaRule('R', ['tool', '$in', '$out'], [], 'running R'))
        configured = True
        text = ''
        try:
            for e in g['edges']:
                el = nb.NinjaBuildElement(all_outputs, list(e['outs']), e['rule'], list(e['ins']),
                                          implicit_outs=list(e['iouts']))
                for d in e['imp']:
                    el.add_dep(d)
                for d in e['ord']:
                    el.add_orderdep(d)
                build.add_build(el)
            buf = io.StringIO()
            build.write(buf)
            text = buf.getvalue()
        except MesonException:
            configured = False
        M = bv.EMPTY_M()
        if configured:
            M = ninja_ref.parse_text(text).to_json()
        out.append({'id': f'W{base + k}', 'kind': 'writer', 'p': dict(bv.EMPTY_P), 'configured': configured, 'M': M,
                    'exists': [], 'ex_all': [], 'ex_test': [], 'ex_bench': [], 'intended': g, 'info': {'text': text[-600:]}})
    return out


# ---------------------------------------------------------------------------
# signatures


def short_project(p: T.Dict[str, T.Any]) -> str:
    ts = ';'.join(f"{t['kind']}:{t['name']}@{projgen.location(t) or '.'}" + (('>' + ','.join(t['outs'])) if t['outs'] else '')
                  for t in p['targets'])
    return f"{p['layout']}/{p['deflib']}[{ts}]"


def signature(case: T.Dict[str, T.Any], v: T.Dict[str, T.Any]) -> str:
    clause = v['clause']
    kind = case.get('kind')
    if kind == 'writer':
        if clause == 'WriterAcceptedDuplicate':
            return f"{clause}:{v['detail'][0]}"
        return f"{clause}@{json.dumps(case['intended']['edges'], sort_keys=True)[:300]}"
    if kind == 'corpus':
        return f"{clause}@corpus:{case['info'].get('name')}:{'|'.join(sorted(v['detail'])[:3])[:200]}"
    tag = case['info'].get('tag', '')
    if tag:
        return f'{clause}@{tag}'
    if clause == 'Closed' and v['detail']:
        # normalised cause: every dangling path is the bare name of a run target that lives in a subproject
        sp_runs = {t['name'] for t in case['p']['targets'] if t['kind'] in ('run', 'alias') and t['sp']}
        if all(q in sp_runs for q in v['detail']):
            return 'Closed:bare-name-of-subproject-run-target-as-input'
    opts = ''.join(sorted(case['info'].get('extra_args', [])))
    return f"{clause}@{short_project(case['p'])}{opts}:{'|'.join(sorted(v['detail'])[:3])[:200]}"


# ---------------------------------------------------------------------------


def _tag(job: T.Dict[str, T.Any], case: T.Dict[str, T.Any]) -> T.Dict[str, T.Any]:
    for k in ('tag', 'name', 'family'):
        if k in job:
            case['info'][k] = job[k]
    if job.get('p') is not None:
        case['info']['p_full'] = job['p']
    case['info']['extra_args'] = list(job.get('extra_args', []))
    return case


def _run_job(job: T.Dict[str, T.Any]) -> T.Dict[str, T.Any]:
    return _tag(job, bv.run_case(job))


def pick_family(fam: T.Dict[str, T.Any], rnd: random.Random, n: int, exhaustive: bool,
                exhaustive_f5: bool = True) -> T.List[T.Dict[str, T.Any]]:
    """Seeded sample of the exported family: half of it projects the rule book says must be rejected."""
    f3 = [dict(p, family='F3') for p in fam['f3']] + [dict(p, family='F4') for p in fam['f4']]
    # F5 (unity chunk boundaries): all of it in the thorough tier, the mirror-layout half in the quick tier
    f3 += [dict(p, family='F5') for p in fam['f5'] if exhaustive_f5 or p['layout'] == 'mirror']
    allp = [dict(p, family='F1') for p in fam['f1']] + [dict(p, family='F2') for p in fam['f2']]
    if exhaustive or n >= len(allp):
        return allp + f3
    coll = [p for p in allp if p['x']['collides']]
    f1ok = [p for p in allp if not p['x']['collides'] and p['family'] == 'F1']
    f2 = [p for p in allp if p['family'] == 'F2']
    f2t = [p for p in f2 if p['tests']]
    picks = rnd.sample(coll, min(len(coll), n // 4)) + rnd.sample(f1ok, min(len(f1ok), n // 4)) \
        + rnd.sample(f2t, min(len(f2t), n // 4))
    chosen = {id(p) for p in picks}
    others = [p for p in f2 if id(p) not in chosen]
    picks += rnd.sample(others, min(len(others), max(0, n - len(picks))))
    return picks + f3


def pipe_name_project() -> T.Dict[str, T.Any]:
    """Dedicated probe: a target name containing '|' (accepted by meson, not representable in a Ninja path)."""
    return projgen.normalize({'name': 'pipe', 'layout': 'mirror', 'deflib': 'shared', 'targets': [
        {'kind': 'exe', 'name': projgen.UNREPRESENTABLE_NAMES[0], 'srcs': ['m.c']}]})


def odd_names_project(layout: str) -> T.Dict[str, T.Any]:
    """Every odd-but-legal name once, as target name and as custom target output (escaping of paths)."""
    ts: T.List[T.Dict[str, T.Any]] = []
    kinds = ['exe', 'static', 'custom', 'shared', 'run', 'custom']
    names = list(projgen.ODD_NAMES)
    half = len(names) // 2
    for i, name in enumerate(names, 1):
        kind = kinds[i % len(kinds)]
        t: T.Dict[str, T.Any] = {'kind': kind, 'name': name, 'subdir': '' if i <= half else 'o dd'}
        if kind in projgen.BUILD_KINDS:
            t['srcs'] = [f't{i}.c']
        if kind == 'custom':
            t['outs'] = [name + '.out', f'second{i}.txt']
            t['bbd'] = 'true'
        ts.append(t)
    return projgen.normalize({'name': 'odd', 'layout': layout, 'deflib': 'shared', 'targets': ts})


def shared_genlist_project(layout: str) -> T.Dict[str, T.Any]:
    """ONE generator.process() result consumed by several targets: build target then custom target, custom target
    then build target, two custom targets (every consumer needs its own copy of the generator statements)."""
    ts = [
        {'kind': 'exe', 'name': 'useA', 'srcs': ['m1.c'], 'glist': [1]},
        {'kind': 'custom', 'name': 'packA', 'outs': ['packA.txt'], 'glist': [1], 'bbd': 'true'},
        {'kind': 'custom', 'name': 'packB', 'outs': ['packB.txt'], 'glist': [2], 'bbd': 'true', 'subdir': 'sub'},
        {'kind': 'static', 'name': 'useB', 'srcs': ['m4.c'], 'glist': [2], 'subdir': 'sub'},
        {'kind': 'custom', 'name': 'packC', 'outs': ['packC.txt'], 'glist': [3, 1], 'bbd': 'true'},
        {'kind': 'custom', 'name': 'packD', 'outs': ['packD.txt', 'packD2.txt'], 'glist': [3]},
    ]
    return projgen.normalize({'name': 'shgen', 'layout': layout, 'deflib': 'shared', 'targets': ts,
                              'genlists': [{'files': ['a.in', 'b.in']}, {'files': ['c.in']}, {'files': ['d.in']}]})


# base options that add statements / targets to the manifest
BASE_OPTION_SETS: T.List[T.List[str]] = [[], [], ['-Db_coverage=true'], ['-Db_lto=true'], ['-Db_pch=false'],
                                        ['-Db_coverage=true', '-Db_lto=true']]


def main(chk: Check) -> None:
    quick = chk.tier == 'quick'
    rnd = random.Random(chk.seed * 1000003 + 4)
    n_family = 44 if quick else 1400
    n_random = 24 if quick else 400
    n_corpus = 30 if quick else 10000
    n_writer = 10000 if quick else 10 ** 9
    chk.rule = ('A: abstract two-target projects of the TLC family (seeded sample, a quarter each: colliding, non-colliding '
                'same-name, with tests, any), A\': every graph of <=2 edges through the real manifest writer, '
                'B: seeded random projects of 3-14 targets and the projects of test cases/common. Non-trivial = a '
                'configured manifest with >= 12 edges, or a project the rule book says must be rejected, or a writer graph '
                'with a duplicated path (distinct by abstract project / graph).')
    import time
    t0 = time.time()
    stages: T.Dict[str, float] = {}
    # (B) jobs do not depend on the TLC output: they are configured while the model checking runs
    bjobs: T.List[T.Dict[str, T.Any]] = []
    for k in range(n_random):
        r2 = random.Random(chk.seed * 7919 + k)
        p = projgen.random_project(r2, n_targets=r2.randint(3, 14), installs=False, options=False, custom_inputs=True,
                                   alias_runs=True)
        bjobs.append({'id': f'B{k}', 'kind': 'proj', 'p': p, 'extra_args': r2.choice(BASE_OPTION_SETS)})
    bjobs.append({'id': 'P0', 'kind': 'proj', 'p': pipe_name_project(), 'tag': 'target-name-with-pipe'})
    bjobs.append({'id': 'O0', 'kind': 'proj', 'p': odd_names_project('mirror'), 'extra_args': ['-Db_coverage=true']})
    bjobs.append({'id': 'O1', 'kind': 'proj', 'p': odd_names_project('flat')})
    bjobs.append({'id': 'G0', 'kind': 'proj', 'p': shared_genlist_project('mirror')})
    bjobs.append({'id': 'G1', 'kind': 'proj', 'p': shared_genlist_project('flat'), 'extra_args': ['-Db_coverage=true']})
    dirs = bv.corpus_dirs()
    if len(dirs) > n_corpus:
        dirs = sorted(rnd.sample(dirs, n_corpus))
    for dd in dirs:
        bjobs.append({'id': 'C:' + dd.name, 'kind': 'corpus', 'p': None, 'srcdir': str(dd), 'name': dd.name, 'timeout': 240})

    cases: T.List[T.Dict[str, T.Any]] = []
    with ProcessPoolExecutor(max_workers=common.NCPU) as ex:
        bfut = [ex.submit(_run_job, j) for j in bjobs]
        fam, graphs = model_check(chk, quick)
        stages['model_check'] = round(time.time() - t0, 1)
        chk.extra['family_sizes'] = {'F1': len(fam['f1']), 'F2': len(fam['f2']), 'F3': len(fam['f3']), 'F4': len(fam['f4']), 'F5': len(fam['f5']),
                                     'writer_graphs': len(graphs)}
        if n_writer < len(graphs):
            graphs = rnd.sample(graphs, n_writer)
        jobs: T.List[T.Dict[str, T.Any]] = []
        for k, p in enumerate(pick_family(fam, rnd, n_family, False, not quick)):
            x = p.pop('x')
            family = p.pop('family')
            projgen.normalize(p)
            # the expectations of F1-F4 do not depend on unity: vary it on the real run (F5 fixes it itself)
            if family != 'F5':
                p['unity'] = rnd.choice(['off', 'off', 'on'])
            jobs.append({'id': f'A{k}', 'kind': 'proj', 'p': p, 'family': family, 'expect': x,
                         'extra_args': rnd.choice(BASE_OPTION_SETS)})
        wjobs = [(lo, graphs[lo:lo + 1500]) for lo in range(0, len(graphs), 1500)]
        wfut = [ex.submit(_writer_worker, j) for j in wjobs]
        for case in ex.map(_run_job, jobs, chunksize=1):
            cases.append(case)
        for f in bfut:
            cases.append(f.result())
        wcases: T.List[T.Dict[str, T.Any]] = []
        for f in wfut:
            wcases.extend(f.result())

    stages['configure+writer'] = round(time.time() - t0 - stages['model_check'], 1)
    # bookkeeping
    skipped = [c['info'].get('name') for c in cases if c['kind'] == 'corpus' and not c['configured']]
    done_cases = [c for c in cases if not (c['kind'] == 'corpus' and not c['configured'])]
    chk.extra['corpus_configured'] = sum(1 for c in cases if c['kind'] == 'corpus' and c['configured'])
    chk.extra['corpus_skipped_not_configurable_here'] = len(skipped)
    chk.extra['rejected_at_configure'] = sum(1 for c in done_cases if not c['configured'])
    chk.extra['edges_total'] = sum(c['info'].get('edges', 0) for c in done_cases)
    for c in done_cases:
        if c['info'].get('crashed'):
            raise MachineryError(f"meson setup crashed on {c['id']}: {c['info'].get('error')}")
        if c['info'].get('edges', 0) >= 12 or not c['configured']:
            chk.nontriv(c['id'] if c['kind'] == 'corpus' else json.dumps(c['p'], sort_keys=True))
    for c in wcases:
        if not c['configured']:
            chk.nontriv(json.dumps(c['intended']['edges'], sort_keys=True))
    chk.evaluations += len(done_cases) + len(wcases)
    for c in done_cases[:: max(1, len(done_cases) // 4)][:4]:
        chk.sample({'id': c['id'], 'project': short_project(c['p']) if c['kind'] == 'proj' else c['info'].get('name'),
                    'configured': c['configured'], 'edges': c['info'].get('edges'), 'error': c['info'].get('error', '')[:160],
                    'first_edges': c['M']['edges'][:2]}, limit=6)
    for c in wcases[:: max(1, len(wcases) // 2)][:2]:
        chk.sample({'id': c['id'], 'intended': c['intended']['edges'], 'written': c['info']['text'], 'accepted': c['configured']},
                   limit=8)

    by_id = {c['id']: c for c in done_cases + wcases}
    bad = bv.judge_cases(chk, 'TraceBuildGraph', done_cases, 'projects', chunk=300)
    bad += bv.judge_cases(chk, 'TraceBuildGraph', wcases, 'writer', chunk=25000)
    chk.traces += len(done_cases) + len(wcases)
    stages['judge'] = round(time.time() - t0 - stages['model_check'] - stages['configure+writer'], 1)
    chk.extra['stage_wall_s'] = stages
    for v in bad:
        c = by_id[v['id']]
        if v['clause'] == 'SpuriousReject':
            raise MachineryError(f"meson rejected a project the generator model considers valid ({c['id']}): "
                                 f"{c['info'].get('error')} :: {json.dumps(c['p'])[:600]}")
        detail = {'verdict': v, 'kind': c['kind'], 'project': c['p'], 'info': c['info']}
        if c['kind'] == 'writer':
            detail['intended'] = c['intended']
        if c['kind'] == 'corpus':
            detail['srcdir'] = c['info'].get('name')
        chk.violation(signature(c, v), detail)
    chk.exhaustive = False
    chk.assumptions += [
        'validity "as ninja would judge it" rests on harness/ninja_ref.py (no ninja binary in the sandbox)',
        'the abstract family has two targets (+ test); names foo/bar/clean; unity is varied on the real run only',
        'corpus projects that do not configure here with default options are skipped (not violations)',
        'corpus reachability obligations are read from intro-targets.json / intro-tests.json',
        'Exists = lexists() of non-produced inputs right after `meson setup`; depfile/dyndep edges are not modelled',
        'the writer-level binding uses NinjaBuild/NinjaBuildElement directly (implicit outputs are only emitted for MSVC '
        'debug files, unreachable with gcc)',
    ]


def replay(chk: Check, data: T.Dict[str, T.Any]) -> None:
    det = data['detail']
    if det['kind'] == 'writer':
        cases = _writer_worker((0, [det['intended']]))
        cases[0]['id'] = det['verdict']['id']
    elif det['kind'] == 'corpus':
        dd = common.REPO / 'test cases' / 'common' / det['srcdir']
        cases = [_run_job({'id': det['verdict']['id'], 'kind': 'corpus', 'p': None, 'srcdir': str(dd), 'name': dd.name})]
    else:
        p = projgen.normalize(det['info'].get('p_full') or det['project'])
        job = {'id': det['verdict']['id'], 'kind': 'proj', 'p': p, 'extra_args': det['info'].get('extra_args', [])}
        if det['info'].get('tag'):
            job['tag'] = det['info']['tag']
        cases = [_run_job(job)]
    bad = bv.judge_cases(chk, 'TraceBuildGraph', cases, 'replay')
    for v in bad:
        chk.violation(signature(cases[0], v), {'verdict': v, 'kind': cases[0]['kind'], 'project': cases[0]['p'],
                                               'info': cases[0]['info'], 'intended': cases[0]['intended'],
                                               'srcdir': cases[0]['info'].get('name')})


if __name__ == '__main__':
    sys.exit(common.run_check(main, PROP, replay=replay))
