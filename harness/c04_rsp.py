"""C04 helper: rules that exist in two flavours (plain `R` and response-file `R_RSP`, specs/ninja/RuleFlavours.tla).

Nothing is judged here.  Two drivers produce cases for ``TraceBuildGraph``:

* ``writer_cases(family)`` - (A'') every (queue of statements, threshold) pair exported by ``RuleFlavours_MC``
  is pushed through the real manifest writer (``NinjaBuild`` / ``NinjaRule(rspable=...)`` /
  ``NinjaBuildElement``) in a child process started with ``MESON_RSP_THRESHOLD`` set to the concrete value of the
  abstract threshold; abstract length l becomes a command line of ``UNIT*l + (a few bytes)`` (padding spread over
  the variable arguments and the inputs in different shapes), abstract threshold T becomes ``UNIT*T`` bytes.
* ``run_sweep(job)`` - (B) one abstract project is configured with the real ``meson setup`` under the default
  threshold and then again with ``MESON_RSP_THRESHOLD`` set to values chosen INSIDE the range of command-line
  lengths the first manifest shows for one rule kind (compile rule, linker rule, static linker), so that some
  statements of that kind cross the threshold and others do not.

``rsp_default_project`` is a project that mixes both flavours of the three kinds under the built-in threshold
(very long ``c_args`` / ``link_args`` / many long-named ``objects:`` next to ordinary targets).
"""
from __future__ import annotations

import json
import os
import subprocess
import sys
import typing as T

from . import backend_views as bv
from . import common, ninja_ref, projgen

UNIT = 200                      # bytes per abstract unit of command-line length
RSP_SUFFIX = '_RSP'
# rule kinds whose tool accepts response files in this sandbox (gcc / g++ drivers, GNU ar); read by the spec as data
RSPABLE_GCC = ['c_COMPILER', 'cpp_COMPILER', 'c_LINKER', 'cpp_LINKER', 'STATIC_LINKER']
# built-in threshold: mesonlib.get_rsp_threshold "we limit the command line to 32k" / "Be conservative" (half of
# it); the smallest limit the release notes talk about is cmd.exe's 8k.  Below 4 KiB a response file is not
# "needed", from 32 KiB on it is.
DEFAULT_BAND = (4096, 32768)


def band(threshold: int) -> T.Tuple[int, int]:
    """[lo, hi) around an explicit threshold: the writer compares an ESTIMATE of the command line (unquoted
    arguments) with the threshold, the manifest shows the quoted command line."""
    slack = 64 + threshold // 8
    return max(0, threshold - slack), threshold + slack


def rsp_field(threshold: T.Optional[int], rspable: T.Sequence[str] = tuple(RSPABLE_GCC)) -> T.Dict[str, T.Any]:
    lo, hi = DEFAULT_BAND if threshold is None else band(threshold)
    return {'lo': lo, 'hi': hi, 'rspable': list(rspable), 'threshold': -1 if threshold is None else threshold}


# ---------------------------------------------------------------------------
# conditional parts of the manifest (specs/ninja/ManifestParts.tla)

TOOLS = ['clang-format', 'clang-tidy', 'clang-apply-replacements', 'scan-build']
LINKERS_GCC = ['c_LINKER', 'cpp_LINKER', 'STATIC_LINKER']
COMPILERS_GCC = ['c_COMPILER', 'cpp_COMPILER']


def system_tools() -> T.List[str]:
    """Tools of the conditional targets that are installed in the sandbox itself (any versioned spelling)."""
    import glob
    found = []
    for t in TOOLS:
        for d in os.environ.get('PATH', '').split(os.pathsep):
            if d and (os.path.exists(os.path.join(d, t)) or glob.glob(os.path.join(d, t + '-[0-9]*'))
                      or glob.glob(os.path.join(d, t + '[0-9]*'))):
                found.append(t)
                break
    return found


def parts_field(args: T.Sequence[str], tools: T.Optional[T.Sequence[str]] = None,
                dotfiles: T.Optional[T.Sequence[str]] = None, options_known: bool = True) -> T.Dict[str, T.Any]:
    """The configuration of the conditional parts, from the arguments `meson setup` gets and the tools / dot files
    the driver placed (None: not controlled)."""
    max_links = 0
    coverage = False
    for a in args:
        if a.startswith('-Dbackend_max_links='):
            max_links = int(a.split('=', 1)[1])
        if a.startswith('-Db_coverage='):
            coverage = a.split('=', 1)[1] == 'true'
    known = tools is not None and dotfiles is not None and 'SCANBUILD' not in os.environ
    return {'max_links': max_links, 'coverage': coverage, 'tools': sorted(tools or []), 'dotfiles': sorted(dotfiles or []),
            'tools_known': known, 'options_known': options_known, 'linkers': list(LINKERS_GCC),
            'compilers': list(COMPILERS_GCC), 'depstyle': 'gcc'}


def base_name(rule: str) -> str:
    return rule[:-len(RSP_SUFFIX)] if rule.endswith(RSP_SUFFIX) else rule


def plain_lengths(M: T.Dict[str, T.Any], rspable: T.Sequence[str]) -> T.Dict[str, T.List[int]]:
    """Per rsp-capable rule kind: the command-line lengths of its statements (input selection only)."""
    out: T.Dict[str, T.List[int]] = {}
    for e, r in zip(M['edges'], M['edge_rsp']):
        b = base_name(e['rule'])
        if b in rspable:
            out.setdefault(b, []).append(r['cmdlen'] + r['rsplen'])
    return out


def mixed_kinds(M: T.Dict[str, T.Any]) -> T.List[str]:
    """Bookkeeping (coverage): kinds of which both flavours are used by some statement."""
    used = {e['rule'] for e in M['edges']}
    return sorted(b for b in {base_name(r) for r in used if r.endswith(RSP_SUFFIX)} if b in used)


def split_threshold(lens: T.Sequence[int]) -> T.Optional[int]:
    """A threshold strictly inside the range of lengths: the middle of the widest gap."""
    ls = sorted(set(lens))
    if len(ls) < 2:
        return None
    gap, lo = max((b - a, a) for a, b in zip(ls, ls[1:]))
    return lo + (gap + 1) // 2


# ---------------------------------------------------------------------------
# (B) projects


def _long_list(prefix: str, n: int, width: int) -> str:
    return projgen.mlist(projgen.mstr(f'{prefix}{k:04d}_' + 'x' * max(0, width - len(prefix) - 5)) for k in range(n))


def rsp_default_project(layout: str) -> T.Tuple[T.Dict[str, T.Any], T.Dict[str, str]]:
    """Ordinary targets next to targets whose compile / link / archive command lines are far beyond the built-in
    threshold, one per way a command line grows: $ARGS (c_args), $LINK_ARGS (link_args), $in (objects)."""
    objs = [f'prebuilt_{k:03d}_' + 'o' * 180 + '.o' for k in range(220)]
    files = {f'ar/{o}': '' for o in objs}
    big_objs = 'files(' + ', '.join(projgen.mstr(o) for o in objs) + ')'
    ts = [
        {'kind': 'exe', 'name': 'small', 'srcs': ['m1.c']},
        {'kind': 'exe', 'name': 'biglink', 'srcs': ['m2.c'], 'extra': {'link_args': _long_list('-Wl,--defsym=verif_pad_', 640, 64)}},
        {'kind': 'static', 'name': 'smallar', 'srcs': ['a3.c'], 'subdir': 'ar'},
        {'kind': 'static', 'name': 'bigar', 'srcs': ['a4.c'], 'subdir': 'ar', 'extra': {'objects': big_objs}},
        {'kind': 'exe', 'name': 'bigcc', 'srcs': ['m5.c', 'b5.c'], 'link': [3], 'extra': {'c_args': _long_list('-DVERIF_PAD_', 640, 64)}},
        {'kind': 'shared', 'name': 'bigso', 'srcs': ['s6.c'], 'extra': {'link_args': _long_list('-Wl,--defsym=verif_so_', 640, 64)}},
        {'kind': 'shared', 'name': 'smallso', 'srcs': ['s7.c']},
        {'kind': 'both', 'name': 'bigboth', 'srcs': ['s8.c'], 'subdir': 'sub', 'extra': {'c_args': _long_list('-DVERIF_BOTH_', 640, 64)}},
    ]
    p = projgen.normalize({'name': 'rspdef', 'layout': layout, 'deflib': 'shared', 'targets': ts})
    return p, files


def _empty_case(cid: str, p: T.Dict[str, T.Any]) -> T.Dict[str, T.Any]:
    return {'id': cid, 'kind': 'proj', 'p': bv.tlc_project(p), 'configured': False, 'M': bv.EMPTY_M(), 'exists': [],
            'ex_all': [], 'ex_test': [], 'ex_bench': [], 'intended': bv.EMPTY_M(), 'info': {}}


def run_sweep(job: T.Dict[str, T.Any]) -> T.List[T.Dict[str, T.Any]]:
    """job: {'id', 'p', 'extra_args', 'files': {path: text}, 'n_thresholds': int, 'rot': int, 'dotfiles': [..],
    'parts_cfgs': [cfg of ManifestParts_MC ...] (taken in turn by the threshold runs)} (or 'thresholds':
    [t...] with -1 = built-in, to configure under exactly these).  Executed in a worker process.  First case:
    built-in threshold; then one case per chosen threshold (rule kinds taken in rotation ``rot``)."""
    p = job['p']
    cases: T.List[T.Dict[str, T.Any]] = []
    with common.scratch('rsp-') as d:
        src = d / 'src'
        projgen.write_project(p, src)
        for rel, text in (job.get('files') or {}).items():
            f = src / rel
            f.parent.mkdir(parents=True, exist_ok=True)
            f.write_text(text)

        sys_tools = system_tools()
        dotfiles = sorted(job.get('dotfiles') or [])
        for df in dotfiles:
            (src / ('.' + df)).write_text('# placed by the harness\n')

        def configure(cid: str, threshold: T.Optional[int], parts: T.Optional[T.Dict[str, T.Any]] = None) -> T.Dict[str, T.Any]:
            case = _empty_case(cid, p)
            build = d / ('b' + str(len(cases)))
            env = {} if threshold is None else {'MESON_RSP_THRESHOLD': str(threshold)}
            args = list(job.get('extra_args', []))
            tools: T.List[str] = []
            if parts is not None:
                # the conditional parts: options on the command line, tools as executables in a directory of their own
                # in front of PATH
                if parts['max_links'] and not any(a.startswith('-Dbackend_max_links=') for a in args):
                    args.append(f"-Dbackend_max_links={parts['max_links']}")
                if parts['coverage'] and not any(a.startswith('-Db_coverage=') for a in args):
                    args.append('-Db_coverage=true')
                tools = list(parts['tools'])
                if tools:
                    tdir = d / ('tools' + str(len(cases)))
                    tdir.mkdir()
                    for t in tools:
                        (tdir / t).write_text('#!/bin/sh\nexit 0\n')
                        (tdir / t).chmod(0o755)
                    env['PATH'] = str(tdir) + os.pathsep + os.environ.get('PATH', '')
            r = projgen.setup(src, build, p, extra_args=args, env=env, timeout=job.get('timeout', 600))
            case['info'] = {'rc': r.rc, 'wall': round(r.wall, 2), 'error': '' if r.ok else r.error_text,
                            'crashed': r.crashed and not r.ok, 'threshold': -1 if threshold is None else threshold,
                            'parts_in': parts, 'dotfiles': dotfiles, 'args': args}
            case['rsp'] = rsp_field(threshold)
            case['parts'] = parts_field(args, sorted(set(tools) | set(sys_tools)), dotfiles)
            if r.ok:
                case['configured'] = True
                man, M, exists = bv.manifest_case(build)
                case['M'] = M
                case['exists'] = exists
                case['info']['edges'] = len(man.edges)
                case['info']['mixed'] = mixed_kinds(M)
            cases.append(case)
            return case

        pcfgs = list(job.get('parts_cfgs') or [])
        if job.get('thresholds') is not None:       # replay of one recorded case
            for t in job['thresholds']:
                configure(job['id'], None if t < 0 else t, job.get('parts_in'))
            return cases
        first = configure(job['id'], None)
        if not first['configured']:
            return cases
        lens = plain_lengths(first['M'], RSPABLE_GCC)
        cands = [(k, split_threshold(v)) for k, v in sorted(lens.items())]
        cands = [(k, t) for k, t in cands if t is not None]
        rot = job.get('rot', 0)
        cands = cands[rot % len(cands):] + cands[:rot % len(cands)] if cands else []
        seen: T.Set[int] = set()
        for k, t in cands:
            if len(seen) >= job.get('n_thresholds', 0):
                break
            if t in seen:
                continue
            seen.add(t)
            c = configure(f"{job['id']}@{k}>={t}", t, pcfgs[(len(seen) - 1) % len(pcfgs)] if pcfgs else None)
            c['info']['split_kind'] = k
        # configurations of the conditional parts that found no threshold run to ride on
        for j in range(len(seen), min(len(pcfgs), job.get('n_thresholds', 0))):
            configure(f"{job['id']}+parts{j}", None, pcfgs[j])
    return cases


# ---------------------------------------------------------------------------
# (A'') writer level


def writer_cases(family: T.List[T.Dict[str, T.Any]]) -> T.List[T.Dict[str, T.Any]]:
    """Every abstract (queue, threshold) pair through the real writer; one child process per threshold (the
    threshold is read from the environment when mesonbuild is imported)."""
    by_t: T.Dict[int, T.List[T.Tuple[int, T.Dict[str, T.Any]]]] = {}
    for k, f in enumerate(family):
        by_t.setdefault(int(f['T']), []).append((k, f))
    procs = []
    for t, items in sorted(by_t.items()):
        env = projgen.run_env({'MESON_RSP_THRESHOLD': str(UNIT * t), 'VERIF_REPO': str(common.REPO)})
        pr = subprocess.Popen([common.PYTHON, '-m', 'harness.c04_rsp'], cwd=str(common.VERIF), env=env,
                              stdin=subprocess.PIPE, stdout=subprocess.PIPE, stderr=subprocess.PIPE, text=True)
        procs.append((t, pr, json.dumps(items)))
    out: T.List[T.Dict[str, T.Any]] = []
    for t, pr, payload in procs:
        try:
            so, se = pr.communicate(payload, timeout=1500)
        except subprocess.TimeoutExpired as ex:
            pr.kill()
            raise common.MachineryError(f'writer child for threshold {t} timed out') from ex
        if pr.returncode != 0:
            raise common.MachineryError(f'writer child for threshold {t} failed: {se[-1500:]}')
        out.extend(json.loads(so))
    return out


def _pad_shapes(k: int, total: int) -> T.Tuple[T.List[str], T.List[str]]:
    """Spread ``total`` bytes of padding over the $ARGS variable and the input list ($in); every blank between
    two pieces counts.  Shape by case number: one long argument / many short arguments / arguments and inputs."""
    shape = k % 3
    if total == 0:
        return [], []
    if shape == 0:
        return ['x' * total], []
    s = (('y' * 24 + ' ') * (total // 25 + 1))[:total]
    if s.endswith(' '):
        s = s[:-1] + 'y'
    pieces = s.split(' ')
    if shape == 1:
        return pieces, []
    half = len(pieces) // 2
    return pieces[:half], pieces[half:]


def _child_main() -> int:
    items = json.load(sys.stdin)
    common.use_repo_meson()
    from mesonbuild.backend import ninjabackend as nb
    from mesonbuild.mesonlib import MesonException
    threshold = int(os.environ['MESON_RSP_THRESHOLD'])
    import io
    out = []
    for k, f in items:
        rspable = list(f['rspable'])
        all_outputs: T.Set[str] = set()
        build = nb.NinjaBuild()
        for kind in sorted({s['kind'] for s in f['stmts']} | set(rspable)):
            build.add_rule(nb.NinjaRule(kind, ['t'], ['$ARGS', '-o', '$out', '$in'], 'running ' + kind,
                                        rspable=kind in rspable, deps='gcc' if kind == 'A' else None,
                                        depfile='$out.d' if kind == 'A' else None, restat=kind == 'C'))
        configured = True
        text = ''
        try:
            for i, s in enumerate(f['stmts'], 1):
                args, ins = _pad_shapes(k + i, UNIT * int(s['len']))
                # fixed part: "t  -o oN " and the first input; everything else is padding
                el = nb.NinjaBuildElement(all_outputs, [f'o{i}'], s['kind'], [f'i{i}'] + ins)
                el.add_item('ARGS', args)
                build.add_build(el)
            buf = io.StringIO()
            build.write(buf)
            text = buf.getvalue()
        except MesonException as e:
            configured = False
            text = str(e)
        M = bv.EMPTY_M()
        if configured:
            M = ninja_ref.parse_text(text).to_json()
        lo = max(0, UNIT * int(f['T']) - UNIT // 2)
        out.append({'id': f'R{k}', 'kind': 'rspwriter', 'p': dict(bv.EMPTY_P), 'configured': configured, 'M': M,
                    'exists': [], 'ex_all': [], 'ex_test': [], 'ex_bench': [], 'intended': f,
                    'rsp': {'lo': lo, 'hi': max(1, UNIT * int(f['T'])), 'rspable': rspable, 'threshold': threshold},
                    'info': {'text': text[-800:], 'mixed': mixed_kinds(M) if configured else []}})
    json.dump(out, sys.stdout)
    return 0


if __name__ == '__main__':
    sys.exit(_child_main())
