"""Reference executor for a generated build.ninja (C05) - there is no ninja binary in the sandbox.

It does what the Ninja manual says a build does, and nothing more:

* a build statement may start when every explicit / implicit / order-only input that is the output of
  another statement has been built (``ready``); statements not ordered that way may run in any order and
  concurrently (``run_schedule`` takes the choice among ready statements as a parameter);
* before a command runs the directories of its outputs are created and its ``rspfile`` is written with
  ``rspfile_content``; the expanded ``command`` is run with ``/bin/sh -c`` in the build directory;
* ``phony`` statements run nothing; ``depfile`` is only read for book-keeping (cross-checked against the
  strace record), ``restat`` / ``pool`` / ``description`` do not matter for a from-scratch build.

The manifest is read by the independent reader ``ninja_ref``.  This module makes no judgement: it
*records* (per statement: reads, failed probes, writes as seen by strace; exit status; digests of outputs;
the real-time order of start/end events) and the TLA+ trace specifications decide.

Scope: utility statements of meson (test, install, dist, clean, reconfigure, regeneration of build.ninja ...)
are not part of "building the project" and are left out; ``phony`` statements without inputs are treated as
always-present paths.
"""
from __future__ import annotations

import hashlib
import os
import random
import re
import shutil
import signal
import subprocess
import threading
import time
import typing as T
from pathlib import Path

from . import ninja_ref
from .common import MachineryError

UTILITY = {'test', 'benchmark', 'install', 'dist', 'uninstall', 'clean', 'clean-ctlist', 'reconfigure', 'scan-build',
           'build.ninja', 'coverage', 'coverage-html', 'coverage-xml', 'coverage-text', 'coverage-sonarqube',
           'clean-gcda', 'clean-gcno', 'clang-format', 'clang-format-check', 'clang-tidy', 'clang-tidy-fix'}
UTILITY |= {'meson-internal__' + n for n in list(UTILITY)}

# `meson test` / `meson test --benchmark` write their logs into meson-logs/ (Unit-tests.md): the declared side files
# of the two utility statements that can be put in scope
KEEP_TESTS = ('test', 'meson-internal__test', 'benchmark', 'meson-internal__benchmark')
UTILITY_SIDE_FILES = {
    'meson-internal__test': tuple(f'meson-logs/testlog.{x}' for x in ('txt', 'json', 'junit.xml')),
    'meson-internal__benchmark': tuple(f'meson-logs/benchmarklog.{x}' for x in ('txt', 'json', 'junit.xml')),
}

TRACED = ('open,openat,openat2,creat,execve,execveat,rename,renameat,renameat2,unlink,unlinkat,link,linkat,symlink,'
          'symlinkat,chdir,stat,lstat,newfstatat,statx,access,faccessat,faccessat2,readlink,readlinkat,truncate')


class Graph:
    """The statements in scope of one configured build directory."""

    def __init__(self, build: Path, src: Path, keep: T.Collection[str] = ()):
        """`keep`: utility statements that are in scope for this project (KEEP_TESTS: `ninja test` / `ninja benchmark`
        must build what the tests execute and read before they run them)."""
        self.build = Path(build)
        self.src = Path(src)
        self.man = ninja_ref.parse_file(self.build / 'build.ninja')
        if self.man.errors:
            raise MachineryError('ninja_ref could not read build.ninja: ' + '; '.join(self.man.errors[:3]))
        self.edges: T.List[ninja_ref.Edge] = []
        always: T.Set[str] = set()
        for e in self.man.edges:
            rule = self.man.rules.get(e.rule)
            if e.rule == 'REGENERATE_BUILD' or (rule is not None and 'generator' in rule.bindings):
                continue
            if e.all_outs() and all(o in UTILITY for o in e.all_outs()) and not any(o in keep for o in e.all_outs()):
                continue
            if e.is_phony and not e.all_ins():
                always.update(e.all_outs())
                continue
            self.edges.append(e)
        self.n = len(self.edges)
        self.producer: T.Dict[str, int] = {}
        for k, e in enumerate(self.edges, 1):
            for o in e.all_outs():
                self.producer.setdefault(o, k)
        exists = []
        seen: T.Set[str] = set()
        for e in self.edges:
            for q in e.all_ins():
                if q in self.producer or q in seen:
                    continue
                seen.add(q)
                if q in always or os.path.lexists(q if os.path.isabs(q) else os.path.join(self.build, q)):
                    exists.append(q)
        self.exists = exists
        self.M = {
            'rules': sorted(self.man.rules), 'dup_rules': [], 'pools': sorted(self.man.pools),
            'edges': [{'rule': e.rule, 'ins': list(e.ins), 'imp': list(e.implicit_ins), 'ord': list(e.order_only),
                       'outs': list(e.outs), 'iouts': list(e.implicit_outs)} for e in self.edges],
            'edge_pools': ['' for _ in self.edges], 'defaults': [], 'errors': [],
        }
        # declared predecessors (by statement number, 1-based) - used by the scheduler only
        self.preds: T.List[T.Set[int]] = [set()]
        self.dangling: T.List[T.Set[str]] = [set()]
        ex = set(exists)
        for e in self.edges:
            self.preds.append({self.producer[q] for q in e.all_ins() if q in self.producer})
            self.dangling.append({q for q in e.all_ins() if q not in self.producer and q not in ex})
        self.aux: T.List[T.List[str]] = []
        for e in self.edges:
            side = []
            if not e.is_phony:
                for var in ('depfile', 'rspfile'):
                    v = e.get(var)
                    if v:
                        side.append(ninja_ref.canonicalize(v))
                for o in e.all_outs():
                    side.extend(UTILITY_SIDE_FILES.get(o, ()))
            self.aux.append(side)

    # -- helpers ----------------------------------------------------------------
    def edge(self, k: int) -> ninja_ref.Edge:
        return self.edges[k - 1]

    def ancestors(self, k: int) -> T.Set[int]:
        out: T.Set[int] = set()
        todo = list(self.preds[k])
        while todo:
            j = todo.pop()
            if j not in out:
                out.add(j)
                todo.extend(self.preds[j])
        return out

    def depth(self) -> T.List[int]:
        d = [0] * (self.n + 1)
        for _ in range(self.n):
            changed = False
            for k in range(1, self.n + 1):
                v = 1 + max((d[j] for j in self.preds[k]), default=-1)
                if v > d[k] and v <= self.n:
                    d[k] = v
                    changed = True
            if not changed:
                break
        return d

    def ready(self, k: int, done: T.Set[int]) -> bool:
        return not self.dangling[k] and self.preds[k] <= done

    def rel(self, path: str) -> T.Optional[str]:
        """Canonical build-dir-relative form of an absolute path inside the build or source tree, else None."""
        b = str(self.build)
        s = str(self.src)
        if path == b or path.startswith(b + '/') or path == s or path.startswith(s + '/'):
            return ninja_ref.canonicalize(os.path.relpath(path, b))
        return None

    def output_paths(self) -> T.List[str]:
        out = []
        for e in self.edges:
            if not e.is_phony:
                out.extend(e.all_outs())
        return out

    def digests(self, paths: T.Optional[T.Iterable[str]] = None) -> T.List[T.Dict[str, str]]:
        res = []
        for p in (self.output_paths() if paths is None else paths):
            d = digest(self.build / p)
            if d is not None:
                res.append({'p': p, 'd': d})
        return res


# outputs whose bytes legitimately differ between two runs of the same command on the same inputs: GCC
# precompiled headers embed addresses / a random checksum seed; only their presence is compared
VOLATILE_SUFFIXES = ('.gch',)


def digest(path: Path) -> T.Optional[str]:
    try:
        if path.name.endswith(VOLATILE_SUFFIXES) and path.is_file():
            return 'present'
        if path.is_symlink():
            return 'L' + hashlib.sha256(os.readlink(path).encode('utf-8', 'surrogateescape')).hexdigest()[:20]
        if path.is_file():
            return hashlib.sha256(path.read_bytes()).hexdigest()[:20]
        if path.is_dir():
            return 'D'
    except OSError:
        return None
    return None


# ---------------------------------------------------------------------------
# running one statement


class StepResult:
    def __init__(self, rc: int, out: str, wall: float):
        self.rc = rc
        self.out = out
        self.wall = wall


def command_env(tmpdir: Path) -> T.Dict[str, str]:
    e = dict(os.environ)
    e['LC_ALL'] = 'C.UTF-8'
    e['TMPDIR'] = str(tmpdir)
    e['PYTHONDONTWRITEBYTECODE'] = '1'
    e.setdefault('PYTHONHASHSEED', '0')
    for k in ('DESTDIR', 'MESON_TESTTHREADS', 'NINJA_STATUS', 'MAKEFLAGS'):
        e.pop(k, None)
    return e


def run_step(g: Graph, k: int, env: T.Dict[str, str], strace_out: T.Optional[Path] = None,
             timeout: int = 600) -> StepResult:
    """Run statement k the way ninja would.  Phony statements run nothing."""
    e = g.edge(k)
    if e.is_phony:
        return StepResult(0, '', 0.0)
    t0 = time.time()
    for o in e.all_outs():
        parent = (g.build / o).parent
        parent.mkdir(parents=True, exist_ok=True)
    rsp = e.get('rspfile')
    if rsp:
        rp = g.build / rsp
        rp.parent.mkdir(parents=True, exist_ok=True)
        rp.write_text(e.get('rspfile_content'), encoding='utf-8', errors='surrogateescape')
    argv = ['/bin/sh', '-c', e.command]
    if strace_out is not None:
        argv = ['strace', '-f', '-qq', '-y', '-e', 'trace=' + TRACED, '-e', 'signal=none', '-o', str(strace_out)] + argv
    p = subprocess.Popen(argv, cwd=g.build, env=env, stdin=subprocess.DEVNULL, stdout=subprocess.PIPE,
                         stderr=subprocess.STDOUT, start_new_session=True)
    try:
        out, _ = p.communicate(timeout=timeout)
    except subprocess.TimeoutExpired as ex:
        try:
            os.killpg(p.pid, signal.SIGKILL)
        except OSError:
            pass
        p.wait()
        raise MachineryError(f'build step timed out after {timeout}s: {e.command[:200]}') from ex
    return StepResult(p.returncode, out.decode('utf-8', 'replace')[-3000:], time.time() - t0)


# ---------------------------------------------------------------------------
# strace record -> reads / probes / writes


_LINE = re.compile(r'^(\d+)\s+(.*)$')
_CALL = re.compile(r'^(\w+)\((.*)\)\s+=\s+(-?\d+|\?)(.*)$', re.S)
_RESUMED = re.compile(r'^<\.\.\. (\w+) resumed>(.*)$', re.S)
_STR = re.compile(r'"((?:[^"\\]|\\.)*)"(\.\.\.)?')
_FDPATH = re.compile(r'^-?\d+<(.*)>$')

LOOKS = {'stat', 'lstat', 'newfstatat', 'statx', 'access', 'faccessat', 'faccessat2', 'readlink', 'readlinkat'}
ABSENT = ('ENOENT', 'ENOTDIR')


def _unescape(s: str) -> str:
    out = bytearray()
    i = 0
    while i < len(s):
        c = s[i]
        if c != '\\':
            out += c.encode('utf-8', 'surrogateescape')
            i += 1
            continue
        i += 1
        c = s[i]
        if c in '01234567':
            j = i
            while j < len(s) and j < i + 3 and s[j] in '01234567':
                j += 1
            out.append(int(s[i:j], 8) & 0xff)
            i = j
            continue
        if c == 'x':
            out.append(int(s[i + 1:i + 3], 16))
            i += 3
            continue
        out += {'n': b'\n', 't': b'\t', 'r': b'\r', 'v': b'\v', 'f': b'\f', 'e': b'\x1b'}.get(c, c.encode())
        i += 1
    return out.decode('utf-8', 'surrogateescape')


class Observed:
    def __init__(self) -> None:
        self.reads: T.Set[str] = set()
        self.probes: T.Set[str] = set()
        self.writes: T.Set[str] = set()
        self.execs: T.Set[str] = set()
        self.lines = 0


def parse_strace(text: str, g: Graph) -> Observed:
    """Project an strace record (-f -y) to reads / failed probes / writes, as canonical build-relative paths.
    Paths outside the build and source trees are dropped (system files, TMPDIR, /dev, /proc)."""
    ob = Observed()
    pending: T.Dict[str, str] = {}
    cwd: T.Dict[str, str] = {}
    b = str(g.build)

    def absolute(pid: str, dirspec: T.Optional[str], path: str) -> str:
        if os.path.isabs(path):
            return os.path.normpath(path)
        base = cwd.get(pid, b)
        if dirspec is not None and dirspec != 'AT_FDCWD':
            m = _FDPATH.match(dirspec)
            if m:
                base = m.group(1)
        return os.path.normpath(os.path.join(base, path))

    def note(kind: str, p: str) -> None:
        r = g.rel(p)
        if r is None:
            return
        getattr(ob, kind).add(r)

    for raw in text.splitlines():
        m = _LINE.match(raw)
        if not m:
            continue
        pid, rest = m.group(1), m.group(2)
        if rest.endswith('<unfinished ...>'):
            pending[pid] = rest[:-len('<unfinished ...>')].rstrip()
            continue
        mr = _RESUMED.match(rest)
        if mr:
            rest = pending.pop(pid, mr.group(1) + '(') + mr.group(2)
        mc = _CALL.match(rest)
        if not mc:
            continue
        ob.lines += 1
        name, args, ret, tail = mc.group(1), mc.group(2), mc.group(3), mc.group(4)
        ok = ret not in ('?',) and not ret.startswith('-')
        absent = any(a in tail for a in ABSENT)
        strs = [_unescape(x.group(1)) for x in _STR.finditer(args)]
        first = args.split(',', 1)[0].strip()
        at = name.endswith('at') or name in ('openat2', 'faccessat2', 'renameat2', 'statx')
        dirspec = first if at and not first.startswith('"') else None
        if name == 'chdir':
            if ok and strs:
                cwd[pid] = absolute(pid, None, strs[0])
            continue
        if not strs:
            continue
        if name in ('open', 'openat', 'openat2', 'creat'):
            path = absolute(pid, dirspec, strs[0])
            flags = args
            if 'O_DIRECTORY' in flags:
                continue
            writing = name == 'creat' or any(f in flags for f in ('O_WRONLY', 'O_RDWR', 'O_CREAT', 'O_TRUNC', 'O_APPEND'))
            real = None
            if ok:
                mf = re.match(r'^<(.*)>', tail)   # -y: the returned descriptor is annotated with the real path
                if mf:
                    real = mf.group(1)
            if writing:
                if ok:
                    note('writes', path)
                    if real:
                        note('writes', real)
                    if 'O_RDWR' in flags and 'O_TRUNC' not in flags and 'O_EXCL' not in flags:
                        note('reads', path)
                continue
            if ok:
                note('reads', path)
                if real and not real.endswith(' (deleted)'):
                    note('reads', real)
            elif absent:
                note('probes', path)
        elif name in ('execve', 'execveat'):
            path = absolute(pid, dirspec, strs[0])
            if ok:
                note('reads', path)
                note('execs', path)
            elif absent:
                note('probes', path)
        elif name in LOOKS:
            path = absolute(pid, dirspec, strs[0])
            if strs[0] == '':
                continue
            if ok:
                note('reads', path)
            elif absent:
                note('probes', path)
        elif name in ('rename', 'renameat', 'renameat2', 'link', 'linkat'):
            if ok and len(strs) >= 2:
                # second directory fd of the *at forms: take it from the argument list
                d2 = None
                if at:
                    parts = args.split(', ')
                    if len(parts) >= 3:
                        d2 = parts[2].strip()
                        if d2.startswith('"'):
                            d2 = None
                src_p = absolute(pid, dirspec, strs[0])
                dst_p = absolute(pid, d2, strs[1])
                if name.startswith('rename'):
                    note('writes', src_p)
                else:
                    note('reads', src_p)
                note('writes', dst_p)
        elif name in ('unlink', 'unlinkat', 'truncate'):
            if ok:
                note('writes', absolute(pid, dirspec, strs[0]))
        elif name in ('symlink', 'symlinkat'):
            if ok and len(strs) >= 2:
                d2 = None
                if name == 'symlinkat':
                    parts = args.rsplit(', ', 2)
                    if len(parts) == 3 and not parts[1].startswith('"'):
                        d2 = parts[1].strip()
                note('writes', absolute(pid, d2, strs[1]))
    # directories are not files of the graph
    for s in (ob.reads, ob.probes, ob.writes):
        for p in list(s):
            if p in g.producer:
                continue
            full = g.build / p
            if full.is_dir() and not full.is_symlink():
                s.discard(p)
    ob.probes -= ob.reads
    return ob


def parse_depfile(text: str) -> T.List[str]:
    """Prerequisites listed in a Makefile-syntax depfile (gcc -MD)."""
    text = text.replace('\\\n', ' ')
    deps: T.List[str] = []
    for line in text.splitlines():
        if ':' not in line:
            continue
        rhs = line.split(':', 1)[1]
        cur = ''
        i = 0
        while i < len(rhs):
            c = rhs[i]
            if c == '\\' and i + 1 < len(rhs):
                cur += rhs[i + 1]
                i += 2
                continue
            if c == '$' and rhs.startswith('$$', i):
                cur += '$'
                i += 2
                continue
            if c in ' \t':
                if cur:
                    deps.append(cur)
                cur = ''
            else:
                cur += c
            i += 1
        if cur:
            deps.append(cur)
    return deps


# ---------------------------------------------------------------------------
# build-directory snapshots (all runs of one project happen at the same absolute path, one after the other,
# because build.ninja embeds absolute paths of the source and build directories)


class Snapshot:
    """A copy of the configured (nothing built yet) build directory and the means to get back to it."""

    def __init__(self, build: Path, store: Path):
        self.build = build
        self.store = store
        shutil.copytree(build, store, symlinks=True)
        self.index = self._scan(build)

    @staticmethod
    def _scan(root: Path) -> T.Dict[str, T.Tuple[str, int, int]]:
        idx: T.Dict[str, T.Tuple[str, int, int]] = {}
        for dp, dns, fns in os.walk(root):
            for n in dns + fns:
                full = os.path.join(dp, n)
                rel = os.path.relpath(full, root)
                st = os.lstat(full)
                if os.path.islink(full):
                    idx[rel] = ('l', 0, 0)
                elif os.path.isdir(full):
                    idx[rel] = ('d', 0, 0)
                else:
                    idx[rel] = ('f', st.st_size, st.st_mtime_ns)
        return idx

    def restore(self) -> None:
        now = self._scan(self.build)
        # remove what was added (deepest first)
        for rel in sorted(now, key=lambda r: -r.count('/')):
            if rel not in self.index:
                full = self.build / rel
                if now[rel][0] == 'd':
                    shutil.rmtree(full, ignore_errors=True)
                else:
                    try:
                        os.unlink(full)
                    except FileNotFoundError:
                        pass
        for rel, sig in self.index.items():
            cur = now.get(rel)
            if cur == sig:
                continue
            srcp = self.store / rel
            dstp = self.build / rel
            if sig[0] == 'd':
                dstp.mkdir(parents=True, exist_ok=True)
                continue
            if cur is not None:
                try:
                    os.unlink(dstp)
                except OSError:
                    shutil.rmtree(dstp, ignore_errors=True)
            dstp.parent.mkdir(parents=True, exist_ok=True)
            if sig[0] == 'l':
                os.symlink(os.readlink(srcp), dstp)
            else:
                shutil.copy2(srcp, dstp)
        self.index = self._scan(self.build)


def place(base: Path, build: Path, rel: str) -> None:
    """Copy one built path from the store of the observed run into the build directory."""
    s = base / rel
    d = build / rel
    if not os.path.lexists(s):
        return
    d.parent.mkdir(parents=True, exist_ok=True)
    if s.is_symlink():
        os.symlink(os.readlink(s), d)
    elif s.is_dir():
        shutil.copytree(s, d, symlinks=True, dirs_exist_ok=True)
    else:
        shutil.copy2(s, d)


# ---------------------------------------------------------------------------
# whole-graph runs


def observed_run(g: Graph, env: T.Dict[str, str], trace_dir: Path) -> T.Dict[str, T.Any]:
    """Run every statement once, first-ready-in-declaration-order, each under strace.  A statement that
    fails is retried after the others (if it then succeeds the failure was an ordering problem and is
    reported as an event of this run; if it never succeeds the project cannot be built here at all)."""
    done: T.Set[int] = set()
    failed_once: T.Dict[int, str] = {}
    events: T.List[T.Dict[str, T.Any]] = []
    obs: T.Dict[int, Observed] = {}
    depcheck: T.List[str] = []
    remaining = list(range(1, g.n + 1))
    progress = True
    while remaining and progress:
        progress = False
        deferred: T.List[int] = []
        for k in list(remaining):
            if not g.ready(k, done):
                continue
            tf = trace_dir / f'e{k}.strace'
            before = listing(g) if not g.edge(k).is_phony else set()
            res = run_step(g, k, env, strace_out=None if g.edge(k).is_phony else tf)
            if res.rc != 0:
                if k not in failed_once:
                    events.append({'k': 'start', 'e': k, 'rc': 0})
                    events.append({'k': 'end', 'e': k, 'rc': res.rc})
                    failed_once[k] = res.out
                deferred.append(k)
                continue
            if k not in failed_once:
                events.append({'k': 'start', 'e': k, 'rc': 0})
                events.append({'k': 'end', 'e': k, 'rc': 0})
            if g.edge(k).is_phony:
                obs[k] = Observed()
            else:
                obs[k] = parse_strace(tf.read_text(encoding='utf-8', errors='surrogateescape'), g)
                if obs[k].lines == 0:
                    raise MachineryError('empty strace record for: ' + g.edge(k).command[:200])
                # a write is what is different afterwards: files created and removed again inside the step
                # (temporaries of ar / ld / the meson exe wrapper) are not writes of the step
                after = listing(g)
                obs[k].writes = {q for q in obs[k].writes if q in after or q in before}
                unseen = (after - before) - obs[k].writes - set(g.aux[k - 1])
                if unseen:
                    raise MachineryError(f'files appeared that strace did not report as written: {sorted(unseen)[:4]} '
                                         f'({g.edge(k).command[:120]})')
                df = g.edge(k).get('depfile')
                if df and (g.build / df).is_file():
                    for dep in parse_depfile((g.build / df).read_text(errors='replace')):
                        full = dep if os.path.isabs(dep) else os.path.join(g.build, dep)
                        r = g.rel(os.path.normpath(full))
                        if r is not None and r in g.producer and r not in obs[k].reads:
                            depcheck.append(f'{r} listed in {df} but not seen by strace')
            done.add(k)
            remaining.remove(k)
            progress = True
        del deferred
    never = [k for k in remaining if k in failed_once]
    return {'done': done, 'events': events, 'obs': obs, 'failed_once': failed_once, 'never': never,
            'unrun': remaining, 'depcheck': depcheck}


def listing(g: Graph) -> T.Set[str]:
    """Files and symlinks of the build and source trees, as canonical build-relative paths."""
    out: T.Set[str] = set()
    b = str(g.build)
    for root in (g.build, g.src):
        for dp, _dns, fns in os.walk(root):
            for n in fns:
                out.add(ninja_ref.canonicalize(os.path.relpath(os.path.join(dp, n), b)))
    return out


Policy = T.Callable[[T.List[int]], int]


def run_schedule(g: Graph, env: T.Dict[str, str], pick: Policy, jobs: int = 1) -> T.Dict[str, T.Any]:
    """Run the whole graph from the current (pristine) state.  `pick` chooses among the ready statements.
    Stops starting new statements after the first failure (like ninja -k1)."""
    events: T.List[T.Dict[str, T.Any]] = []
    lock = threading.Condition()
    done: T.Set[int] = set()
    running: T.Set[int] = set()
    failed: T.Dict[int, str] = {}
    pending = set(range(1, g.n + 1))
    errors: T.List[BaseException] = []

    def work(k: int) -> None:
        try:
            res = run_step(g, k, env)
        except BaseException as ex:  # re-raised by the caller
            with lock:
                errors.append(ex)
                running.discard(k)
                failed[k] = 'machinery'
                lock.notify_all()
            return
        with lock:
            events.append({'k': 'end', 'e': k, 'rc': res.rc})
            running.discard(k)
            if res.rc == 0:
                done.add(k)
            else:
                failed[k] = res.out
            lock.notify_all()

    threads: T.List[threading.Thread] = []
    with lock:
        while True:
            if failed or not pending:
                while running:
                    lock.wait()
                break
            ready = sorted(k for k in pending if g.ready(k, done))
            if ready and len(running) < jobs:
                k = pick(ready)
                pending.discard(k)
                running.add(k)
                events.append({'k': 'start', 'e': k, 'rc': 0})
                if jobs == 1:
                    lock.release()
                    try:
                        work(k)
                    finally:
                        lock.acquire()
                else:
                    th = threading.Thread(target=work, args=(k,))
                    threads.append(th)
                    th.start()
                continue
            if not running:
                break  # nothing can start: stuck
            lock.wait()
    for th in threads:
        th.join()
    if errors:
        raise errors[0]
    return {'ev': events, 'failed': failed, 'dig': g.digests() if not failed else []}


def policies(g: Graph, rnd: random.Random) -> T.List[T.Tuple[str, Policy, int]]:
    depth = g.depth()
    # height = longest chain of dependents above a statement
    height = [0] * (g.n + 1)
    for k in sorted(range(1, g.n + 1), key=lambda j: -depth[j]):
        for j in g.preds[k]:
            height[j] = max(height[j], height[k] + 1)
    return [
        # statements on which long chains depend are postponed as long as the graph allows
        ('deepest-last', lambda ready: min(ready, key=lambda k: (height[k], -k)), 1),
        ('reverse-declaration', lambda ready: max(ready), 1),
        ('random-j8', lambda ready: rnd.choice(ready), 8),
    ]

