"""Project shapes for C05 (dependency completeness of the build graph).

An abstract C05 project is plain data::

    {"opts": {"default_library": "shared"|"static"|"both", "unity": "off"|"on", "buildtype": "debug"|"release"},
     "blocks": [{"kind": <block kind>, "n": <1..>, "sub": bool, "v": <variant number>} ...]}

Every block is a self-contained group of targets whose *commands really consume* what the build
definition says they depend on (C sources ``#include`` the generated headers and call the generated
functions, the generator tool reads the files it is pointed at and folds their checksums into what it
writes, built tools are executed), so that a dependency dropped from build.ninja is observable as a read of
a file no declared ancestor produces.  The block kinds cover the mechanisms named by the property:

  hdr      custom_target producing .c + .h listed in the sources of an executable / static library
  dep      generated header in a subdirectory handed over with declare_dependency(sources:, link_with:)
  gen      generator() producing .c + .h per input (private directory of the consuming target)
  chain    custom-target chain: input: <custom target>, depends: + full_path(), target in command:, depend_files:
  tool     executable (linked against a library) used as custom_target command, generator() program and argument
  link     static -> static (link_with), static -> shared (link_whole), both_libraries, extract_objects
  script   generated linker version script: link_depends: + link_args
  ctlib    custom targets producing an object file and a static library that executables link
  run      run_target / alias_target / test(depends:) on generated data
  conf     configure_file (configuration / command) headers, custom_target with feed/capture
  subproj  subproject exporting a dependency with generated header + library
  unity    unity build (unity_size 2, several unity files per language) of a mixed C + C++ target with generated
           sources (custom_target and generator()) in each language and a generated header they include:
           per-target override (generated sources listed last / first), -Dunity=subprojects in a subproject,
           static library + executable
  privhdr  generator()-made header in library `core`, included through core.private_dir_include() by a library
           `wrap` that bundles core (link_whole direct / via declare_dependency(link_whole:) / link_with / into a
           shared wrap / two levels of link_whole) and by the executable linking wrap
  pair     wayland-scanner style proto.c / proto.h from two DIFFERENT steps, the generated .c includes the
           generated .h: source listed before / after the header, header via declare_dependency(sources:),
           generator()-produced .c including a custom_target header (both orders)

  prog     ONE thing the build produces and steps execute (v: an executable / a find_program() result that
           meson.override_find_program() maps to a built executable of the project / of a subproject / a script made
           by a custom target / index [1] of a two-output custom target), needed by one consumer statement per ROUTE:
           generator(depends:) with the path only as a string argument, generator(<program>), generator.process(
           depends:, extra_args:), generator.process(<target>), custom_target(depends:) / as argument / as the command /
           run by `sh` / as input:, run_target(depends:) / as argument / as the command
  tprog    `ninja test` / `ninja benchmark` in scope (the statements that run the tests, with meson-test-prereq): five
           routes test(depends:), test(args:), test(<program>), benchmark(depends:), benchmark(<program>), each with
           an entry of its own (kinds per variant: TPROG_TABLE), nothing built by default
  dchain   declare_dependency() three / four levels deep: generated headers and a generated source (sources:), a static
           library (link_with:), extracted objects (objects:) reach an executable / static / shared library only
           through dependencies: of dependencies:; partial_dependency(sources:, includes:) of the outermost one
  (gen v2 / chain v2: the generator() / custom_target() step writes a depfile: '@DEPFILE@', depfile:)

The second family (`overlay_random`) takes ``projgen.random_project`` projects (odd names, subprojects,
nested subdirs, both_libraries, generators) and makes their generated headers really included / their
``depends:`` really read.

Files are written by `write(p, srcdir)`; `projgen.setup` configures.
"""
from __future__ import annotations

import os
import random
import typing as T
from pathlib import Path

from . import projgen

KINDS = ('hdr', 'dep', 'gen', 'chain', 'tool', 'link', 'script', 'ctlib', 'run', 'conf', 'subproj', 'pair', 'unity', 'privhdr', 'prog', 'tprog', 'dchain')
# what a `prog` block's steps execute (variant number -> entry kind)
PROG_ENTRIES = ('exe', 'ovr', 'spovr', 'ct', 'cti')
# tprog: entry kind per route (tdep, targ, texe, bdep, bexe) and variant; every (route, kind) pair occurs, at most one
# subproject per block, and variants 0 / 1 (the quick tier's) put an overridden program behind depends:, args: and the
# test program at once (test and benchmark share the code for depends: and for the program)
TPROG_TABLE = (('ovr', 'spovr', 'ovr', 'ct', 'cti'), ('spovr', 'ovr', 'ct', 'exe', 'ovr'), ('exe', 'ct', 'spovr', 'ovr', 'exe'),
               ('ct', 'cti', 'exe', 'spovr', 'ovr'), ('cti', 'exe', 'cti', 'ovr', 'spovr'))
# rough number of build statements a block contributes (used to keep graphs explorable)
WEIGHT = {'hdr': 8, 'dep': 8, 'gen': 11, 'chain': 8, 'tool': 15, 'link': 20, 'script': 7, 'ctlib': 7, 'run': 7,
          'conf': 7, 'subproj': 7, 'pair': 7, 'unity': 16, 'privhdr': 10, 'prog': 26, 'tprog': 16, 'dchain': 15}
VARIANTS = {'hdr': 5, 'dep': 3, 'gen': 3, 'chain': 3, 'tool': 3, 'link': 2, 'script': 1, 'ctlib': 1, 'run': 1,
            'conf': 1, 'subproj': 2, 'pair': 5, 'unity': 4, 'privhdr': 5, 'prog': 5, 'tprog': 5, 'dchain': 3}

GEN_SH = r"""#!/bin/sh
# usage: gen.sh [-d DEPFILE] [-i HEADER]... [-r FILE]... [-x PROG]... INPUT OUTPUT...
#   -d DEPFILE  write a Makefile-syntax depfile: first OUTPUT: INPUT and every -r FILE
#   -i HEADER  every .c output starts with #include "HEADER"
#   -r FILE  read FILE (fails when it is missing); its checksum goes into every output
#   -x PROG  run PROG (fails when it cannot run); its output goes into every output
# .c outputs define <stem>_fn(), .h outputs define <STEM>_VALUE, .map is a linker version script, .sh a runnable script
acc=""
inc=""
dep=""
rl=""
while :; do
  case "$1" in
    -i) inc="$inc#include \"$2\"
"; shift 2;;
    -d) dep="$2"; shift 2;;
    -r) f="$2"; shift 2; s=$(cksum < "$f") || exit 3; acc="$acc r:$(basename "$f"):${s%% *}"; rl="$rl $f";;
    -x) p="$2"; shift 2; case "$p" in */*) ;; *) p="./$p";; esac; o=$("$p") || exit 4; acc="$acc x:$(basename "$p"):$o";;
    *) break;;
  esac
done
in="$1"; shift
s=$(cksum < "$in") || exit 5
acc="in:${s%% *}$acc"
if [ -n "$dep" ]; then printf '%s: %s%s\n' "$1" "$in" "$rl" > "$dep" || exit 7; fi
for o in "$@"; do
  b=$(basename "$o"); stem=${b%.*}
  id=$(printf %s "$stem" | tr -c 'A-Za-z0-9' '_')
  up=$(printf %s "$id" | tr 'a-z' 'A-Z')
  case "$o" in
    *.c|*.cpp) printf '%s/* %s */\nint %s_fn(void) { return 0; }\n' "$inc" "$acc" "$id" > "$o" || exit 6;;
    *.h) printf '/* %s */\n#define %s_VALUE 1\n' "$acc" "$up" > "$o" || exit 6;;
    *.map) printf '/* %s */\n{ global: *; };\n' "$acc" > "$o" || exit 6;;
    *.sh) printf '#!/bin/sh\n# %s\necho script-%s\n' "$acc" "$id" > "$o" && chmod +x "$o" || exit 6;;
    *) { echo "$acc"; cat "$in"; } > "$o" || exit 6;;
  esac
done
"""

TOOL_C = r"""#include <stdio.h>
#include <string.h>
int %(p)s_tlib_value(void);
/* usage: tool            -> prints a line
          tool IN OUT     -> writes OUT: a C file defining <stem of OUT>_fn() */
int main(int argc, char **argv) {
    if (argc < 3) { printf("tool-%%d\n", %(p)s_tlib_value()); return 0; }
    FILE *in = fopen(argv[1], "r");
    if (!in) return 3;
    int c, n = 0;
    while ((c = fgetc(in)) != EOF) n += c;
    fclose(in);
    const char *b = strrchr(argv[2], '/');
    b = b ? b + 1 : argv[2];
    char id[256];
    size_t i;
    for (i = 0; b[i] && b[i] != '.' && i < sizeof(id) - 1; i++) {
        char ch = b[i];
        id[i] = ((ch >= 'a' && ch <= 'z') || (ch >= 'A' && ch <= 'Z') || (ch >= '0' && ch <= '9')) ? ch : '_';
    }
    id[i] = 0;
    FILE *out = fopen(argv[2], "w");
    if (!out) return 4;
    fprintf(out, "/* sum %%d lib %%d */\nint %%s_fn(void) { return 0; }\n", n, %(p)s_tlib_value(), id);
    fclose(out);
    return 0;
}
"""


class _W:
    """Accumulates files and meson.build lines per directory."""

    def __init__(self) -> None:
        self.lines: T.Dict[str, T.List[str]] = {'': []}
        self.files: T.Dict[str, str] = {}
        self.modes: T.Dict[str, int] = {}

    def line(self, d: str, text: str) -> None:
        self.lines.setdefault(d, []).append(text)

    def file(self, d: str, name: str, text: str, mode: T.Optional[int] = None) -> None:
        path = f'{d}/{name}' if d else name
        self.files[path] = text
        if mode is not None:
            self.modes[path] = mode


def _main_c(includes: T.Sequence[str], decls: T.Sequence[str], expr: str) -> str:
    inc = ''.join(f'#include "{h}"\n' for h in includes)
    dec = ''.join(f'int {d}(void);\n' for d in decls)
    return f'{inc}{dec}int main(void) {{ return {expr}; }}\n'


def _fn_c(name: str, includes: T.Sequence[str] = (), calls: T.Sequence[str] = (), expr: str = '0') -> str:
    inc = ''.join(f'#include "{h}"\n' for h in includes)
    dec = ''.join(f'int {d}(void);\n' for d in calls)
    body = ' + '.join([expr] + [f'{c}()' for c in calls])
    return f'{inc}{dec}int {name}(void) {{ return {body}; }}\n'


def _block(w: _W, b: T.Dict[str, T.Any]) -> None:
    kind, n, v = b['kind'], b['n'], b.get('v', 0)
    p = f'b{n}{kind}'
    P = p.upper()
    d = f'{p}_d' if b.get('sub') else ''
    if d:
        w.line('', f"subdir('{d}')")
    L = lambda text: w.line(d, text)  # noqa: E731
    F = lambda name, text: w.file(d, name, text)  # noqa: E731
    GEN = "[gen, '@INPUT@', '@OUTPUT@']"

    if kind == 'hdr':
        F(f'{p}.in', f'seed {p}\n')
        L(f"{p}_ct = custom_target('{p}_gen', input: '{p}.in', output: ['{p}_src.c', '{p}_hdr.h'], command: {GEN})")
        F(f'{p}_main.c', _main_c([f'{p}_hdr.h'], [f'{p}_src_fn', f'{p}_util'], f'{P}_HDR_VALUE - 1 + {p}_src_fn() + {p}_util()'))
        F(f'{p}_util.c', _fn_c(f'{p}_util', [f'{p}_hdr.h'], expr=f'{P}_HDR_VALUE - 1'))
        if v == 0:      # both outputs listed as sources of the executable
            L(f"{p}_exe = executable('{p}_exe', '{p}_main.c', '{p}_util.c', {p}_ct)")
        elif v == 1:    # indexed outputs
            L(f"{p}_exe = executable('{p}_exe', '{p}_main.c', '{p}_util.c', {p}_ct[0], {p}_ct[1])")
        elif v == 2:    # a static library owns the generated source, the executable only lists the header
            L(f"{p}_lib = static_library('{p}_lib', '{p}_util.c', {p}_ct)")
            L(f"{p}_exe = executable('{p}_exe', '{p}_main.c', {p}_ct[1], link_with: {p}_lib)")
        elif v == 4:    # a precompiled header includes the generated header
            w.file(d, f'pch/{p}_pch.h', f'#include "{p}_hdr.h"\n#include <stddef.h>\n')
            F(f'{p}_pch_user.c', _fn_c(f'{p}_pch_user', [f'{p}_hdr.h'], expr=f'{P}_HDR_VALUE - 1'))
            L(f"{p}_exe = executable('{p}_exe', '{p}_main.c', '{p}_util.c', '{p}_pch_user.c', {p}_ct, c_pch: 'pch/{p}_pch.h')")
        else:           # header and source from two custom targets, the second reads the first (target in command)
            F(f'{p}_2.in', f'seed2 {p}\n')
            L(f"{p}_ct2 = custom_target('{p}_gen2', input: '{p}_2.in', output: '{p}_more.h', "
              f"command: [gen, '-r', {p}_ct[1], '@INPUT@', '@OUTPUT@'])")
            F(f'{p}_third.c', _fn_c(f'{p}_third', [f'{p}_more.h'], expr=f'{P}_MORE_VALUE - 1'))
            L(f"{p}_exe = executable('{p}_exe', '{p}_main.c', '{p}_util.c', '{p}_third.c', {p}_ct, {p}_ct2)")

    elif kind == 'dep':
        # always: header + library live in their own directory, the consumer in the parent directory
        sd = f'{p}_lib'
        w.line(d, f"subdir('{sd}')")
        dd = f'{d}/{sd}' if d else sd
        w.file(dd, f'{p}.in', f'seed {p}\n')
        w.line(dd, f"{p}_hdr = custom_target('{p}_hdr', input: '{p}.in', output: '{p}_api.h', command: {GEN})")
        w.file(dd, f'{p}_lib.c', _fn_c(f'{p}_lib_fn', [f'{p}_api.h'], expr=f'{P}_API_VALUE - 1'))
        libfn = 'library' if v == 1 else 'static_library'
        w.line(dd, f"{p}_lib = {libfn}('{p}_lib', '{p}_lib.c', {p}_hdr)")
        w.line(dd, f"{p}_dep = declare_dependency(sources: {p}_hdr, link_with: {p}_lib, include_directories: include_directories('.'))")
        F(f'{p}_main.c', _main_c([f'{p}_api.h'], [f'{p}_lib_fn'], f'{P}_API_VALUE - 1 + {p}_lib_fn()'))
        F(f'{p}_other.c', _fn_c(f'{p}_other', [f'{p}_api.h'], expr=f'{P}_API_VALUE'))
        if v == 2:
            L(f"{p}_exe = executable('{p}_exe', '{p}_main.c', '{p}_other.c', "
              f"dependencies: {p}_dep.partial_dependency(sources: true, includes: true, links: true))")
        else:
            L(f"{p}_exe = executable('{p}_exe', '{p}_main.c', '{p}_other.c', dependencies: {p}_dep)")

    elif kind == 'gen':
        F(f'{p}_one.in', f'one {p}\n')
        F(f'{p}_two.in', f'two {p}\n')
        if v == 0:
            L(f"{p}_g = generator(gen, output: ['@BASENAME@.c', '@BASENAME@.h'], arguments: ['@INPUT@', '@OUTPUT0@', '@OUTPUT1@'])")
        else:   # the generator itself depends on a custom target it reads (v2: and records what it read in a depfile)
            F(f'{p}_pre.in', f'pre {p}\n')
            L(f"{p}_pre = custom_target('{p}_pre', input: '{p}_pre.in', output: '{p}_pre.txt', command: {GEN})")
            dfa, dfk = ("'-d', '@DEPFILE@', ", ", depfile: '@BASENAME@.d'") if v == 2 else ('', '')
            L(f"{p}_g = generator(gen, output: ['@BASENAME@.c', '@BASENAME@.h'], "
              f"arguments: [{dfa}'-r', {p}_pre.full_path(), '@INPUT@', '@OUTPUT0@', '@OUTPUT1@'], depends: {p}_pre{dfk})")
        F(f'{p}_main.c', _main_c([f'{p}_one.h', f'{p}_two.h'], [f'{p}_one_fn', f'{p}_two_fn'],
                                 f'{P}_ONE_VALUE - {P}_TWO_VALUE + {p}_one_fn() + {p}_two_fn()'))
        F(f'{p}_side.c', _fn_c(f'{p}_side', [f'{p}_two.h'], expr=f'{P}_TWO_VALUE'))
        L(f"{p}_exe = executable('{p}_exe', '{p}_main.c', '{p}_side.c', {p}_g.process('{p}_one.in', '{p}_two.in'))")
        F(f'{p}_three.in', f'three {p}\n')
        L(f"{p}_ctg = custom_target('{p}_ctg', input: {p}_g.process('{p}_three.in'), output: '{p}_ctg.txt', "
          f"command: [gen, '-r', '@INPUT1@', '@INPUT0@', '@OUTPUT@'], build_by_default: true)")

    elif kind == 'chain':
        for s in 'acd':
            F(f'{p}_{s}.in', f'{s} {p}\n')
        F(f'{p}_extra.txt', 'extra\n')
        L(f"{p}_a = custom_target('{p}_a', input: '{p}_a.in', output: '{p}_a.txt', command: {GEN})")
        L(f"{p}_b = custom_target('{p}_b', input: {p}_a, output: '{p}_b.txt', command: {GEN})")
        # v2: the step records what it read in a depfile (the discovered prerequisites of the second build)
        dfa, dfk = ("'-d', '@DEPFILE@', ", ", depfile: '@BASENAME@.d'") if v == 2 else ('', '')
        L(f"{p}_c = custom_target('{p}_c', input: '{p}_c.in', output: ['{p}_c.c', '{p}_c.h'], "
          f"command: [gen, {dfa}'-r', {p}_b.full_path(), '@INPUT@', '@OUTPUT@'], depends: {p}_b, depend_files: files('{p}_extra.txt'){dfk})")
        L(f"{p}_d = custom_target('{p}_d', input: '{p}_d.in', output: '{p}_d.txt', "
          f"command: [gen, '-r', {p}_c[1], '@INPUT@', '@OUTPUT@'], build_by_default: true)")
        F(f'{p}_main.c', _main_c([f'{p}_c.h'], [f'{p}_c_fn'], f'{P}_C_VALUE - 1 + {p}_c_fn()'))
        if v in (0, 2):
            L(f"{p}_exe = executable('{p}_exe', '{p}_main.c', {p}_c)")
        else:   # indexed outputs, plus a generator() whose input is a custom target output
            L(f"{p}_gx = generator(gen, output: '@BASENAME@_x.c', arguments: ['@INPUT@', '@OUTPUT@'])")
            L(f"{p}_exe = executable('{p}_exe', '{p}_main.c', {p}_c[0], {p}_c[1], {p}_gx.process({p}_b))")

    elif kind == 'tool':
        F(f'{p}_tlib.c', _fn_c(f'{p}_tlib_value', expr='7'))
        libfn = 'static_library' if v == 1 else 'shared_library'
        L(f"{p}_tlib = {libfn}('{p}_tlib', '{p}_tlib.c')")
        F(f'{p}_tool.c', TOOL_C % {'p': p})
        L(f"{p}_tool = executable('{p}_tool', '{p}_tool.c', link_with: {p}_tlib)")
        if v == 2:      # the tool is reached through find_program() (overridden by the built executable)
            L(f"meson.override_find_program('{p}_mytool', {p}_tool)")
            L(f"{p}_tool = find_program('{p}_mytool')")
        F(f'{p}.in', f'seed {p}\n')
        F(f'{p}_x.in', f'x {p}\n')
        F(f'{p}_y.in', f'y {p}\n')
        L(f"{p}_out = custom_target('{p}_out', input: '{p}.in', output: '{p}_made.c', command: [{p}_tool, '@INPUT@', '@OUTPUT@'])")
        L(f"{p}_tg = generator({p}_tool, output: '@BASENAME@_g.c', arguments: ['@INPUT@', '@OUTPUT@'])")
        L(f"{p}_cap = custom_target('{p}_cap', output: '{p}_cap.txt', command: [{p}_tool], capture: true, build_by_default: true)")
        L(f"{p}_arg = custom_target('{p}_arg', input: '{p}_y.in', output: '{p}_arg.h', command: [gen, '-x', {p}_tool, '@INPUT@', '@OUTPUT@'])")
        L(f"{p}_copy = custom_target('{p}_copy', input: {p}_tool, output: '{p}_tool.copy', command: [gen, '@INPUT@', '@OUTPUT@'], build_by_default: true)")
        F(f'{p}_main.c', _main_c([f'{p}_arg.h'], [f'{p}_made_fn', f'{p}_x_g_fn'], f'{P}_ARG_VALUE - 1 + {p}_made_fn() + {p}_x_g_fn()'))
        L(f"{p}_exe = executable('{p}_exe', '{p}_main.c', {p}_out, {p}_tg.process('{p}_x.in'), {p}_arg)")

    elif kind == 'link':
        F(f'{p}_s0.c', _fn_c(f'{p}_s0'))
        F(f'{p}_s1.c', _fn_c(f'{p}_s1', calls=[f'{p}_s0']))
        F(f'{p}_sh.c', _fn_c(f'{p}_sh', calls=[f'{p}_s1']))
        F(f'{p}_both.c', _fn_c(f'{p}_both'))
        F(f'{p}_x.c', _fn_c(f'{p}_x'))
        F(f'{p}_main.c', _main_c([], [f'{p}_sh', f'{p}_both', f'{p}_x', f'{p}_s2'], f'{p}_sh() + {p}_both() + {p}_x() + {p}_s2()'))
        L(f"{p}_s0 = static_library('{p}_s0', '{p}_s0.c')")
        L(f"{p}_s1 = static_library('{p}_s1', '{p}_s1.c', link_with: {p}_s0)")
        if v == 0:
            L(f"{p}_sh = shared_library('{p}_sh', '{p}_sh.c', link_whole: {p}_s1)")
        else:
            L(f"{p}_sh = shared_library('{p}_sh', '{p}_sh.c', link_with: {p}_s1)")
        L(f"{p}_both = both_libraries('{p}_both', '{p}_both.c')")
        L(f"{p}_xl = static_library('{p}_xl', '{p}_x.c', build_by_default: false)")
        F(f'{p}_s2.c', _fn_c(f'{p}_s2', calls=[f'{p}_w']))
        F(f'{p}_w.c', _fn_c(f'{p}_w'))
        L(f"{p}_w = static_library('{p}_w', '{p}_w.c')")
        L(f"{p}_s2 = static_library('{p}_s2', '{p}_s2.c', link_whole: {p}_w)")
        L(f"{p}_exe = executable('{p}_exe', '{p}_main.c', link_with: [{p}_sh, {p}_both, {p}_s2], objects: {p}_xl.extract_objects('{p}_x.c'))")

    elif kind == 'script':
        F(f'{p}.in', f'seed {p}\n')
        F(f'{p}_vs.c', _fn_c(f'{p}_vs'))
        F(f'{p}_main.c', _main_c([], [f'{p}_vs'], f'{p}_vs()'))
        L(f"{p}_map = custom_target('{p}_map', input: '{p}.in', output: '{p}.map', command: {GEN})")
        L(f"{p}_vs = shared_library('{p}_vs', '{p}_vs.c', link_depends: {p}_map, "
          f"link_args: '-Wl,--version-script,' + {p}_map.full_path())")
        L(f"{p}_exe = executable('{p}_exe', '{p}_main.c', link_with: {p}_vs)")

    elif kind == 'ctlib':
        F(f'{p}_o.c', _fn_c(f'{p}_o'))
        F(f'{p}_m1.c', _main_c([], [f'{p}_o'], f'{p}_o()'))
        F(f'{p}_m2.c', _main_c([], [f'{p}_o'], f'{p}_o()'))
        L(f"{p}_obj = custom_target('{p}_obj', input: '{p}_o.c', output: '{p}_o.o', command: [ccprog, '-c', '@INPUT@', '-o', '@OUTPUT@'])")
        L(f"{p}_lib = custom_target('{p}_lib', input: {p}_obj, output: 'lib{p}_ct.a', command: [arprog, 'csrD', '@OUTPUT@', '@INPUT@'])")
        L(f"{p}_exe1 = executable('{p}_exe1', '{p}_m1.c', {p}_obj)")
        L(f"{p}_exe2 = executable('{p}_exe2', '{p}_m2.c', link_with: {p}_lib)")

    elif kind == 'run':
        F(f'{p}.in', f'seed {p}\n')
        F(f'{p}_r.in', f'run {p}\n')
        F(f'{p}_t.c', '#include <stdio.h>\nint main(void) { puts("t"); return 0; }\n')
        L(f"{p}_data = custom_target('{p}_data', input: '{p}.in', output: '{p}_data.txt', command: {GEN})")
        L(f"{p}_t = executable('{p}_t', '{p}_t.c', build_by_default: false)")
        L(f"{p}_run = run_target('{p}_run', command: [gen, '-r', {p}_data.full_path(), '-x', {p}_t, files('{p}_r.in'), '/dev/null'], depends: {p}_data)")
        L(f"{p}_alias = alias_target('{p}_alias', {p}_run, {p}_data)")
        L(f"test('{p}_test', {p}_t, depends: {p}_data)")

    elif kind == 'conf':
        F(f'{p}_cfg.h.in', f'#define {P}_CFG_VALUE @V@\n')
        F(f'{p}.in', f'seed {p}\n')
        L(f"{p}_cfg = configure_file(input: '{p}_cfg.h.in', output: '{p}_cfg.h', configuration: {{'V': 1}})")
        L(f"{p}_made = configure_file(output: '{p}_made.h', command: [gen, files('{p}.in'), '@OUTPUT@'])")
        L(f"{p}_feed = custom_target('{p}_feed', input: {p}_cfg, output: '{p}_feed.txt', command: [catprog], feed: true, capture: true, build_by_default: true)")
        F(f'{p}_ver.txt', 'v1\n')
        F(f'{p}_vcs.h.in', f'#define {P}_VCS "@VCS_TAG@"\n')
        F(f'{p}_copied.h.in', f'#define {P}_COPIED 1\n')
        L(f"{p}_vcs = vcs_tag(command: [catprog, files('{p}_ver.txt')], input: '{p}_vcs.h.in', output: '{p}_vcs.h', fallback: 'none')")
        L(f"{p}_copied = import('fs').copyfile('{p}_copied.h.in', '{p}_copied.h')")
        F(f'{p}_main.c', _main_c([f'{p}_cfg.h', f'{p}_made.h', f'{p}_vcs.h', f'{p}_copied.h'], [],
                                 f'{P}_CFG_VALUE - {P}_MADE_VALUE + {P}_COPIED - 1 + (int)sizeof({P}_VCS) - 3'))
        L(f"{p}_exe = executable('{p}_exe', '{p}_main.c', {p}_vcs, {p}_copied)")

    elif kind == 'subproj':
        sp = f'{p}sp'
        sd = f'subprojects/{sp}'
        w.file(sd, 'gen.sh', GEN_SH, 0o755)
        w.file(sd, f'{p}.in', f'seed {p}\n')
        w.file(sd, f'{p}_splib.c', _fn_c(f'{p}_splib', [f'{p}_sp.h'], expr=f'{P}_SP_VALUE - 1'))
        w.lines[sd] = [
            f"project('{sp}', 'c', version: '1.0')",
            "gen = find_program('gen.sh')",
            f"{p}_hdr = custom_target('{p}_hdr', input: '{p}.in', output: '{p}_sp.h', command: {GEN})",
            f"{p}_splib = {'static_library' if v == 0 else 'library'}('{p}_splib', '{p}_splib.c', {p}_hdr)",
            f"{p}_dep = declare_dependency(sources: {p}_hdr, link_with: {p}_splib, include_directories: include_directories('.'))",
        ]
        w.line('', f"{p}_sp = subproject('{sp}')")
        F(f'{p}_main.c', _main_c([f'{p}_sp.h'], [f'{p}_splib'], f'{P}_SP_VALUE - 1 + {p}_splib()'))
        L(f"{p}_exe = executable('{p}_exe', '{p}_main.c', dependencies: {p}_sp.get_variable('{p}_dep'))")
    elif kind == 'unity':
        # v2: the whole group lives in a subproject and the project is configured with -Dunity=subprojects
        if v == 2:
            sp = f'{p}sp'
            ud = f'subprojects/{sp}'
            w.file(ud, 'gen.sh', GEN_SH, 0o755)
            w.lines[ud] = [f"project('{sp}', 'c', 'cpp', version: '1.0')", "gen = find_program('gen.sh')"]
            w.line('', f"{p}_sp = subproject('{sp}')")
            over = ''
        else:
            ud = d
            w.line(ud, "add_languages('cpp', native: false)")
            over = ", override_options: ['unity=on', 'unity_size=2']"
        U = lambda text: w.line(ud, text)  # noqa: E731
        UF = lambda name, text: w.file(ud, name, text)  # noqa: E731
        for nm in ('h', 'cc', 'cx', 'g1', 'g2'):
            UF(f'{p}_{nm}.in', f'{nm} {p}\n')
        U(f"{p}_h = custom_target('{p}_h', input: '{p}_h.in', output: '{p}_gen.h', command: {GEN})")
        U(f"{p}_cc = custom_target('{p}_cc', input: '{p}_cc.in', output: '{p}_one.c', command: [gen, '-i', '{p}_gen.h', '@INPUT@', '@OUTPUT@'])")
        U(f"{p}_cx = custom_target('{p}_cx', input: '{p}_cx.in', output: '{p}_greeter.cpp', command: [gen, '-i', '{p}_gen.h', '@INPUT@', '@OUTPUT@'])")
        U(f"{p}_gc = generator(gen, output: '@BASENAME@.c', arguments: ['@INPUT@', '@OUTPUT@'])")
        U(f"{p}_gx = generator(gen, output: '@BASENAME@.cpp', arguments: ['-i', '{p}_gen.h', '@INPUT@', '@OUTPUT@'])")
        cfn = [f'{p}_a', f'{p}_b', f'{p}_c']
        xfn = [f'{p}_x', f'{p}_y']
        for fn_ in cfn:
            UF(f'{fn_}.c', _fn_c(fn_, [f'{p}_gen.h'] if fn_.endswith('_a') else [], expr=f'{P}_GEN_VALUE - 1' if fn_.endswith('_a') else '0'))
        for fn_ in xfn:
            UF(f'{fn_}.cpp', _fn_c(fn_, [f'{p}_gen.h'] if fn_.endswith('_x') else []))
        cdecl = ''.join(f'int {f}(void);\n' for f in cfn + [f'{p}_one_fn', f'{p}_g1_fn'])
        xdecl = ''.join(f'int {f}(void);\n' for f in xfn + [f'{p}_greeter_fn', f'{p}_g2_fn'])
        calls = ' + '.join(f'{f}()' for f in cfn + xfn + [f'{p}_one_fn', f'{p}_g1_fn', f'{p}_greeter_fn', f'{p}_g2_fn'])
        plain = [f"'{f}.c'" for f in cfn] + [f"'{f}.cpp'" for f in xfn]
        generated = [f'{p}_cc', f'{p}_cx', f"{p}_gc.process('{p}_g1.in')", f"{p}_gx.process('{p}_g2.in')", f'{p}_h']
        srcs = generated + plain if v == 1 else plain + generated
        if v == 3:
            UF(f'{p}_main.cpp', f'extern "C" {{\n{cdecl}}}\n{xdecl}int main() {{ return {calls}; }}\n')
            U(f"{p}_lib = static_library('{p}_lib', {', '.join(srcs)}{over})")
            U(f"{p}_exe = executable('{p}_exe', '{p}_main.cpp', link_with: {p}_lib)")
        else:
            UF(f'{p}_main.cpp', f'extern "C" {{\n{cdecl}}}\n{xdecl}int main() {{ return {calls}; }}\n')
            U(f"{p}_exe = executable('{p}_exe', '{p}_main.cpp', {', '.join(srcs)}{over})")

    elif kind == 'privhdr':
        F(f'{p}_api.in', f'api {p}\n')
        L(f"{p}_g = generator(gen, output: '@BASENAME@.h', arguments: ['@INPUT@', '@OUTPUT@'])")
        F(f'{p}_core.c', _fn_c(f'{p}_core', [f'{p}_api.h'], expr=f'{P}_API_VALUE - 1'))
        L(f"{p}_core = static_library('{p}_core', '{p}_core.c', {p}_g.process('{p}_api.in'))")
        L(f"{p}_inc = {p}_core.private_dir_include()")
        F(f'{p}_wrap.c', _fn_c(f'{p}_wrap', [f'{p}_api.h'], calls=[f'{p}_core'], expr=f'{P}_API_VALUE - 1'))
        F(f'{p}_wrap2.c', _fn_c(f'{p}_wrap2', [f'{p}_api.h'], expr=f'{P}_API_VALUE - 1'))
        F(f'{p}_main.c', _main_c([f'{p}_api.h'], [f'{p}_wrap', f'{p}_wrap2'], f'{P}_API_VALUE - 1 + {p}_wrap() + {p}_wrap2()'))
        top = f'{p}_wrap'
        if v == 0:      # static wrap bundles core directly
            L(f"{p}_wrap = static_library('{p}_wrap', '{p}_wrap.c', '{p}_wrap2.c', link_whole: {p}_core, include_directories: {p}_inc)")
        elif v == 1:    # ... through a dependency object
            L(f"{p}_cdep = declare_dependency(link_whole: {p}_core, include_directories: {p}_inc)")
            L(f"{p}_wrap = static_library('{p}_wrap', '{p}_wrap.c', '{p}_wrap2.c', dependencies: {p}_cdep)")
        elif v == 2:    # plain link_with
            L(f"{p}_wrap = static_library('{p}_wrap', '{p}_wrap.c', '{p}_wrap2.c', link_with: {p}_core, include_directories: {p}_inc)")
        elif v == 3:    # core bundled into a shared library
            L(f"{p}_wrap = shared_library('{p}_wrap', '{p}_wrap.c', '{p}_wrap2.c', link_whole: {p}_core, include_directories: {p}_inc)")
        else:           # two levels: mid bundles core, wrap bundles mid
            F(f'{p}_mid.c', _fn_c(f'{p}_mid', [f'{p}_api.h'], expr=f'{P}_API_VALUE - 1'))
            L(f"{p}_mid = static_library('{p}_mid', '{p}_mid.c', link_whole: {p}_core, include_directories: {p}_inc)")
            L(f"{p}_wrap = static_library('{p}_wrap', '{p}_wrap.c', '{p}_wrap2.c', link_whole: {p}_mid, include_directories: {p}_inc)")
        L(f"{p}_exe = executable('{p}_exe', '{p}_main.c', link_with: {top}, include_directories: {p}_inc)")

    elif kind == 'pair':
        F(f'{p}_c.in', f'c {p}\n')
        F(f'{p}_h.in', f'h {p}\n')
        L(f"{p}_h = custom_target('{p}_h', input: '{p}_h.in', output: '{p}_proto.h', command: {GEN})")
        if v in (3, 4):     # the including source comes out of a generator()
            L(f"{p}_g = generator(gen, output: '@BASENAME@.c', arguments: ['-i', '{p}_proto.h', '@INPUT@', '@OUTPUT@'])")
            F(f'{p}_proto.in', f'g {p}\n')
            src = f"{p}_g.process('{p}_proto.in')"
        else:
            L(f"{p}_c = custom_target('{p}_c', input: '{p}_c.in', output: '{p}_proto.c', "
              f"command: [gen, '-i', '{p}_proto.h', '@INPUT@', '@OUTPUT@'])")
            src = f'{p}_c'
        F(f'{p}_main.c', _main_c([], [f'{p}_proto_fn'], f'{p}_proto_fn()'))
        if v in (0, 3):     # generated source BEFORE the generated header
            L(f"{p}_exe = executable('{p}_exe', '{p}_main.c', {src}, {p}_h)")
        elif v in (1, 4):   # header first
            L(f"{p}_exe = executable('{p}_exe', {p}_h, '{p}_main.c', {src})")
        else:               # header handed over by a dependency object (appended after the positional sources)
            L(f"{p}_hdep = declare_dependency(sources: {p}_h)")
            L(f"{p}_exe = executable('{p}_exe', '{p}_main.c', {src}, dependencies: {p}_hdep)")
    elif kind == 'prog':
        # One ENTRY (something the build produces and a step executes) reached by every depends:-like and
        # program-like route, each route in its own consumer statement so that no route hides another one.
        ent = PROG_ENTRIES[v]
        F(f'{p}_plug.c', '#include <stdio.h>\nint main(void) { puts("plug-%s"); return 0; }\n' % p)
        if ent in ('exe', 'ovr'):
            L(f"{p}_plug = executable('{p}_plug', '{p}_plug.c', build_by_default: false)")
            if ent == 'ovr':
                L(f"meson.override_find_program('{p}_plugprog', {p}_plug)")
                L(f"{p}_e = find_program('{p}_plugprog')")
            else:
                L(f"{p}_e = {p}_plug")
        elif ent == 'spovr':    # the plugin is built and published by a subproject
            sp = f'{p}sp'
            sd = f'subprojects/{sp}'
            w.file(sd, f'{p}_spplug.c', '#include <stdio.h>\nint main(void) { puts("spplug-%s"); return 0; }\n' % p)
            w.lines[sd] = [
                f"project('{sp}', 'c', version: '1.0')",
                f"{p}_spplug = executable('{p}_spplug', '{p}_spplug.c', build_by_default: false)",
                f"meson.override_find_program('{p}_plugprog', {p}_spplug)",
            ]
            L(f"subproject('{sp}')")
            L(f"{p}_e = find_program('{p}_plugprog')")
        elif ent == 'ct':       # a runnable script made by a custom target
            F(f'{p}_s.in', f's {p}\n')
            L(f"{p}_e = custom_target('{p}_s', input: '{p}_s.in', output: '{p}_s.sh', command: {GEN})")
        else:                   # ... by a custom target with two outputs, used through its index
            F(f'{p}_t.in', f't {p}\n')
            L(f"{p}_t = custom_target('{p}_t', input: '{p}_t.in', output: ['{p}_t0.sh', '{p}_t1.sh'], command: {GEN})")
            L(f"{p}_e = {p}_t[1]")
        is_prog = ent in ('exe', 'ovr', 'spovr')
        is_tgt = ent in ('exe', 'ct', 'cti')
        L(f"{p}_path = {p}_e.full_path()")
        for nm in ('gdep', 'gexe', 'pdep', 'pin', 'cdep', 'carg', 'cinp', 'rdep', 'rarg'):
            F(f'{p}_{nm}.in', f'{nm} {p}\n')
        # generator(): the entry only in depends: / as the generator's program / in process(depends:) / as input
        gl = []
        L(f"{p}_g0 = generator(gen, output: '@BASENAME@.txt', arguments: ['-x', {p}_path, '@INPUT@', '@OUTPUT@'], depends: {p}_e)")
        gl.append(f"{p}_g0.process('{p}_gdep.in')")
        if is_prog:
            L(f"{p}_g1 = generator({p}_e, output: '@BASENAME@.txt', arguments: ['@INPUT@'], capture: true)")
            gl.append(f"{p}_g1.process('{p}_gexe.in')")
        else:
            L(f"{p}_g2 = generator(gen, output: '@BASENAME@.txt', arguments: ['@EXTRA_ARGS@', '@INPUT@', '@OUTPUT@'])")
            gl.append(f"{p}_g2.process('{p}_pdep.in', extra_args: ['-x', {p}_path], depends: {p}_e)")
        if is_tgt:
            L(f"{p}_g3 = generator(gen, output: '@BASENAME@.ptxt', arguments: ['@INPUT@', '@OUTPUT@'])")
            gl.append(f"{p}_g3.process({p}_e)")
        rs = ''.join(f"'-r', '@INPUT{j}@', " for j in range(1, len(gl)))
        L(f"{p}_coll = custom_target('{p}_coll', input: [{', '.join(gl)}], output: '{p}_coll.txt', "
          f"command: [gen, {rs}'@INPUT0@', '@OUTPUT@'], build_by_default: true)")
        # custom_target(): depends: only / argument / the command itself / through an interpreter / input:
        L(f"custom_target('{p}_cdep', input: '{p}_cdep.in', output: '{p}_cdep.txt', "
          f"command: [gen, '-x', {p}_path, '@INPUT@', '@OUTPUT@'], depends: {p}_e, build_by_default: true)")
        L(f"custom_target('{p}_carg', input: '{p}_carg.in', output: '{p}_carg.txt', "
          f"command: [gen, '-x', {p}_e, '@INPUT@', '@OUTPUT@'], build_by_default: true)")
        # (a custom-target index as the command itself is written as a bare file name when the target lives in the
        # top build directory - not runnable under any schedule, so that combination is only generated in a subdir)
        as_cmd = ent != 'cti' or bool(d)
        if as_cmd:
            L(f"custom_target('{p}_ccmd', output: '{p}_ccmd.txt', command: [{p}_e], capture: true, build_by_default: true)")
        if not is_prog:
            L(f"custom_target('{p}_cint', output: '{p}_cint.txt', command: [shprog, {p}_e], capture: true, build_by_default: true)")
        L(f"custom_target('{p}_cinp', input: {p}_e, output: '{p}_cinp.txt', command: {GEN}, build_by_default: true)")
        # run_target(): depends: only / argument / the command itself
        L(f"run_target('{p}_rdep', command: [gen, '-x', {p}_path, files('{p}_rdep.in'), '/dev/null'], depends: {p}_e)")
        L(f"run_target('{p}_rarg', command: [gen, '-x', {p}_e, files('{p}_rarg.in'), '/dev/null'])")
        if as_cmd:
            L(f"run_target('{p}_rcmd', command: [{p}_e])")
    elif kind == 'tprog':
        # `ninja test` / `ninja benchmark`: what the tests execute and read reaches the step that runs them only through
        # meson-test-prereq / meson-benchmark-prereq.  Nothing here is built by default and every route has an entry
        # of its own (one statement runs all the tests: a shared entry would hide a lost edge).
        routes = ('tdep', 'targ', 'texe', 'bdep', 'bexe')
        for j, route in enumerate(routes):
            ent = TPROG_TABLE[v][j]
            q = f'{p}_{route}'
            F(f'{q}.in', f'{route} {p}\n')
            if ent in ('exe', 'ovr'):
                F(f'{q}_plug.c', '#include <stdio.h>\nint main(void) { puts("plug-%s"); return 0; }\n' % q)
                L(f"{q}_e = executable('{q}_plug', '{q}_plug.c', build_by_default: false)")
                if ent == 'ovr':
                    L(f"meson.override_find_program('{q}_plugprog', {q}_e)")
                    L(f"{q}_e = find_program('{q}_plugprog')")
            elif ent == 'spovr':
                sp = f'{p}sp'
                sd = f'subprojects/{sp}'
                w.file(sd, f'{q}_spplug.c', '#include <stdio.h>\nint main(void) { puts("spplug-%s"); return 0; }\n' % q)
                w.lines[sd] = [
                    f"project('{sp}', 'c', version: '1.0')",
                    f"{q}_spplug = executable('{q}_spplug', '{q}_spplug.c', build_by_default: false)",
                    f"meson.override_find_program('{q}_plugprog', {q}_spplug)",
                ]
                L(f"subproject('{sp}')")
                L(f"{q}_e = find_program('{q}_plugprog')")
            elif ent == 'ct':
                F(f'{q}_s.in', f's {q}\n')
                L(f"{q}_e = custom_target('{q}_s', input: '{q}_s.in', output: '{q}_s.sh', command: {GEN})")
            else:
                F(f'{q}_t.in', f't {q}\n')
                L(f"{q}_t = custom_target('{q}_t', input: '{q}_t.in', output: ['{q}_t0.sh', '{q}_t1.sh'], command: {GEN})")
                L(f"{q}_e = {q}_t[1]")
            fn = 'test' if route[0] == 't' else 'benchmark'
            if route.endswith('dep'):
                L(f"{fn}('{q}', gen, args: ['-x', {q}_e.full_path(), files('{q}.in'), '/dev/null'], depends: {q}_e)")
            elif route.endswith('arg'):
                L(f"{fn}('{q}', gen, args: ['-x', {q}_e, files('{q}.in'), '/dev/null'])")
            else:
                L(f"{fn}('{q}', {q}_e)")
    elif kind == 'dchain':
        # declare_dependency() three levels deep: generated headers / a generated source (sources:), a static library
        # (link_with:) and extracted objects (objects:) reach the consumer only through dependencies: of dependencies:
        for nm in ('h1', 'h2', 'h3'):
            F(f'{p}_{nm}.in', f'{nm} {p}\n')
        L(f"{p}_h1 = custom_target('{p}_h1', input: '{p}_h1.in', output: '{p}_h1.h', command: {GEN})")
        L(f"{p}_h2 = custom_target('{p}_h2', input: '{p}_h2.in', output: '{p}_h2.h', command: {GEN})")
        L(f"{p}_h3 = custom_target('{p}_h3', input: '{p}_h3.in', output: ['{p}_h3.h', '{p}_h3s.c'], "
          f"command: [gen, '@INPUT@', '@OUTPUT0@', '@OUTPUT1@'])")
        F(f'{p}_l1.c', _fn_c(f'{p}_l1', [f'{p}_h1.h'], expr=f'{P}_H1_VALUE - 1'))
        L(f"{p}_l1 = static_library('{p}_l1', '{p}_l1.c', {p}_h1)")
        L(f"{p}_d1 = declare_dependency(sources: {p}_h1, link_with: {p}_l1)")
        F(f'{p}_x.c', _fn_c(f'{p}_x'))
        L(f"{p}_xl = static_library('{p}_xl', '{p}_x.c', build_by_default: false)")
        L(f"{p}_d2 = declare_dependency(dependencies: {p}_d1, sources: {p}_h2, objects: {p}_xl.extract_objects('{p}_x.c'))")
        # (v1 hands on the header only: the generated source would be compiled into the library and the executable,
        # and a unity build of the library puts both definitions into one archive member)
        L(f"{p}_d3 = declare_dependency(dependencies: {p}_d2, sources: {p}_h3{'[0]' if v == 1 else ''})")
        hs = [f'{p}_h1.h', f'{p}_h2.h', f'{p}_h3.h']
        val = f'{P}_H1_VALUE + {P}_H2_VALUE + {P}_H3_VALUE - 3'
        F(f'{p}_other.c', _fn_c(f'{p}_other', hs, expr=val))
        if v == 0:      # the executable takes the outermost dependency
            F(f'{p}_main.c', _main_c(hs, [f'{p}_l1', f'{p}_x', f'{p}_h3s_fn', f'{p}_other'],
                                     f'{val} + {p}_l1() + {p}_x() + {p}_h3s_fn() + {p}_other()'))
            L(f"{p}_exe = executable('{p}_exe', '{p}_main.c', '{p}_other.c', dependencies: {p}_d3)")
        elif v == 1:    # a fourth level: a static library built with it, handed on by one more declare_dependency()
            F(f'{p}_mid.c', _fn_c(f'{p}_mid', hs, expr=val))
            L(f"{p}_mid = static_library('{p}_mid', '{p}_mid.c', dependencies: {p}_d3)")
            L(f"{p}_d4 = declare_dependency(link_with: {p}_mid, dependencies: {p}_d3)")
            F(f'{p}_main.c', _main_c(hs, [f'{p}_l1', f'{p}_x', f'{p}_other', f'{p}_mid'],
                                     f'{val} + {p}_l1() + {p}_x() + {p}_other() + {p}_mid()'))
            L(f"{p}_exe = executable('{p}_exe', '{p}_main.c', '{p}_other.c', dependencies: {p}_d4)")
        else:           # a shared library built with it; the executable only takes sources + includes of it
            F(f'{p}_mid.c', _fn_c(f'{p}_mid', hs, calls=[f'{p}_l1', f'{p}_x'], expr=val))
            L(f"{p}_mid = shared_library('{p}_mid', '{p}_mid.c', dependencies: {p}_d3)")
            F(f'{p}_main.c', _main_c(hs, [f'{p}_h3s_fn', f'{p}_other', f'{p}_mid'],
                                     f'{val} + {p}_h3s_fn() + {p}_other() + {p}_mid()'))
            L(f"{p}_exe = executable('{p}_exe', '{p}_main.c', '{p}_other.c', link_with: {p}_mid, "
              f"dependencies: {p}_d3.partial_dependency(sources: true, includes: true))")
    else:
        raise ValueError('unknown block kind ' + kind)


def write(p: T.Dict[str, T.Any], srcdir: T.Union[str, os.PathLike]) -> None:
    root = Path(srcdir)
    w = _W()
    w.line('', "project('c05', 'c', version: '1.0', meson_version: '>=1.3.0')")
    w.line('', "gen = find_program('gen.sh')")
    w.line('', "ccprog = find_program('cc')")
    w.line('', "arprog = find_program('ar')")
    w.line('', "catprog = find_program('cat')")
    w.line('', "shprog = find_program('sh')")
    w.file('', 'gen.sh', GEN_SH, 0o755)
    # subproject() calls must precede their use; subdir order = block order
    for b in p['blocks']:
        _block(w, b)
    # a `subproject()` line appended by a block must come before the block's own lines: blocks add it to
    # the root list before their target lines, which is enough because targets come after in the same list
    for d, lines in w.lines.items():
        path = root / d / 'meson.build'
        path.parent.mkdir(parents=True, exist_ok=True)
        path.write_text('\n'.join(lines) + '\n', encoding='utf-8')
    for rel, text in w.files.items():
        path = root / rel
        path.parent.mkdir(parents=True, exist_ok=True)
        path.write_text(text, encoding='utf-8')
        if rel in w.modes:
            path.chmod(w.modes[rel])


def setup_args(p: T.Dict[str, T.Any]) -> T.List[str]:
    o = p['opts']
    unity = o['unity']
    extra = []
    if any(b['kind'] == 'unity' and b.get('v', 0) == 2 for b in p['blocks']):
        unity = 'subprojects'
        extra = ['-Dunity_size=2']
    return [f"-Ddefault_library={o['default_library']}", f"-Dunity={unity}", f"-Dbuildtype={o['buildtype']}"] + extra


def tests_in_scope(p: T.Dict[str, T.Any]) -> bool:
    """Whether the statements behind `ninja test` / `ninja benchmark` belong to the graph of this project."""
    return p.get('family') != 'overlay' and any(b['kind'] == 'tprog' for b in p['blocks'])


def block_of(path: str) -> str:
    """Block kind owning a build path (from the b<N><kind> prefix of its basename or directories)."""
    import re
    m = re.search(r'b\d+(' + '|'.join(KINDS) + r')', path)
    return m.group(1) if m else '-'


def role_of(path: str) -> str:
    """For the block kinds whose statements differ only by the ROUTE through which they need something (prog, tprog):
    the route named in the output's basename (b1prog_gdep.txt -> gdep), else ''."""
    import re
    m = re.search(r'b\d+t?prog_([a-z]+)', path.rsplit('/', 1)[-1])
    return m.group(1) if m else ''


def random_shape(rnd: random.Random, max_weight: int = 26, must: T.Optional[str] = None) -> T.Dict[str, T.Any]:
    opts = {'default_library': rnd.choice(['shared', 'shared', 'static', 'both']),
            'unity': rnd.choice(['off', 'off', 'off', 'on']),
            'buildtype': rnd.choice(['debug', 'debug', 'release'])}
    blocks: T.List[T.Dict[str, T.Any]] = []
    weight = 0
    kinds = list(KINDS)
    first = must or rnd.choice(kinds)
    order = [first] + rnd.sample(kinds, len(kinds))
    for k in order:
        if weight + WEIGHT[k] > max_weight and blocks:
            continue
        if len(blocks) >= 3:
            break
        blocks.append({'kind': k, 'n': len(blocks) + 1, 'sub': k not in ('subproj', 'unity') and rnd.random() < 0.4,
                       'v': rnd.randrange(VARIANTS[k])})
        weight += WEIGHT[k]
        if rnd.random() < 0.35:
            break
    return {'family': 'shape', 'opts': opts, 'blocks': blocks}


def describe(p: T.Dict[str, T.Any]) -> str:
    if p.get('family') == 'overlay':
        return 'overlay:' + ','.join(t['kind'] for t in p['p']['targets'])
    o = p['opts']
    return f"{o['default_library']}/{o['unity']}/{o['buildtype']}:" + '+'.join(
        f"{b['kind']}{b.get('v', 0)}{'@sub' if b.get('sub') else ''}" for b in p['blocks'])


# ---------------------------------------------------------------------------
# overlay on projgen.random_project


def overlay_random(rnd: random.Random, n_targets: int) -> T.Dict[str, T.Any]:
    p = projgen.random_project(rnd, n_targets=n_targets, installs=False, options=False, layout='mirror')
    return {'family': 'overlay', 'p': p}


def write_overlay(po: T.Dict[str, T.Any], srcdir: T.Union[str, os.PathLike]) -> None:
    """projgen writes the project; then (1) gen.sh is replaced by one that reads the files named in
    <input>.reads (the outputs of the custom target's `depends:`), (2) the first C source of every build
    target that lists custom targets with a header output in the same directory includes those headers."""
    p = po['p']
    projgen.write_project(p, srcdir)
    root = Path(srcdir)
    ts = p['targets']
    sps = sorted({t['sp'] for t in ts if t['sp']})
    for sp in [''] + sps:
        d = root / projgen.sp_dir(sp) if sp else root
        (d / 'gen.sh').write_text(OVERLAY_GEN_SH)
        (d / 'gen.sh').chmod(0o755)
    for i, t in enumerate(ts, 1):
        loc = projgen.location(t)
        if t['kind'] in projgen.BUILD_KINDS and t['srcs']:
            hdrs = []
            for r in t['gen']:
                ct = ts[r - 1]
                if projgen.location(ct) == loc:
                    hdrs += [o for o in ct['outs'] if o.endswith('.h')]
            if hdrs:
                f = root / loc / t['srcs'][0]
                f.write_text(''.join(f'#include "{h}"\n' for h in hdrs) + f.read_text())
        if t['kind'] == 'custom' and t['deps']:
            reads = []
            for r in t['deps']:
                dt = ts[r - 1]
                dloc = projgen.location(dt)
                if dt['kind'] == 'custom':
                    reads += [f'{dloc}/{o}' if dloc else o for o in dt['outs']]
                elif dt['kind'] == 'exe':
                    reads.append(f"{dloc}/{dt['name']}" if dloc else dt['name'])
                elif dt['kind'] == 'static':
                    reads.append(f"{dloc}/lib{dt['name']}.a" if dloc else f"lib{dt['name']}.a")
                elif dt['kind'] == 'shared':
                    reads.append(f"{dloc}/lib{dt['name']}.so" if dloc else f"lib{dt['name']}.so")
            (root / loc / f't{i}.in.reads').write_text(''.join(r + '\n' for r in reads))


OVERLAY_GEN_SH = r"""#!/bin/sh
# usage: gen.sh INPUT OUTPUT...  - like projgen's, but reads every file listed in INPUT.reads (build-dir relative)
in="$1"; shift
acc=""
if [ -f "$in.reads" ]; then
  while IFS= read -r f; do
    s=$(cksum < "$f") || exit 3
    acc="$acc ${s%% *}"
  done < "$in.reads"
fi
n=0
for o in "$@"; do
  case "$o" in
    *.c) printf '/*%s */\nint gen_%s_%d(void) { return 0; }\n' "$acc" "$(basename "$in" .in)" "$n" > "$o";;
    *.h) printf '/* generated from %s%s */\n' "$in" "$acc" > "$o";;
    *) { echo "$acc"; cat "$in"; } > "$o";;
  esac
  n=$((n+1))
done
"""
