"""C05 - The build graph is dependency-complete: any valid schedule builds the same thing.

1. TLC model-checks ``specs/ninja/BuildSched_MC``: on every graph of three statements (every declared
   input set, every observed read / probe set) scheduled in every order, the behavioural laws (state
   invariants over all schedules: Hermetic, StableProbes, Confluent) coincide with the declarative ones
   (everything a statement needs is produced by a declared ancestor), reached states are downsets and the
   ancestors-only state is the worst case; hand-written graphs shaped like meson output with a deliberately
   missing edge must make TLC report the named invariant (vacuity guard), their repaired twins must pass.
2. (B) generated projects (``c05_projects``: generated headers, generators, custom-target chains, built
   tools, link_with / link_whole / extract_objects, declare_dependency(sources:) also nested three / four levels,
   depends: / depend_files: / depfile:, link_depends, subdirs, subprojects, programs that find_program() maps to built
   executables behind every depends:-like and program-like route of generator / custom_target / run_target / test /
   benchmark - for the last two `ninja test` / `ninja benchmark` are statements of the graph; plus ``projgen`` random projects whose generated headers are really
   included) are configured by the real ``meson setup``; build.ninja is read by ``ninja_ref`` and executed
   by the reference executor ``c05_exec`` once with every statement under strace (reads / failed probes /
   writes), then from scratch under three adversarial schedules (deepest-last, reverse declaration order,
   seeded random with 8 workers), then statement by statement in a build directory holding only the
   outputs of the statement's declared ancestors.
3. TLC judges: ``TraceBuildSched`` gives the verdicts per project (declarative laws on the observed reads and
   writes; every real run must be a behaviour of the scheduling rule, exit 0 and reproduce the digests);
   ``TraceBuildSchedAll`` starts the Run(e) state machine on every recorded graph and checks Hermetic /
   StableProbes / NoUndeclaredWrite / Confluent as invariants over EVERY schedule.
"""
from __future__ import annotations

import json
import os
import random
import re
import shutil
import sys
import threading
import time
import typing as T
from concurrent.futures import ProcessPoolExecutor, ThreadPoolExecutor
from pathlib import Path

from . import c05_exec as X
from . import c05_projects as PJ
from . import common, projgen
from .common import Check, MachineryError, SPECS, run_tlc, scratch

PROP = 'C05'
FAM = SPECS / 'ninja'
MACHINERY_CLAUSES = ('ScheduleInvalid', 'ReplayInvalid')
STATIC_CLAUSES = ('Stuck', 'UniqueProducer', 'Hermetic', 'StableProbe', 'NoUndeclaredWrite')

# hand-written graphs of BuildSched_MC: number -> invariant TLC must report (None = must pass)
HAND = {1: 'InvHermetic', 2: None, 3: 'InvHermetic', 4: None, 5: 'InvHermetic', 6: None, 7: 'InvStableProbes',
        8: 'InvNoUndeclaredWrite', 9: 'InvHermetic', 10: None, 11: 'InvHermetic', 12: None}
HAND_NAMES = {1: 'compile without order-only dep on generated header', 2: 'same, with the dep',
              3: 'custom-target chain without depends', 4: 'same, with depends', 5: 'link without the static library as input',
              6: 'same, with the library', 7: 'optional generated file probed by an unordered step',
              8: 'step writes an undeclared file',
              9: 'generator step executes a built plugin named only in depends: (as an overridden find_program), no edge',
              10: 'same, with the implicit input', 11: 'the test step reads generated data missing from meson-test-prereq',
              12: 'same, with the data listed'}
MC_INVARIANTS = ('TypeOK', 'DeclImpliesBehavioural', 'BehaviouralImpliesDecl', 'CompleteIsConfluent', 'IncompleteShows',
                 'EndsInFixpoint', 'CompiledFormAgrees')


# ---------------------------------------------------------------------------
# model checking


def _mc_cfg(ne: int, probes: bool, hand: int, invariants: T.Sequence[str], src: bool = True) -> str:
    b = {True: 'TRUE', False: 'FALSE'}
    return ('SPECIFICATION Spec\nCONSTANTS NE = %d\n WithProbes = %s\n WithSrc = %s\n Hand = %d\n' % (ne, b[probes], b[src], hand)
            + ''.join(f'INVARIANT {i}\n' for i in invariants) + 'CHECK_DEADLOCK FALSE\n')


def model_check(chk: Check, quick: bool, out: T.Dict[str, T.Any]) -> None:
    """Runs in a thread next to the project executions."""
    laws = ('InvHermetic', 'InvStableProbes', 'InvNoUndeclaredWrite', 'InvConfluent')
    hand: T.Dict[int, T.Any] = {}

    def one_hand(k: int) -> None:
        if k == 0:
            # Confluent alone must bite as well (graph 1: the compile that ran before the header sees a different view)
            r = run_tlc(FAM, 'BuildSched_MC', cfg_text=_mc_cfg(3, False, 1, ('InvConfluent',)), timeout=600, workers=1)
            if r.invariant_violated != 'InvConfluent':
                raise MachineryError('vacuity guard: InvConfluent did not fail on the graph with the missing header dependency')
            hand[0] = r
            return
        want = HAND[k]
        r = run_tlc(FAM, 'BuildSched_MC', cfg_text=_mc_cfg(3, False, k, laws + ('TypeOK', 'DeclImpliesBehavioural',
                                                                                    'BehaviouralImpliesDecl')),
                    timeout=600, workers=1, coverage=(k == 2))
        if r.deadlock or (want is None and not r.clean) or (want is not None and r.invariant_violated != want):
            raise MachineryError(f'vacuity guard: hand-written graph {k} ({HAND_NAMES[k]}) expected '
                                 f'{want or "no violation"}, TLC says {r.invariant_violated or "clean"}\n' + r.stdout[-1500:])
        hand[k] = r

    # the hand-written graphs are small single-worker runs: one after the other next to the exhaustive family
    with ThreadPoolExecutor(max_workers=1) as tp:
        futs = [tp.submit(one_hand, k) for k in list(HAND) + [0]]
        # every 3-statement graph with reads (32,768 graphs); thorough: also every 3-statement graph over generated
        # inputs only with reads and failed probes (46,656 graphs)
        out['family'] = run_tlc(FAM, 'BuildSched_MC', cfg_text=_mc_cfg(3, False, 0, MC_INVARIANTS), timeout=3000,
                                workers=8, allow_violation=False)
        if not quick:
            out['family_probes'] = run_tlc(FAM, 'BuildSched_MC', cfg_text=_mc_cfg(3, True, 0, MC_INVARIANTS, src=False),
                                           timeout=3000, workers=8, allow_violation=False)
        for f in futs:
            f.result()
    hand = {k: hand[k] for k in list(HAND) + [0]}
    out['hand'] = hand


# ---------------------------------------------------------------------------
# one project (worker process)


def count_states(g: X.Graph, cap: int) -> int:
    """Number of prefix-closed sets of statements (= states TLC will visit), capped.  Budget control only."""
    need = [0] * (g.n + 1)
    for k in range(1, g.n + 1):
        for j in g.preds[k]:
            need[k] |= 1 << j
    ok = [not g.dangling[k] for k in range(g.n + 1)]
    seen = {0}
    todo = [0]
    while todo:
        s = todo.pop()
        for k in range(1, g.n + 1):
            bit = 1 << k
            if not s & bit and ok[k] and need[k] & ~s == 0:
                t = s | bit
                if t not in seen:
                    seen.add(t)
                    if len(seen) > cap:
                        return cap + 1
                    todo.append(t)
    return len(seen)


def run_project(job: T.Dict[str, T.Any]) -> T.Dict[str, T.Any]:
    p = job['p']
    rnd = random.Random(job['seed'])
    info: T.Dict[str, T.Any] = {'p': p, 'shape': PJ.describe(p), 'steps': 0}
    case: T.Dict[str, T.Any] = {'id': job['id'], 'explore': False, 'info': info}
    with scratch('c05-') as d:
        src, build = d / 'src', d / 'b'
        if p.get('family') == 'overlay':
            PJ.write_overlay(p, src)
            r = projgen.setup(src, build, p['p'])
        else:
            PJ.write(p, src)
            r = projgen.setup(src, build, None, extra_args=PJ.setup_args(p))
        if not r.ok:
            info['skipped'] = 'meson setup failed: ' + r.error_text
            info['setup_failed'] = True
            return case
        g = X.Graph(build, src, keep=X.KEEP_TESTS if PJ.tests_in_scope(p) else ())
        if g.n == 0:
            info['skipped'] = 'no statement in scope'
            return case
        snap = X.Snapshot(build, d / 'pristine')
        (d / 'tr').mkdir()
        (d / 'tmp').mkdir()
        env = X.command_env(d / 'tmp')
        ob = X.observed_run(g, env, d / 'tr')
        info['steps'] += g.n
        if ob['depcheck']:
            raise MachineryError('strace record and depfile disagree: ' + '; '.join(ob['depcheck'][:3]))
        if ob['never'] or (ob['unrun'] and not ob['failed_once']):
            k = (ob['never'] or ob['unrun'])[0]
            info['skipped'] = (f'statement cannot be built here at all: {g.edge(k).rule} {g.edge(k).all_outs()} :: '
                               + ob['failed_once'].get(k, '(never ready)')[-400:])
            info['unbuildable'] = True
            return case
        known = set(g.producer)
        for e in g.edges:
            known.update(e.all_ins())
        needs, probes, writes = [], [], []
        for k in range(1, g.n + 1):
            o = ob['obs'][k]
            needs.append(sorted(q for q in o.reads if q in known))
            probes.append(sorted(q for q in o.probes if q in known))
            writes.append(sorted(o.writes))
        dig = g.digests()
        base = d / 'base'
        shutil.copytree(build, base, symlinks=True)
        runs = [{'name': 'declaration-order', 'ev': ob['events'], 'dig': dig}]
        fails: T.Dict[str, T.Any] = {}
        for k, text in ob['failed_once'].items():
            fails[f'declaration-order:{k}'] = text[-800:]
        for name, pick, jobs in X.policies(g, rnd):
            snap.restore()
            rr = X.run_schedule(g, env, pick, jobs)
            info['steps'] += sum(1 for ev in rr['ev'] if ev['k'] == 'start')
            runs.append({'name': name, 'ev': rr['ev'], 'dig': rr['dig']})
            for k, text in rr['failed'].items():
                fails[f'{name}:{k}'] = text[-800:]
        replays = []
        for k in range(1, g.n + 1):
            e = g.edge(k)
            if e.is_phony:
                continue
            snap.restore()
            anc = sorted(g.ancestors(k) - {k})
            for j in anc:
                for o in g.edge(j).all_outs():
                    X.place(base, build, o)
            res = X.run_step(g, k, env)
            info['steps'] += 1
            replays.append({'e': k, 'placed': anc, 'rc': res.rc, 'dig': g.digests(e.all_outs()) if res.rc == 0 else []})
            if res.rc != 0:
                fails[f'replay:{k}'] = res.out[-800:]
        states = count_states(g, job['cap'])
        case['explore'] = states <= job['cap']
        case['g'] = {'M': g.M, 'exists': g.exists, 'needs': needs, 'probes': probes, 'writes': writes, 'aux': g.aux}
        case['dig'] = dig
        case['runs'] = runs
        case['replays'] = replays
        produced = set(g.producer)
        cross = sum(1 for k in range(1, g.n + 1) for q in needs[k - 1] if q in produced and q not in g.edge(k).all_outs())
        info.update({'edges': g.n, 'states': states, 'cross_reads': cross, 'fails': fails,
                     'rules': [e.rule for e in g.edges], 'outs': [e.all_outs() for e in g.edges],
                     'commands': [e.command[:300] for e in g.edges]})
    return case


# ---------------------------------------------------------------------------
# judging


def _tlc_fields(c: T.Dict[str, T.Any]) -> T.Dict[str, T.Any]:
    return {k: c[k] for k in ('id', 'explore', 'g', 'dig', 'runs', 'replays')}


def judge(chk: Check, cases: T.List[T.Dict[str, T.Any]], label: str) -> T.List[T.Dict[str, T.Any]]:
    verdicts: T.List[T.Dict[str, T.Any]] = []
    for part_no, part in enumerate(common.chunks(cases, 60)):
        with scratch('c05j-') as d:
            tf = d / 'cases.json'
            tf.write_text(json.dumps([_tlc_fields(c) for c in part]))
            res = run_tlc(FAM, 'TraceBuildSched', env={'TRACE_FILE': str(tf)}, timeout=3000, workers=8)
            if not res.clean:
                raise MachineryError('TraceBuildSched did not complete cleanly:\n' + res.stdout[-2500:])
            if res.distinct != 2 * len(part):
                raise MachineryError(f'TraceBuildSched judged {res.distinct // 2} of {len(part)} cases')
            bad = res.json_lines()
            cand = [ln for ln in res.stdout.splitlines() if ln.strip().startswith('"')]
            if len(cand) != len(bad):
                res1 = run_tlc(FAM, 'TraceBuildSched', env={'TRACE_FILE': str(tf)}, timeout=3000, workers=1)
                bad = res1.json_lines()
            chk.add_tlc(f'TraceBuildSched[{label}#{part_no}]', res, model=False)
            verdicts.extend(bad)
    return verdicts


ALL_CFG = ('SPECIFICATION Spec\nINVARIANT InvHermetic\nINVARIANT InvStableProbes\nINVARIANT InvNoUndeclaredWrite\n'
           'INVARIANT InvConfluent\nCHECK_DEADLOCK FALSE\n')


def parse_counterexample(stdout: str) -> T.Dict[str, T.Any]:
    """Case index and schedule prefix of a TLC invariant counterexample of TraceBuildSchedAll."""
    idx = [int(m) for m in re.findall(r'/\\ i = (\d+)', stdout)]
    sets = []
    for m in re.finditer(r'/\\ built = \{([^}]*)\}', stdout):
        sets.append({int(x) for x in m.group(1).split(',') if x.strip()})
    order: T.List[int] = []
    prev: T.Set[int] = set()
    for s in sets:
        order.extend(sorted(s - prev))
        prev = s
    return {'case_index': idx[-1] if idx else 0, 'schedule_prefix': order}


def explore_all(chk: Check, cases: T.List[T.Dict[str, T.Any]], label: str) -> T.Tuple[T.Optional[str], T.Dict[str, T.Any], T.Any]:
    """Every schedule of every case (explore = TRUE) with the laws as invariants.  Returns (violated invariant
    or None, counterexample, TLCResult)."""
    with scratch('c05a-') as d:
        tf = d / 'cases.json'
        tf.write_text(json.dumps([_tlc_fields(c) for c in cases]))
        res = run_tlc(FAM, 'TraceBuildSchedAll', cfg_text=ALL_CFG, env={'TRACE_FILE': str(tf)}, timeout=6000, workers=8)
    if res.deadlock or not res.finished:
        raise MachineryError('TraceBuildSchedAll did not finish:\n' + res.stdout[-2000:])
    chk.add_tlc(f'TraceBuildSchedAll[{label}]', res, model=True)
    if res.invariant_violated:
        return res.invariant_violated, parse_counterexample(res.stdout), res
    if not res.clean:
        raise MachineryError('TraceBuildSchedAll reported a problem:\n' + res.stdout[-2000:])
    return None, {}, res


def ext_class(path: str) -> str:
    base = path.rsplit('/', 1)[-1]
    if '.' not in base:
        return 'exe'
    ext = base.rsplit('.', 1)[-1]
    return '.' + ext if ext.isalnum() and len(ext) <= 8 else '.other'


def signature(c: T.Dict[str, T.Any], v: T.Dict[str, T.Any]) -> str:
    """clause : consumer rule <- producer rule/extension classes of the paths @ block kind (no generated names)."""
    info = c['info']
    fam = 'overlay' if info['p'].get('family') == 'overlay' else None
    prod = {}
    for k, outs in enumerate(info['outs']):
        for o in outs:
            prod[o] = info['rules'][k]
    classes = sorted({f"{prod.get(q, 'src')}{ext_class(q)}" for q in v['paths']})
    e = v['edge']
    if e:
        rule = info['rules'][e - 1]
        out0 = info['outs'][e - 1][0]
        where = fam or PJ.block_of(out0)
        if not fam and PJ.role_of(out0):
            where += ':' + PJ.role_of(out0)
        elif where == '-' and v['paths']:   # a project-wide statement (ninja test): the blocks / routes of what it lacks
            where = '+'.join(sorted({PJ.block_of(q) + (':' + PJ.role_of(q) if PJ.role_of(q) else '') for q in v['paths']}))
        return f"{v['clause']}:{rule}{ext_class(out0)}<-{','.join(classes) or 'other'}@{where}"
    where = fam or '+'.join(sorted({PJ.block_of(q) for q in v['paths']}))
    return f"{v['clause']}:{v['run'] or '-'}:{','.join(classes) or 'other'}@{where}"


def report(chk: Check, c: T.Dict[str, T.Any], v: T.Dict[str, T.Any], extra: T.Optional[T.Dict[str, T.Any]] = None) -> None:
    info = c['info']
    e = v['edge']
    det: T.Dict[str, T.Any] = {'verdict': v, 'project': info['p'], 'shape': info['shape']}
    if e:
        det['statement'] = {'rule': info['rules'][e - 1], 'outs': info['outs'][e - 1], 'command': info['commands'][e - 1],
                            'declared': c['g']['M']['edges'][e - 1], 'needs_observed': c['g']['needs'][e - 1]}
        key = f"{v['run'] if v['run'] != 'replay' else 'replay'}:{e}"
        if key in info['fails']:
            det['output'] = info['fails'][key]
    if extra:
        det.update(extra)
    chk.violation(signature(c, v), det)


def judge_and_report(chk: Check, cases: T.List[T.Dict[str, T.Any]], label: str, witness_budget: int = 6) -> None:
    by_id = {c['id']: c for c in cases}
    verdicts = judge(chk, cases, label)
    static_bad: T.Dict[str, T.List[T.Dict[str, T.Any]]] = {}
    for v in verdicts:
        c = by_id[v['id']]
        if v['clause'] in MACHINERY_CLAUSES:
            raise MachineryError(f"the reference executor broke the scheduling rule ({v['clause']}) on {c['info']['shape']}: {v}")
        if v['clause'] in STATIC_CLAUSES:
            static_bad.setdefault(v['id'], []).append(v)
    # every schedule of every graph the declarative verdicts found complete: the invariants must hold
    good = [c for c in cases if c['explore'] and c['id'] not in static_bad]
    for part_no, part in enumerate(common.chunks(good, 40)):
        inv, cex, _res = explore_all(chk, list(part), f'{label}#{part_no}')
        if inv:
            c = part[cex['case_index'] - 1] if 0 < cex['case_index'] <= len(part) else part[0]
            v = {'id': c['id'], 'clause': 'AllSchedules:' + inv, 'edge': 0, 'paths': [], 'run': 'tlc'}
            report(chk, c, v, {'counterexample': cex, 'note': 'found by exploring all schedules although the declarative '
                                                              'verdict was clean'})
    # the statement-number form explored above is the path form of BuildSched on the real graphs as well
    # (state by state, on the graphs small enough for the slow path-level evaluation)
    small = sorted((c for c in good if c['info']['states'] <= 800), key=lambda c: -c['info']['states'])[:10]
    if small:
        with scratch('c05f-') as d:
            tf = d / 'cases.json'
            tf.write_text(json.dumps([_tlc_fields(c) for c in small]))
            res = run_tlc(FAM, 'TraceBuildSchedAll', cfg_text=ALL_CFG + 'INVARIANT InvFormsAgree\n',
                          env={'TRACE_FILE': str(tf)}, timeout=3000, workers=4)
        if not res.clean:
            raise MachineryError('statement-number form and path form of BuildSched disagree on a real graph:\n'
                                 + res.stdout[-2500:])
        chk.add_tlc(f'TraceBuildSchedAll[{label}:forms-agree]', res, model=False)
    # graphs with a declarative verdict: TLC must find the schedule (the counterexample is the witness)
    witnesses: T.Dict[str, T.Dict[str, T.Any]] = {}
    todo = [cid for cid in static_bad if by_id[cid]['explore']
            and any(v['clause'] in ('Hermetic', 'StableProbe', 'NoUndeclaredWrite') for v in static_bad[cid])]
    sigs_seen: T.Set[str] = set()
    for cid in todo:
        c = by_id[cid]
        sigs = {signature(c, v) for v in static_bad[cid]}
        if sigs <= sigs_seen or len(witnesses) >= witness_budget:
            continue
        sigs_seen |= sigs
        inv, cex, _res = explore_all(chk, [c], f'{label}:witness:{cid}')
        if not inv:
            raise MachineryError(f'declarative verdict {static_bad[cid][0]} but no schedule violates an invariant '
                                 f'(the two formulations of the spec disagree) on {c["info"]["shape"]}')
        cex['invariant'] = inv
        cex['statements'] = [f"{k}:{c['info']['rules'][k - 1]}:{c['info']['outs'][k - 1][0]}" for k in cex['schedule_prefix']]
        witnesses[cid] = cex
    for v in verdicts:
        c = by_id[v['id']]
        report(chk, c, v, {'tlc_witness_schedule': witnesses[v['id']]} if v['id'] in witnesses else None)


# ---------------------------------------------------------------------------


# quick tier: every block kind once; (kind, variant) with variant None = seeded choice, a tuple = seeded choice among
QUICK_PLAN = [[('hdr', 3), ('chain', None)], [('dep', None), ('script', 0), ('conf', 0)], [('gen', 2), ('ctlib', 0), ('pair', 0)],
              [('tool', None), ('run', 0), ('pair', 3)], [('link', None)], [('subproj', None), ('hdr', 4), ('pair', 2)],
              [('unity', None), ('privhdr', 0)],
              # what steps execute: a program that find_program() maps to a built executable (own / subproject's), and a
              # built executable, script or custom-target index, each behind every depends:-like and program-like route
              [('prog', (1, 2))], [('prog', (3, 4))],
              # ninja test / ninja benchmark in scope: what tests execute and read (depends:, args:, the test program)
              [('tprog', (0, 1))],
              # declare_dependency() chains three / four levels deep (sources:, link_with:, objects:)
              [('dchain', None)]]


def make_jobs(chk: Check, quick: bool) -> T.List[T.Dict[str, T.Any]]:
    cap = 60000 if quick else 150000
    jobs: T.List[T.Dict[str, T.Any]] = []
    n_shape = int(os.environ.get('C05_SHAPES') or (len(QUICK_PLAN) if quick else 110))
    n_overlay = int(os.environ.get('C05_OVERLAYS') or (1 if quick else 40))
    for k in range(n_shape):
        rnd = random.Random(chk.seed * 7919 + k)
        if k < len(QUICK_PLAN):
            p = {'family': 'shape',
                 'opts': {'default_library': rnd.choice(['shared', 'static', 'both']), 'unity': rnd.choice(['off', 'off', 'on']),
                          'buildtype': rnd.choice(['debug', 'release'])},
                 'blocks': [{'kind': kind, 'n': j + 1, 'sub': kind not in ('subproj', 'unity') and rnd.random() < 0.4,
                             'v': (rnd.randrange(PJ.VARIANTS[kind]) if v is None else rnd.choice(v) if isinstance(v, tuple) else v)}
                            for j, (kind, v) in enumerate(QUICK_PLAN[k])]}
        else:
            p = PJ.random_shape(rnd, must=PJ.KINDS[k % len(PJ.KINDS)])
        jobs.append({'id': f'S{k}', 'p': p, 'seed': chk.seed * 104729 + k, 'cap': cap})
    for k in range(n_overlay):
        rnd = random.Random(chk.seed * 15485863 + k)
        p = PJ.overlay_random(rnd, rnd.randint(5, 9))
        jobs.append({'id': f'O{k}', 'p': p, 'seed': chk.seed * 104729 + 1000 + k, 'cap': cap})
    return jobs


def account(chk: Check, cases: T.List[T.Dict[str, T.Any]]) -> None:
    for c in cases:
        info = c['info']
        chk.evaluations += info.get('steps', 0)
        chk.traces += 1 + len(c['runs']) + len(c['replays'])
        if info['edges'] >= 8 and info['cross_reads'] >= 3:
            chk.nontriv(json.dumps(c['g']['M']['edges'], sort_keys=True))
    for c in cases[:: max(1, len(cases) // 3)][:3]:
        info = c['info']
        k = max(range(len(c['g']['needs'])), key=lambda j: len(c['g']['needs'][j]))
        chk.sample({'id': c['id'], 'shape': info['shape'], 'statements': info['edges'], 'schedules_states': info['states'],
                    'explored_all_schedules': c['explore'],
                    'real_runs': [{'name': r['name'], 'order': [ev['e'] for ev in r['ev'] if ev['k'] == 'start']} for r in c['runs']],
                    'example_statement': {'declared': c['g']['M']['edges'][k], 'reads_observed': c['g']['needs'][k],
                                          'writes_observed': c['g']['writes'][k]}}, limit=6)


def main(chk: Check) -> None:
    quick = chk.tier == 'quick'
    chk.rule = ('B: generated projects (1-3 feature blocks out of 17 kinds, or a projgen random project of 5-9 targets) configured '
                'by the real meson, every build statement executed under strace, 3 adversarial real schedules and one hermetic '
                'replay per statement; TLC judges each record and explores every schedule of every recorded graph. '
                'Non-trivial = a graph with >= 8 statements in which statements read >= 3 files generated by other statements '
                '(distinct by declared graph).')
    t0 = time.time()
    mc: T.Dict[str, T.Any] = {}
    err: T.List[BaseException] = []

    def mc_thread() -> None:
        try:
            model_check(chk, quick, mc)
        except BaseException as e:  # re-raised below
            err.append(e)

    th = threading.Thread(target=mc_thread)
    th.start()
    jobs = make_jobs(chk, quick)
    results: T.List[T.Dict[str, T.Any]] = []
    try:
        with ProcessPoolExecutor(max_workers=max(2, min(12, common.NCPU * 3 // 4))) as ex:
            for case in ex.map(run_project, jobs, chunksize=1):
                results.append(case)
    finally:
        th.join()
    if err:
        raise err[0]
    chk.add_tlc('BuildSched_MC[all graphs NE=3, reads]', mc['family'])
    if 'family_probes' in mc:
        chk.add_tlc('BuildSched_MC[all graphs NE=3 over generated inputs, reads + probes]', mc['family_probes'])
    for k, r in mc['hand'].items():
        chk.add_tlc(f'BuildSched_MC[hand-written graph {k}: ' + (HAND_NAMES.get(k, 'Confluent alone on graph 1')) + ']', r)
    chk.extra['vacuity_guard'] = {HAND_NAMES[k]: (HAND[k] or 'holds') for k in HAND}
    chk.extra['tlc_coverage_distinct_states_per_action'] = mc['hand'][2].coverage()
    cov_lines = [ln.strip().lstrip('|') for ln in mc['hand'][2].stdout.splitlines() if re.search(r'of module BuildSched\w*: \d', ln)]
    chk.extra['tlc_coverage_hand_graph_2'] = {
        'expressions_of_BuildSched_reported': len(cov_lines),
        'never_evaluated': [ln for ln in cov_lines if re.search(r': 0$', ln)][:40]}
    stage = {'model_check+execute': round(time.time() - t0, 1)}

    skipped = [c for c in results if 'g' not in c]
    cases = [c for c in results if 'g' in c]
    for c in skipped:
        if c['info'].get('setup_failed'):
            raise MachineryError(f"meson setup failed on a generated project ({c['info']['shape']}): {c['info']['skipped']}")
    chk.extra['projects'] = len(results)
    chk.extra['projects_skipped_unbuildable_here'] = [c['info']['skipped'][:200] for c in skipped]
    if len(skipped) * 3 > len(results):
        raise MachineryError('more than a third of the generated projects cannot be built in this environment: '
                             + skipped[0]['info']['skipped'])
    chk.extra['statements_total'] = sum(c['info']['edges'] for c in cases)
    chk.extra['graphs_explored_over_all_schedules'] = sum(1 for c in cases if c['explore'])
    chk.extra['graphs_too_large_for_exhaustive_schedules'] = sum(1 for c in cases if not c['explore'])
    account(chk, cases)
    judge_and_report(chk, cases, 'projects')
    stage['judge'] = round(time.time() - t0 - stage['model_check+execute'], 1)
    chk.extra['stage_wall_s'] = stage
    chk.exhaustive = False
    chk.assumptions += [
        'Needs/Writes are observational: what each command opened, stat-ed or executed (strace -f) in one successful run',
        'build.ninja is read by harness/ninja_ref.py and executed by harness/c05_exec.py (no ninja binary exists here); '
        'depfile / restat / pools do not influence a from-scratch build and are not modelled',
        'utility statements (install, dist, clean, reconfigure, build.ninja regeneration; test / benchmark except in '
        'projects with a tprog block, where they run `meson test --no-rebuild` and may write meson-logs/testlog.* / '
        'benchmarklog.*) are out of scope; phony statements without inputs count as always-present paths',
        'a custom-target index used as the command itself of a custom_target / run_target in the top-level build directory '
        'is written as a bare file name (not runnable under any schedule): only generated inside a subdirectory',
        'vs_module_defs: from a custom target is not generated: the GNU linker line does not read the file on this '
        'platform, so a lost edge is not observable through reads',
        'all runs of one project happen at the same absolute build path one after the other (build.ninja embeds absolute '
        'paths); only C with gcc, layout=mirror',
        'graphs with more prefix-closed statement sets than the tier cap are judged by the declarative form only '
        '(proved equivalent on all three-statement graphs)',
        'transient files (created and removed inside one step, e.g. ar/ld temporaries) are not writes',
        'GCC precompiled headers (.gch) are not byte-reproducible even for identical inputs: only their presence is compared',
    ]


def replay(chk: Check, data: T.Dict[str, T.Any]) -> None:
    det = data['detail']
    job = {'id': 'replay', 'p': det['project'], 'seed': data.get('seed', 0) * 104729, 'cap': 400000}
    c = run_project(job)
    if 'g' not in c:
        raise MachineryError('the recorded project cannot be built: ' + c['info'].get('skipped', ''))
    judge_and_report(chk, [c], 'replay', witness_budget=1)


if __name__ == '__main__':
    sys.exit(common.run_check(main, PROP, replay=replay))
