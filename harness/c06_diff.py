"""Diagnostics for C06: *where* do two versions of a generated file differ.

Used only to build specific violation signatures (file class + the classes of differences, project-specific
names and numbers erased) and the human-readable detail; whether a history violates the property is decided by
TLC (TraceConfigDeterminism) on digests and mtimes alone.
"""
from __future__ import annotations

import difflib
import json
import re
import typing as T


def _optclass(name: str) -> str:
    m = re.match(r'^(?:[\w.+-]+:)?([a-z]+)_', name)
    return (m.group(1) + '_*') if m else 'other'


def _memberclass(x: T.Dict[str, T.Any]) -> str:
    """Class of a named list member: subproject-qualified or not, plus its section/type when it has one."""
    name = str(x['name'])
    return ('SUB:' if ':' in name else '') + str(x.get('section', x.get('type', 'member')))


def erase_numbers(s: str) -> str:
    return re.sub(r'[0-9a-f]{7,}|\d{6,}', '#', s)


def _named(xs: T.List[T.Any]) -> bool:
    return bool(xs) and all(isinstance(x, dict) and 'name' in x for x in xs)


def json_diff(a: T.Any, b: T.Any, path: str, out: T.Set[str]) -> None:
    """All structural differences of two JSON values (list indices erased) are added to ``out``."""
    if len(out) > 12:
        return
    if type(a) is not type(b):
        out.add(f'{path}:type')
        return
    if isinstance(a, dict):
        if list(a) != list(b):
            if sorted(a) == sorted(b):
                out.add(f'{path}:key-order')
            else:
                out.add(f'{path}:keys')
        for k in a:
            if k in b:
                json_diff(a[k], b[k], f'{path}.{k}', out)
        return
    if isinstance(a, list):
        if a == b:
            return
        ca = sorted(json.dumps(x, sort_keys=True) for x in a)
        cb = sorted(json.dumps(x, sort_keys=True) for x in b)
        if ca == cb:
            moved = [x for x, y in zip(a, b) if x != y]
            if _named(moved):
                out.add(f"{path}:order[name~{','.join(sorted({_optclass(str(x['name'])) for x in moved}))}]")
            else:
                out.add(f'{path}:order')
            return
        if _named(a) and _named(b) and len({str(x['name']) for x in a}) == len(a) and len({str(x['name']) for x in b}) == len(b):
            na, nb = {str(x['name']): x for x in a}, {str(x['name']): x for x in b}
            cls = sorted({'-' + _memberclass(x) for n, x in na.items() if n not in nb}
                         | {'+' + _memberclass(x) for n, x in nb.items() if n not in na})
            if cls:
                out.add(f"{path}:members[{','.join(cls)}]")
            common_a = [n for n in na if n in nb]
            common_b = [n for n in nb if n in na]
            if common_a != common_b:
                moved_n = [x for x, y in zip(common_a, common_b) if x != y]
                out.add(f"{path}:order[name~{','.join(sorted({_optclass(n) for n in moved_n}))}]")
            for n in common_a:
                json_diff(na[n], nb[n], f'{path}[*]', out)
            return
        if len(a) != len(b):
            out.add(f'{path}:length')
            return
        for x, y in zip(a, b):
            json_diff(x, y, f'{path}[*]', out)
        return
    if a != b:
        if isinstance(a, str):
            for sep, nm in ((':', 'pathlist'), (' ', 'words'), (',', 'commas'), (';', 'semis')):
                if sep in a and sorted(a.split(sep)) == sorted(b.split(sep)):
                    out.add(f'{path}:order({nm})')
                    return
            ea, eb = erase_numbers(a), erase_numbers(b)
            if ea == eb:
                out.add(f'{path}:value({ea[:40]})')
                return
        out.add(f'{path}:value')


def _line_head(x: str) -> str:
    tok = x.split()
    head = tok[0] if tok else ''
    if head == 'build' and ':' in x:
        m = re.search(r'[^$]:\s*(\S+)', x)
        head = 'build:' + (m.group(1) if m else '')
    return erase_numbers(head)[:40]


def text_diff(a: str, b: str, out: T.Set[str]) -> None:
    la, lb = a.splitlines(), b.splitlines()
    if la == lb:
        out.add('line-endings')
        return
    if sorted(la) == sorted(lb):
        out.add('line-order')
        return
    sm = difflib.SequenceMatcher(None, la, lb, autojunk=False)
    for tag, i1, i2, j1, j2 in sm.get_opcodes():
        if tag == 'equal' or len(out) > 8:
            continue
        if tag == 'replace' and i2 - i1 == j2 - j1:
            for x, y in zip(la[i1:i2], lb[j1:j2]):
                if sorted(x.split()) == sorted(y.split()):
                    kind = 'token-order'
                elif erase_numbers(x) == erase_numbers(y):
                    kind = 'number'
                else:
                    kind = 'content'
                out.add(f'{kind}@{_line_head(x)}')
        elif sorted(la[i1:i2]) == sorted(lb[j1:j2]):
            out.add(f'line-order@{_line_head(la[i1])}')
        else:
            heads = sorted({_line_head(x) for x in la[i1:i2] + lb[j1:j2]})
            out.add(f"lines@{','.join(heads[:3])}")


def classes(name: str, a: bytes, b: bytes) -> T.List[str]:
    """Difference classes of two versions of file ``name``."""
    out: T.Set[str] = set()
    try:
        ta, tb = a.decode('utf-8'), b.decode('utf-8')
    except UnicodeDecodeError:
        return ['binary']
    if name.endswith('.json'):
        try:
            json_diff(json.loads(ta), json.loads(tb), '$', out)
            return sorted(out) or ['formatting']
        except ValueError:
            out.clear()
    text_diff(ta, tb, out)
    return sorted(out) or ['differs']


def udiff(a: bytes, b: bytes, la: str, lb: str, limit: int = 60) -> T.List[str]:
    x = a.decode('utf-8', 'replace').splitlines()
    y = b.decode('utf-8', 'replace').splitlines()
    return [ln[:400] for ln in difflib.unified_diff(x, y, la, lb, lineterm='', n=1)][:limit]
