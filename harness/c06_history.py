"""C06, history independence: the project, the tools ("world") and the option table of the history cases.

``ConfigHistory.tla`` is the rule book: a configurator with persistent caches (dependency lookups keyed by the
search-path options, compiler checks keyed by the arguments, ...) must, after *every* sequence of setup /
``meson configure -D`` / ``setup --reconfigure [-D]`` / ``--clearcache`` / ``--wipe`` commands that ends in option
state S, hold the generated text of ``meson setup`` with S on an empty directory.  ``ConfigHistory_MC`` exports the
history shapes over five abstract options (two search paths p1/p2, one compiler-argument option a1, two options
n1/n2 that reach the generated text without a cache) together with the option state after every command.

This module binds the abstract options to real ones, per case:

    p1, p2   pkg_config_path, cmake_prefix_path, build.pkg_config_path (cross build: host == build machine, but
             separate option sets and separate dependency caches)
    a1       c_args, c_link_args, c_std
    n1, n2   buildtype, optimization, default_library, prefer_static, wrap_mode, force_fallback_for, tooldir (a
             project option that is the search directory of find_program())
    World    level 1: ``histlate.pc`` appears in both pkg-config directories, ``histlatetool`` in both tool
             directories (a not-found result must not have been remembered)

The project makes every one of those visible in generated text: dependencies found through pkg-config in two private
directories that hold *different variants* of the same ``.pc`` files (version, cflags, variables), a CMake package
in two prefixes, a dependency that exists in one directory only (found <-> not found), a dependency with a
subproject fallback, compiler checks whose answers depend on c_args / c_link_args / c_std, find_program() results;
their versions and answers go into a configure_file() header, their flags into build.ninja and intro-*.json.

A *descriptor* ``{"kind": "hist", "seed": n, "bind": {"p1": opt, ...}, "shape": [...]}`` is JSON-able so that a
violation can be replayed.
"""
from __future__ import annotations

import random
import shutil
import typing as T
from pathlib import Path

Desc = T.Dict[str, T.Any]

# real option -> (abstract kinds it may stand for, value 0 (given explicitly at the first setup), value 1, group)
# options of one group influence each other's values (buildtype sets optimization/debug; wrap_mode overrides
# force_fallback_for): a case binds at most one option of a group, so that "the option state S" is the same thing
# after a history of single changes and on one command line (how several -D interact is C07's subject).
REAL: T.Dict[str, T.Tuple[str, str, str, str]] = {
    'pkg_config_path': ('p', '{W}/pcA', '{W}/pcB', 'pc'),
    'cmake_prefix_path': ('p', '{W}/cmA', '{W}/cmB', 'cm'),
    'build.pkg_config_path': ('p', '{W}/pcA', '{W}/pcB', 'bpc'),
    'c_args': ('a', '-DHIST_CARG=1', '-DHIST_CARG=2', 'cargs'),
    'c_link_args': ('a', '-Wl,--as-needed', '-Wl,--defsym=hist_sym=16', 'clink'),
    'c_std': ('a', 'none', 'gnu99', 'cstd'),
    'buildtype': ('n', 'debug', 'release', 'bt'),
    'optimization': ('n', '0', '2', 'bt'),
    'default_library': ('n', 'shared', 'static', 'dl'),
    'prefer_static': ('n', 'false', 'true', 'ps'),
    'wrap_mode': ('n', 'default', 'forcefallback', 'wrap'),
    'force_fallback_for': ('n', '', 'histfb', 'wrap'),
    'tooldir': ('n', '{W}/toolA', '{W}/toolB', 'tool'),
}
ABSTRACT = ('p1', 'p2', 'a1', 'n1', 'n2')
# options that are always given explicitly at the first setup (value 0) even when no abstract option is bound to
# them: the search paths the project needs, and c_args / c_link_args so that $CFLAGS / $LDFLAGS of the environment
# play no part (whether an explicit c_args stops $CFLAGS from reaching the link line is option resolution, not C06)
ALWAYS = ('pkg_config_path', 'c_args', 'c_link_args', 'tooldir')


def choose_binding(rnd: random.Random, first: T.Optional[T.Dict[str, str]] = None) -> T.Dict[str, str]:
    """abstract option -> real option; ``first`` pins some of them (the plan rotates through the table)."""
    bind: T.Dict[str, str] = dict(first or {})
    for a in ABSTRACT:
        if a in bind:
            continue
        groups = {REAL[r][3] for r in bind.values()}
        cands = [r for r, (k, _v0, _v1, g) in REAL.items() if k == a[0] and g not in groups and r not in bind.values()]
        if a == 'p1' and 'pkg_config_path' in cands and rnd.random() < 0.6:
            cands = ['pkg_config_path']
        bind[a] = rnd.choice(sorted(cands))
    return bind


def needs(desc: Desc) -> T.Tuple[bool, bool]:
    """-> (cross build, cmake dependency) wanted by the binding"""
    reals = set(desc['bind'].values())
    return 'build.pkg_config_path' in reals, 'cmake_prefix_path' in reals


def value(real: str, v: int, world: Path) -> str:
    return REAL[real][1 + v].replace('{W}', str(world))


def key_of(desc: Desc, val: T.Dict[str, int], world: int) -> str:
    """Configuration key of an option state of the model, spelled with the real option names."""
    on = sorted(desc['bind'][a] for a in ABSTRACT if val[a])
    if world:
        on.append('world')
    return '+'.join(on) if on else 'S0'


def setup_options(desc: Desc, val: T.Dict[str, int], world: Path) -> T.List[T.Tuple[str, str]]:
    """The -D options of `meson setup` for option state ``val`` (every bound / always-explicit option, by value)."""
    cross, cmake = needs(desc)
    out: T.Dict[str, str] = {}
    for r in ALWAYS:
        out[r] = value(r, 0, world)
    if cmake:
        out['cmake_prefix_path'] = value('cmake_prefix_path', 0, world)
    if cross:
        out['build.pkg_config_path'] = value('build.pkg_config_path', 0, world)
    for a in ABSTRACT:
        out[desc['bind'][a]] = value(desc['bind'][a], val[a], world)
    return sorted(out.items())


# ---------------------------------------------------------------------------
# the tools


PC = '''prefix=/opt/hist{w}
flavour=from{w}
Name: {n}
Description: {n} from {w}
Version: {v}
Cflags: -DHIST_{N}_FROM_{w} -I${{prefix}}/include
Libs: -L${{prefix}}/lib -l{n}{w}
Libs.private: -lm -lhistpriv{w}
'''


def write_world(world: Path, level: int) -> None:
    """(Re)create the tools directory at ``level`` (0: as first set up; 1: late files have appeared)."""
    shutil.rmtree(world, ignore_errors=True)
    for w, v in (('A', '1.0'), ('B', '2.0')):
        pc = world / f'pc{w}'
        pc.mkdir(parents=True)
        names = ['histdep', 'histfb', 'histnat', f'histonly{w.lower()}'] + (['histlate'] if level >= 1 else [])
        for n in names:
            (pc / f'{n}.pc').write_text(PC.format(w=w, v=v, n=n, N=n.upper()))
        cm = world / f'cm{w}' / 'lib' / 'cmake' / 'HistCM'
        cm.mkdir(parents=True)
        (cm / 'HistCMConfig.cmake').write_text(
            f'set(HistCM_FOUND TRUE)\nset(HistCM_VERSION {v})\nset(HistCM_INCLUDE_DIRS /opt/hist{w}/include)\n'
            f'set(HistCM_DEFINITIONS -DHISTCM_FROM_{w})\nset(HistCM_LIBRARIES "")\n')
        (cm / 'HistCMConfigVersion.cmake').write_text(f'set(PACKAGE_VERSION {v})\nset(PACKAGE_VERSION_COMPATIBLE TRUE)\n'
                                                       'set(PACKAGE_VERSION_EXACT FALSE)\n')
        tool = world / f'tool{w}'
        tool.mkdir()
        for n in ['histtool'] + (['histlatetool'] if level >= 1 else []):
            (tool / n).write_text(f'#!/bin/sh\necho {n} {v}\n')
            (tool / n).chmod(0o755)
    (world / 'cross.ini').write_text(
        "[binaries]\nc = 'cc'\nar = 'ar'\nstrip = 'strip'\npkg-config = 'pkg-config'\ncmake = 'cmake'\n\n"
        "[host_machine]\nsystem = 'linux'\ncpu_family = 'x86_64'\ncpu = 'x86_64'\nendian = 'little'\n\n"
        "[properties]\nneeds_exe_wrapper = false\n")


# ---------------------------------------------------------------------------
# the project


def materialize(desc: Desc, srcdir: Path, world: Path) -> T.Dict[str, T.Any]:
    srcdir = Path(srcdir)
    if srcdir.exists():
        shutil.rmtree(srcdir)
    (srcdir / 'subprojects' / 'histsub').mkdir(parents=True)
    cross, cmake = needs(desc)
    L = ["project('hist', 'c', version: '1.0', meson_version: '>= 1.1')",
         "cc = meson.get_compiler('c')",
         "cd = configuration_data()",
         "deps = []",
         "# pkg-config: same name, two variants, chosen by pkg_config_path",
         "d_dep = dependency('histdep')",
         "cd.set_quoted('HISTDEP_VERSION', d_dep.version())",
         "cd.set_quoted('HISTDEP_FLAVOUR', d_dep.get_variable(pkgconfig: 'flavour'))",
         "d_dep2 = dependency('histdep', version: '>= 0.5', required: false)",
         "cd.set_quoted('HISTDEP2_VERSION', d_dep2.found() ? d_dep2.version() : 'none')",
         "d_static = dependency('histdep', static: true)",
         "# found in one of the two directories only",
         "d_onlya = dependency('histonlya', required: false)",
         "cd.set10('HAVE_HISTONLYA', d_onlya.found())",
         "d_onlyb = dependency('histonlyb', required: false)",
         "cd.set10('HAVE_HISTONLYB', d_onlyb.found())",
         "# appears later",
         "d_late = dependency('histlate', required: false)",
         "cd.set_quoted('HISTLATE_VERSION', d_late.found() ? d_late.version() : 'none')",
         "# pkg-config or subproject (wrap_mode, force_fallback_for)",
         "d_fb = dependency('histfb', fallback: ['histsub', 'histsub_dep'])",
         "cd.set_quoted('HISTFB_VERSION', d_fb.version())",
         "d_subonly = dependency('histsubonly', fallback: ['histsub', 'histsub_dep'], required: false)",
         "cd.set_quoted('HISTSUBONLY_VERSION', d_subonly.found() ? d_subonly.version() : 'none')",
         "deps += [d_dep, d_onlya, d_onlyb, d_late]",
         "# (an internal dependency is named 'dep<uuid4>' in intro-targets.json - a known finding - so the subproject's",
         "# variant is observed through the header, the subproject's own outputs and the absence of the pkg-config flags)",
         "if d_fb.type_name() != 'internal'",
         "  deps += [d_fb]",
         "endif"]
    if cross:
        L += ["# build machine lookups (build.pkg_config_path)",
              "d_nat = dependency('histnat', native: true)",
              "cd.set_quoted('HISTNAT_VERSION', d_nat.version())",
              "d_natdep = dependency('histdep', native: true)",
              "cd.set_quoted('HISTDEP_NATIVE_VERSION', d_natdep.version())",
              "executable('histnative', 'prog.c', dependencies: [d_nat, d_natdep], native: true)"]
    if cmake:
        L += ["# CMake package, chosen by cmake_prefix_path",
              "d_cm = dependency('HistCM', method: 'cmake', required: false)",
              "cd.set_quoted('HISTCM_VERSION', d_cm.found() ? d_cm.version() : 'none')",
              "deps += [d_cm]"]
    L += ["# compiler checks whose answers depend on c_args / c_link_args / c_std",
          "cd.set('HIST_CARG', cc.get_define('HIST_CARG'))",
          "cd.set10('HIST_CARG_IS_2', cc.compiles('#if HIST_CARG != 2\\n#error no\\n#endif\\nint x;', name: 'carg is 2'))",
          "cd.set10('HIST_DEFSYM', cc.links('extern char hist_sym; int main(void) { return (int)(long)&hist_sym; }', name: 'defsym'))",
          "cd.set('HIST_STDC_VERSION', cc.get_define('__STDC_VERSION__'))",
          "cd.set('HIST_STRICT_ANSI', cc.get_define('__STRICT_ANSI__'))",
          "cd.set('HIST_SIZEOF', cc.sizeof('HIST_T', prefix: '#if HIST_CARG == 2\\n#define HIST_T int\\n#else\\n#define HIST_T char\\n#endif'))",
          "cd.set10('HIST_HAS_HEADER', cc.has_header('stdio.h'))",
          "cd.set10('HIST_HAS_SYMBOL', cc.has_header_symbol('stdio.h', 'HIST_CARG'))",
          "cd.set10('HIST_HAS_FUNCTION', cc.has_function('printf'))",
          "# programs found in a directory named by a project option",
          "t_tool = find_program('histtool', dirs: [get_option('tooldir')], required: false)",
          "cd.set_quoted('HISTTOOL_VERSION', t_tool.found() ? t_tool.version() : 'none')",
          "cd.set_quoted('HISTTOOL_PATH', t_tool.found() ? t_tool.full_path() : 'none')",
          "t_late = find_program('histlatetool', dirs: [get_option('tooldir')], required: false)",
          "cd.set_quoted('HISTLATETOOL_VERSION', t_late.found() ? t_late.version() : 'none')",
          "cd.set_quoted('HIST_BUILDTYPE', get_option('buildtype'))",
          "configure_file(output: 'hist_config.h', configuration: cd)",
          "histlib = library('histlib', 'lib.c', dependencies: deps, install: true)",
          "histstatic = static_library('histstatic', 'lib.c', dependencies: [d_static])",
          "executable('histprog', 'prog.c', link_with: [histlib, histstatic], dependencies: [d_dep, d_static], install: true)",
          "if t_tool.found()",
          "  custom_target('histgen', output: 'histgen.txt', command: [t_tool], capture: true, build_by_default: true)",
          "endif",
          "import('pkgconfig').generate(histlib, name: 'histlib', description: 'hist', requires: [d_dep])"]
    (srcdir / 'meson.build').write_text('\n'.join(L) + '\n')
    (srcdir / 'meson.options').write_text("option('tooldir', type: 'string', value: '')\n")
    (srcdir / 'lib.c').write_text('int hist_lib(void) { return 0; }\n')
    (srcdir / 'prog.c').write_text('int main(void) { return 0; }\n')
    (srcdir / 'subprojects' / 'histsub' / 'meson.build').write_text(
        "project('histsub', version: '9.0', default_options: ['werror=false'])\n"
        "configure_file(output: 'histsub_conf.h', configuration: {'HISTSUB': 1})\n"
        "histsub_dep = declare_dependency(compile_args: ['-DHIST_FROM_SUB'], version: '9.0')\n")
    write_world(world, 0)
    args = [f'--cross-file={world}/cross.ini'] if cross else []
    return {'kept': {'hist_config.h': 'configuration'}, 'toggle': [], 'args': args, 'kept_from_log': False,
            'label': 'hist:%s:%d' % ('+'.join(desc['bind'][a] for a in ABSTRACT), desc['seed'])}


# ---------------------------------------------------------------------------
# abstract history -> driver lives


def render_lives(desc: Desc, world: Path) -> T.List[T.List[T.Dict[str, T.Any]]]:
    """The lives of a history case: the chain (first setup at S0, then the commands of the shape) and, for every other
    option state that a full regeneration of the chain reaches, its witness: one `meson setup` with that state on an
    empty directory.  Keys and option states come from the model's rendering of the shape (``val`` / ``world`` after
    every command); this function only spells them with real options."""
    s0 = {a: 0 for a in ABSTRACT}
    chain: T.List[T.Dict[str, T.Any]] = [{'act': 'Setup', 'key': 'S0', 'opts': setup_options(desc, s0, world), 'world': 0}]
    witnesses: T.Dict[str, T.Dict[str, T.Any]] = {}
    level = 0
    for c in desc['shape']:
        key = key_of(desc, c['val'], c['world'])
        kind, o = c['c'], c['o']
        if kind == 'World':
            level = 1
            continue                       # applied before the next command (``world`` of the step)
        step: T.Dict[str, T.Any] = {'key': key, 'world': level}
        if kind in ('Reconfigure', 'Configure'):
            step['act'] = kind
            step['opts'] = [] if o == '-' else [(desc['bind'][o], value(desc['bind'][o], c['val'][o], world))]
        elif kind == 'ClearCache':
            step.update(act='Reconfigure', opts=[], clearcache=True)
        elif kind == 'Wipe':
            step.update(act='Wipe', opts=[])
        else:
            raise ValueError(kind)
        chain.append(step)
        if c['full'] and key != 'S0' and key not in witnesses:
            witnesses[key] = {'act': 'Setup', 'key': key, 'opts': setup_options(desc, c['val'], world), 'world': c['world']}
    return [chain] + [[w] for w in witnesses.values()]
