"""Projects for the C06 determinism check.

A project is described by a small JSON-able *descriptor* so that a violation can be replayed:

    {"kind": "gen", "lang": "c" | "", "seed": int, "n_targets": int}      generated: projgen.random_project
                                                                            + the C06 extras below
    {"kind": "corpus", "name": "<directory under test cases/common>"}      copied from the tree under test

``materialize(desc, srcdir) -> meta`` writes the source tree and returns what the driver needs:

    meta["kept"]    {build-relative path: mode}   configure_file outputs meson itself writes
                                                  (mode: configuration | template | json | capture | copy)
    meta["toggle"]  candidates [(option, value_B), ...] for the second configuration key
    meta["args"]    extra `meson setup` arguments (the options of key A)

The extras are what makes set/dict iteration order visible in generated text: configuration data with many
keys, pkg-config generation, dependency objects, tests with environments and depends across several
library directories, targets that need the exe-wrapper pickle, several wrap files and subprojects.
"""
from __future__ import annotations

import random
import re
import shutil
import typing as T
from pathlib import Path

from . import common, projgen

Desc = T.Dict[str, T.Any]

SUBS = ('c06a', 'c06b', 'c06c')

# corpus projects of "test cases/common" that exercise configure-time writers (tried first in the quick tier)
CURATED = ['14 configure file', '44 pkgconfig-gen', '269 configure file output format', '98 subproject subdir',
           '47 same file name', '182 find override', '125 configure file in generator', '253 subproject dependency variables',
           '42 subproject', '6 linkshared', '13 pch', '33 run program', '26 find program']


def corpus_root() -> Path:
    return common.REPO / 'test cases' / 'common'


def corpus_names() -> T.List[str]:
    return sorted(p.name for p in corpus_root().iterdir() if (p / 'meson.build').is_file())


# ---------------------------------------------------------------------------
# generated projects


def _subproject(root: Path, name: str, lang: str) -> None:
    d = root / 'subprojects' / name
    d.mkdir(parents=True, exist_ok=True)
    langs = ", 'c'" if lang else ''
    lines = [f"project('{name}'{langs}, version: '0.{len(name)}', license: 'MIT')",
             f"{name}_cd = configuration_data({{'NAME': '{name}', 'ORDER': 3, 'ALPHA': true}})",
             f"configure_file(output: '{name}_conf.h', configuration: {name}_cd)"]
    if lang:
        (d / f'{name}.c').write_text(f'int {name}_fn(void) {{ return 0; }}\n')
        lines += [f"{name}_lib = library('{name}', '{name}.c', install: true)",
                  f"{name}_dep = declare_dependency(link_with: {name}_lib, include_directories: include_directories('.'), "
                  f"compile_args: ['-D{name.upper()}=1'], variables: {{'zz': '1', 'aa': '2'}})"]
    else:
        lines += [f"{name}_dep = declare_dependency(variables: {{'zz': '1', 'aa': '2'}})"]
    lines += [f"meson.override_dependency('{name}-dep', {name}_dep)"]
    (d / 'meson.build').write_text('\n'.join(lines) + '\n')
    (root / 'subprojects' / f'{name}.wrap').write_text(
        f'[wrap-file]\ndirectory = {name}\n\n[provide]\n{name}-dep = {name}_dep\n{name}-alias = {name}_dep\n')


def _extras(p: T.Dict[str, T.Any], root: Path, rnd: random.Random) -> T.Dict[str, str]:
    """Append the C06 extras to the root meson.build; returns the kept-file table."""
    lang = p['lang']
    kept: T.Dict[str, str] = {}
    L: T.List[str] = ['', '# ---- C06 extras']
    keys = ['ZETA', 'alpha', 'Mid', 'HAVE_X', 'HAVE_A', 'B_THING', 'omega', 'K9', 'K10', 'K2', 'with space'.replace(' ', '_')]
    rnd.shuffle(keys)
    L.append('c06_cd = configuration_data()')
    for i, k in enumerate(keys):
        how = i % 4
        if how == 0:
            L.append(f"c06_cd.set('{k}', {i}, description: 'key {k}')")
        elif how == 1:
            L.append(f"c06_cd.set_quoted('{k}', 'v {i}')")
        elif how == 2:
            L.append(f"c06_cd.set10('{k}', {'true' if i % 3 else 'false'})")
        else:
            L.append(f"c06_cd.set('{k}', '{k.lower()}')")
    (root / 'c06_tmpl.h.in').write_text(''.join(f'#mesondefine {k}\n' for k in sorted(keys)[:5])
                                         + ''.join(f'/* @{k}@ */\n' for k in sorted(keys)[5:]))
    L += ["configure_file(output: 'c06_config.h', configuration: c06_cd)",
          "configure_file(input: 'c06_tmpl.h.in', output: 'c06_tmpl.h', configuration: c06_cd)",
          "configure_file(output: 'c06_conf.json', configuration: c06_cd, output_format: 'json')",
          "configure_file(output: 'c06_dict.h', configuration: {'ZED': 1, 'ABLE': 'two', 'Mid': true})",
          "c06_cat = find_program('cat')",
          "configure_file(input: 'c06_tmpl.h.in', output: 'c06_cap.txt', command: [c06_cat, '@INPUT@'], capture: true)",
          "configure_file(input: 'c06_tmpl.h.in', output: 'c06_cmd.txt', command: [cp_prog, '@INPUT@', '@OUTPUT@'])"]
    kept.update({'c06_config.h': 'configuration', 'c06_tmpl.h': 'template', 'c06_conf.json': 'json',
                 'c06_dict.h': 'configuration', 'c06_cap.txt': 'capture'})
    # large configure-time outputs (well above any I/O block size: a writer that compares old and new content
    # block-wise must get the later blocks right too): ~200 KB template, a header of 3000 keys, a large copy, a
    # large captured output
    big = ''.join(f'/* line {i:05d} @{keys[i % len(keys)]}@ ' + 'x' * 40 + ' */\n' for i in range(2600))
    big += ''.join(f'#mesondefine {k}\n' for k in sorted(keys))
    (root / 'c06_big.h.in').write_text(big)
    (root / 'c06_bigcopy.txt.in').write_text(''.join(f'{i:07d} ' + 'payload ' * 10 + '\n' for i in range(2400)))
    L += ["c06_bigcd = configuration_data()",
          "foreach c06_i : range(3000)",
          "  c06_bigcd.set('C06_KEY_@0@'.format(c06_i), c06_i, description: 'generated key number @0@'.format(c06_i))",
          "endforeach",
          "configure_file(output: 'c06_bigkeys.h', configuration: c06_bigcd)",
          "configure_file(input: 'c06_big.h.in', output: 'c06_big.h', configuration: c06_cd)",
          "configure_file(input: 'c06_bigcopy.txt.in', output: 'c06_bigcopy.txt', copy: true)",
          "configure_file(input: 'c06_big.h.in', output: 'c06_bigcap.txt', command: [c06_cat, '@INPUT@'], capture: true)"]
    kept.update({'c06_bigkeys.h': 'configuration-large', 'c06_big.h': 'template-large', 'c06_bigcopy.txt': 'copy-large',
                 'c06_bigcap.txt': 'capture-large'})
    # configure-time depfile: the prerequisites a configure_file(command:, depfile:) reports become build-definition
    # files (REGENERATE_BUILD inputs of build.ninja, intro-buildsystem_files.json); 14 existing source files named in
    # a scrambled textual order, two of them through a nested rule
    dd = root / 'c06_deps'
    dd.mkdir(exist_ok=True)
    names = [f'f{i:02d}_{w}.txt' for i, w in enumerate(['zulu', 'alpha', 'mike', 'echo', 'x', 'bravo', 'yankee', 'kilo',
                                                        'delta', 'oscar', 'charlie', 'whiskey', 'papa', 'golf'])]
    for n in names:
        (dd / n).write_text(f'prerequisite {n}\n')
    order = names[:12]
    rnd.shuffle(order)
    script = ['#!/bin/sh', '# usage: c06_depgen.sh OUTPUT DEPFILE SRCDIR', 'out="$1"; dep="$2"; src="$3/c06_deps"',
              'printf "generated with a depfile\\n" > "$out"', '{', '  printf "%s:" "$(basename "$out")"']
    for n in order:
        script.append(f'  printf " %s" "$src/{n}"')
    script += ['  printf "\\n"', f'  printf "%s: %s %s\\n" "$src/{order[3]}" "$src/{names[12]}" "$src/{names[13]}"', '} > "$dep"']
    (root / 'c06_depgen.sh').write_text('\n'.join(script) + '\n')
    (root / 'c06_depgen.sh').chmod(0o755)
    L += ["c06_depgen = find_program('c06_depgen.sh')",
          "configure_file(output: 'c06_depout.txt', depfile: 'c06_depout.d', "
          "command: [c06_depgen, '@OUTPUT@', '@DEPFILE@', meson.current_source_dir()])"]
    dep_files = ', '.join(f"'c06_deps/{n}'" for n in rnd.sample(names, 8))
    L += [f"c06_ct3 = custom_target('c06_dependfiles', output: 'c06_dependfiles.out', command: [c06_cat, files('c06_tmpl.h.in')], "
          f"capture: true, depend_files: files({dep_files}), build_by_default: true)",
          f"meson.add_install_script(c06_cat, files({dep_files}), install_tag: 'c06')"]
    # several wraps / subprojects (directory listing order of subprojects/)
    order = list(SUBS)
    rnd.shuffle(order)
    for name in SUBS:
        _subproject(root, name, lang)
    for name in order:
        L.append(f"{name}_d = dependency('{name}-dep')")
    L.append(f"{order[0]}_d2 = dependency('{order[0]}-alias')")
    L.append("meson.install_dependency_manifest('share/c06/depmf.json')")
    # targets that need the exe wrapper (capture / env / feed)
    L += ["c06_ct1 = custom_target('c06_capture', output: 'c06_capture.out', command: [c06_cat, files('c06_tmpl.h.in')], "
          "capture: true, env: {'ZZ': '1', 'AA': '2', 'MM': 'three words'}, build_by_default: true)",
          "c06_ct2 = custom_target('c06_feed', input: 'c06_tmpl.h.in', output: 'c06_feed.out', command: [c06_cat], "
          "feed: true, capture: true, depend_files: files('gen.sh', 'c06_tmpl.h.in'), install: true, "
          "install_dir: 'share/c06', install_tag: 'c06')",
          "c06_env = environment({'C06_Z': '1', 'C06_A': '2'})",
          "c06_env.append('C06_PATH', 'one', 'two')",
          "c06_env.prepend('C06_PATH', 'zero')",
          "c06_env.set('C06_B', 'b c')",
          "run_target('c06_run', command: [c06_cat, c06_ct1], env: c06_env, depends: [c06_ct2])"]
    libs = [i for i, t in enumerate(p['targets'], 1) if t['kind'] in projgen.LIB_KINDS and not t['sp']]
    shared = [i for i, t in enumerate(p['targets'], 1) if not t['sp'] and
              (t['kind'] in ('shared', 'both') or (t['kind'] == 'lib' and p['deflib'] in ('shared', 'both')))]
    if lang:
        (root / 'c06_app.c').write_text('int main(void) { return 0; }\n')
        (root / 'c06_inc_b').mkdir(exist_ok=True)
        (root / 'c06_inc_a').mkdir(exist_ok=True)
        (root / 'c06_inc_a' / 'c06_a.h').write_text('/* a */\n')
        (root / 'c06_inc_b' / 'c06_b.h').write_text('/* b */\n')
        L += ["c06_thr = dependency('threads')",
              "c06_z = dependency('zlib', required: false)",
              "c06_m = meson.get_compiler('c').find_library('m', required: false)",
              "c06_inc = include_directories('c06_inc_b', 'c06_inc_a')"]
        link = ', '.join(projgen.target_var(i) for i in libs[:4])
        L.append(f"c06_decl = declare_dependency(link_with: [{link}], include_directories: c06_inc, "
                 "compile_args: ['-DC06_DECL=1', '-DC06_B=2'], link_args: ['-Wl,--as-needed'], "
                 "dependencies: [c06_thr, c06_m], variables: {'zvar': 'z', 'avar': 'a'})")
        deps = ', '.join(['c06_decl', 'c06_z'] + [f'{n}_d' for n in order])
        L.append(f"c06_app = executable('c06_app', 'c06_app.c', dependencies: [{deps}], c_args: ['-DAPP_Z', '-DAPP_A'], "
                 "install: true, install_rpath: '$ORIGIN/../lib', build_rpath: '/c06/rp2:/c06/rp1', "
                 "extra_files: files('c06_deps/f00_zulu.txt', 'c06_deps/f05_bravo.txt', 'c06_deps/f02_mike.txt'), "
                 "link_depends: files('c06_deps/f09_oscar.txt', 'c06_deps/f01_alpha.txt', 'c06_deps/f06_yankee.txt'), "
                 "implicit_include_directories: true, gnu_symbol_visibility: 'hidden')")
        dep_list = ', '.join([projgen.target_var(i) for i in shared[:4]] + ['c06_ct1', 'c06_ct2'])
        L += [f"test('c06_envtest', c06_app, env: c06_env, depends: [{dep_list}], args: ['--x', c06_ct1], "
              "suite: ['zz', 'aa'], timeout: 7, priority: 3, is_parallel: false)",
              f"benchmark('c06_bench', c06_app, env: {{'BZ': '1', 'BA': '2'}}, depends: [{dep_list}])",
              "add_test_setup('c06setup', exe_wrapper: [c06_cat], env: {'SZ': '1', 'SA': '2'}, timeout_multiplier: 2)"]
        # pkg-config files for up to three libraries
        L.append("c06_pkg = import('pkgconfig')")
        for n, i in enumerate(libs[:3]):
            req = "requires: ['zlib', 'glib-2.0'], " if n == 0 else ''
            more = ', '.join(projgen.target_var(j) for j in libs[:3] if j != i)
            L.append(f"c06_pkg.generate({projgen.target_var(i)}, name: 'c06-lib{n}', filebase: 'c06-lib{n}', "
                     f"description: 'C06 library {n}', version: '1.{n}', {req}libraries: [{more}], "
                     "libraries_private: ['-lm', '-ldl'], subdirs: ['zsub', 'asub'], extra_cflags: ['-DPC_Z', '-DPC_A'], "
                     "variables: {'zvar': 'z', 'avar': 'a'}, uninstalled_variables: {'uz': '1', 'ua': '2'})")
        if not libs:
            L.append("c06_pkg.generate(name: 'c06-none', description: 'no library', version: '0', libraries: ['-lz', '-la'], "
                     "variables: {'zvar': 'z', 'avar': 'a'})")
    else:
        L += ["test('c06_envtest', c06_cat, env: c06_env, depends: [c06_ct1, c06_ct2], args: [c06_ct1], suite: ['zz', 'aa'])",
              "c06_pkg = import('pkgconfig')",
              "c06_pkg.generate(name: 'c06-none', description: 'no library', version: '0', "
              "variables: {'zvar': 'z', 'avar': 'a', 'mvar': '${zvar}/m'}, dataonly: true)"]
    with open(root / 'meson.build', 'a', encoding='utf-8') as f:
        f.write('\n'.join(L) + '\n')
    # project(): license list and default options (string replace of projgen's first line)
    mb = root / 'meson.build'
    text = mb.read_text(encoding='utf-8')
    head, rest = text.split('\n', 1)
    if head.startswith('project(') and "version: '1.0'," in head:
        head = head.replace("version: '1.0',", "version: '1.0', license: ['MIT', 'Apache-2.0'], "
                            "default_options: ['c06a:default_library=static', 'werror=false'],")
        mb.write_text(head + '\n' + rest, encoding='utf-8')
    return kept


def gen_abstract(desc: Desc) -> T.Dict[str, T.Any]:
    rnd = random.Random(f"c06:{desc['seed']}:{desc['lang']}")
    p = projgen.random_project(rnd, n_targets=int(desc.get('n_targets', 9)), lang=desc['lang'])
    return p


def materialize(desc: Desc, srcdir: Path) -> T.Dict[str, T.Any]:
    srcdir = Path(srcdir)
    if srcdir.exists():
        shutil.rmtree(srcdir)
    if desc['kind'] == 'gen':
        p = gen_abstract(desc)
        projgen.write_project(p, srcdir)
        rnd = random.Random(f"c06x:{desc['seed']}")
        kept = _extras(p, srcdir, rnd)
        for c in p['conf']:
            loc = projgen.location(c)
            kept[f"{loc}/{c['out']}" if loc else c['out']] = 'copy'
        for name in SUBS:
            kept[f'subprojects/{name}/{name}_conf.h'] = 'configuration'
        # second configuration key: one option whose change and change back is the *same option valuation* as never
        # having touched it.  Not prefix (localstatedir/sharedstatedir defaults are derived from it at the first
        # setup only) and not c_args/c_link_args (an explicit value also stops $CFLAGS from reaching the link line):
        # those are questions of option resolution (C07/C08), not of determinism.
        toggle: T.List[T.Tuple[str, str]] = [('backend_max_links', '3'), ('errorlogs', 'false'), ('bindir', 'c06bin')]
        if desc['lang']:
            toggle = [('warning_level', '3'), ('buildtype', 'release'), ('b_ndebug', 'true'), ('bindir', 'c06bin'),
                      ('backend_max_links', '3'), ('b_staticpic', 'false'), ('werror', 'true'), ('strip', 'true')]
        for o in p['options']:
            if o['type'] == 'boolean' and not o['sp']:
                toggle.append((o['name'], 'false' if o['value'] == 'true' else 'true'))
        return {'kept': kept, 'toggle': toggle, 'args': projgen.setup_args(p), 'kept_from_log': False,
                'label': f"gen:{desc['lang'] or 'nolang'}:{desc['seed']}"}
    if desc['kind'] == 'corpus':
        src = corpus_root() / desc['name']
        shutil.copytree(src, srcdir, symlinks=True)
        args: T.List[str] = []
        tj = srcdir / 'test.json'
        del tj
        return {'kept': {}, 'toggle': [('backend_max_links', '3')], 'args': args, 'kept_from_log': True,
                'label': f"corpus:{desc['name']}"}
    raise common.MachineryError('unknown project descriptor ' + repr(desc))


def mentions(srcdir: Path, word: str) -> bool:
    """Does any build definition of the project mention ``word`` (used to keep clear of options a project redefines)."""
    pat = re.compile(re.escape(word))
    for f in list(Path(srcdir).rglob('meson.build')) + list(Path(srcdir).rglob('meson.options')) + \
            list(Path(srcdir).rglob('meson_options.txt')):
        try:
            if pat.search(f.read_text(encoding='utf-8', errors='replace')):
                return True
        except OSError:
            continue
    return False
