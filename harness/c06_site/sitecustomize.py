"""Owned by the C06 check (harness/c06_determinism.py); put on PYTHONPATH of the meson commands it runs.

Environment model for "directory-listing order": POSIX leaves the order of readdir() unspecified, so a
program's output must not depend on it.  When C06_READDIR is set (to "sorted", "reversed" or a seed),
os.listdir and os.scandir return their entries sorted, reverse sorted or in a seeded pseudo-random order (os.walk, glob, pathlib.Path.iterdir/glob and shutil
are built on these two).  Nothing is added, dropped or renamed, only the order changes; nothing in the
tree under test is modified.  Inactive when C06_READDIR is unset or empty.
"""
import os

_seed = os.environ.get('C06_READDIR', '')

if _seed:
    import hashlib

    _real_listdir = os.listdir
    _real_scandir = os.scandir

    _reverse = _seed == 'reversed'

    def _key(name):
        if isinstance(name, bytes):
            name = os.fsdecode(name)
        if _seed in ('sorted', 'reversed'):
            return name.encode('utf-8', 'surrogateescape')
        return hashlib.sha1((_seed + '\0' + name).encode('utf-8', 'surrogateescape')).digest()

    def _listdir(path='.'):
        out = _real_listdir(path)
        out.sort(key=_key, reverse=_reverse)
        return out

    class _ScandirIterator:
        """Same protocol as os.scandir's iterator (iterator, context manager, close())."""

        def __init__(self, path):
            with _real_scandir(path) as it:
                entries = list(it)
            entries.sort(key=lambda e: _key(e.name), reverse=_reverse)
            self._entries = iter(entries)

        def __iter__(self):
            return self

        def __next__(self):
            return next(self._entries)

        def __enter__(self):
            return self

        def __exit__(self, *exc):
            self.close()
            return False

        def close(self):
            self._entries = iter(())

    def _scandir(path='.'):
        return _ScandirIterator(path)

    os.listdir = _listdir
    os.scandir = _scandir
