"""C07 - option values resolve by the documented precedence and are always valid.

1. TLC model-checks specs/options/OptionStore_MC: for every case of the scenario space
   (OptionScenarios: 2^4 / 2^8 source subsets x kinds x classes x value assignments, the buildtype,
   prefix, per-machine, module and invalid-value families) the API-shaped store machine refines the
   declarative rule book OptionPrecedence and keeps every stored value valid.  The run exports the cases.
2. (A1) every exported case is replayed in-process on a real ``mesonbuild.options.OptionStore`` with the
   call sequence meson makes; (A2) a stratified sample, several cases merged into one generated project
   (+ subproject + machine file + -D flags), goes through the real ``meson setup --backend=none`` CLI,
   observed through get_option() messages and ``meson introspect --buildoptions``.  The observations are
   judged by TLC against the declarative rule book (TraceOptionStore, JudgeScenario).
3. (B) seeded random API call sequences (incl. invalid values, configure -D / -U) on a real OptionStore are
   judged by TLC against the store machine (TraceOptionStore, JudgeApi).
Python only renders abstract values, drives the implementation and projects values; every verdict is TLC's.
"""
from __future__ import annotations

import argparse
import copy
import json
import os
import random
import re
import subprocess
import sys
import typing as T
from concurrent.futures import ProcessPoolExecutor
from pathlib import Path

from . import common
from .common import Check, MachineryError, SPECS, run_tlc, scratch

PROP = 'C07'
NOBOUND = -999999
FAMILIES = ['prec', 'builtin', 'bt', 'prefix', 'machine', 'module', 'invalid']
EMPTY_LV: T.List[T.List[T.Any]] = [[] for _ in range(8)]


# ---------------------------------------------------------------------------
# rendering abstract raw values / projecting real values

def py_raw(r: T.Dict[str, T.Any]) -> T.Any:
    """abstract raw value -> the python object a source hands to the option store."""
    t = r['t']
    if t == 'str':
        return r['w'][0]
    if t == 'inttxt':
        return str(r['n'])
    if t == 'int':
        return int(r['n'])
    if t == 'bool':
        return bool(r['n'])
    if t == 'list':
        return list(r['w'])
    if t == 'csv':
        return ','.join(r['w'])
    if t == 'brk':
        return '[' + ', '.join("'" + x + "'" for x in r['w']) + ']'
    if t == 'oct':
        return '0%o' % r['n']
    raise MachineryError('cannot render raw value ' + repr(r))


def is_text(r: T.Dict[str, T.Any]) -> bool:
    return r['t'] in ('str', 'inttxt', 'csv', 'brk', 'oct')


def project_value(v: T.Any) -> T.Dict[str, T.Any]:
    """real option value -> canonical abstract value (by its python type, not by the declaration)."""
    if isinstance(v, bool):
        return {'t': 'b', 'n': int(v), 'w': []}
    if isinstance(v, int):
        return {'t': 'i', 'n': int(v), 'w': []}
    if isinstance(v, str):
        return {'t': 's', 'n': 0, 'w': [v]}
    if isinstance(v, list) and all(isinstance(x, str) for x in v):
        return {'t': 'a', 'n': 0, 'w': list(v)}
    return {'t': 'alien:' + type(v).__name__, 'n': 0, 'w': []}


NOVAL = {'t': 'none', 'n': 0, 'w': []}


def real_name(o: T.Dict[str, T.Any]) -> str:
    """system options of the model that are not meson builtins are played by compiler options `c_<name>`."""
    if o['scope'] == 'g' and not o['builtin']:
        return 'c_' + o['name']
    return o['name']


def name_map(case: T.Dict[str, T.Any]) -> T.Dict[str, str]:
    m = {}
    for o in case['opts']:
        m[o['name']] = real_name(o)
    return m


def make_option(mo: T.Any, name: str, o: T.Dict[str, T.Any]) -> T.Any:
    d = o['d']
    kind = d['kind']
    default = py_raw(o['def'])
    y = bool(o['yield'])
    if kind == 'string':
        return mo.UserStringOption(name, 'd', default, y)
    if kind == 'boolean':
        return mo.UserBooleanOption(name, 'd', default, y)
    if kind == 'integer':
        return mo.UserIntegerOption(name, 'd', default, y, min_value=None if d['lo'] == NOBOUND else d['lo'],
                                    max_value=None if d['hi'] == NOBOUND else d['hi'])
    if kind == 'combo':
        return mo.UserComboOption(name, 'd', default, y, choices=list(d['choices']))
    if kind == 'array':
        return mo.UserStringArrayOption(name, 'd', default, y, choices=list(d['choices']) or None)
    if kind == 'feature':
        return mo.UserFeatureOption(name, 'd', default, y)
    raise MachineryError('cannot create option of kind ' + kind)


def keystr(name: str, sub: T.Optional[str], m: str) -> str:
    s = ('build.' if m == 'b' else '') + name
    return s if sub is None else sub + ':' + s


# ---------------------------------------------------------------------------
# (A1) in-process replay of one case on a real OptionStore

def replay_inprocess(case: T.Dict[str, T.Any]) -> T.Dict[str, T.Any]:
    from mesonbuild import options as mo, cmdline as mcmd
    from mesonbuild.mesonlib import MesonException
    OK = mo.OptionKey
    nm = name_map(case)
    out = dict(case)
    out.update(raised=False, stage='', alien='', obs=[], obs2=[NOVAL] * len(case['q']))
    try:
        store = mo.OptionStore(bool(case['cross']))
        store.init_builtins()
        lv = case['lv']

        def level(idx: int, sub: T.Optional[str]) -> T.Dict[T.Any, T.Any]:
            return {OK.from_string(keystr(nm[a['name']], sub, a['m'])): py_raw(a['r']) for a in lv[idx - 1]}

        ns = argparse.Namespace(cmd_line_options={**level(4, None), **level(8, 'sub')}, builtin_keys=set(), d_keys=set())
        mcmd.parse_cmd_line_options(ns)          # the CLI layer's normalisation of -D (real code)
        cl = ns.cmd_line_options
        mf = {**level(3, None), **level(7, 'sub')}
        for o in case['opts']:
            if o['scope'] == 'g' and not o['builtin'] and o['late'] == 'no':
                store.add_compiler_option('c', OK(nm[o['name']]), make_option(mo, nm[o['name']], o))
            elif o['scope'] == 't':
                store.add_project_option(OK(o['name'], ''), make_option(mo, o['name'], o))
        try:
            store.initialize_from_top_level_project_call({**level(1, None), **level(5, 'sub')}, cl, mf)
        except MesonException:
            out.update(raised=True, stage='top')
            out['obs'] = [NOVAL] * len(case['q'])
            return out
        for o in case['opts']:
            if o['scope'] == 'g' and not o['builtin'] and o['late'] == 'top':
                store.add_compiler_option('c', OK(nm[o['name']]), make_option(mo, nm[o['name']], o))
        for o in case['opts']:
            if o['scope'] == 's':
                store.add_project_option(OK(o['name'], 'sub'), make_option(mo, o['name'], o))
        try:
            store.initialize_from_subproject_call('sub', level(6, None), level(2, None), cl, mf)
            for o in case['opts']:
                if o['scope'] == 'g' and not o['builtin'] and o['late'] != 'no':
                    store.add_compiler_option('c', OK(nm[o['name']], 'sub'), make_option(mo, nm[o['name']], o))
        except MesonException:
            out.update(raised=True, stage='sub')
            out['obs'] = [NOVAL] * len(case['q'])
            return out
        for q in case['q']:
            o = next(x for x in case['opts'] if x['name'] == q['name'])
            sub = 'sub' if q['scope'] == 's' else (None if o['scope'] == 'g' else '')
            key = OK(nm[q['name']], sub, mo.MachineChoice.BUILD if q['m'] == 'b' else mo.MachineChoice.HOST)
            out['obs'].append(project_value(store.get_value_for(key)))
    except Exception as e:  # not a clean rejection: reported by the harness as such
        out['alien'] = type(e).__name__ + ': ' + str(e)[:200]
        out['obs'] = [NOVAL] * len(case['q'])
    return out


def _worker_inprocess(cases: T.List[T.Dict[str, T.Any]]) -> T.List[T.Dict[str, T.Any]]:
    common.use_repo_meson()
    return [replay_inprocess(c) for c in cases]


# ---------------------------------------------------------------------------
# judging with TLC

JUDGE_FIELDS = ('id', 'fam', 'cross', 'opts', 'lv', 'q', 'raised', 'obs', 'obs2')


def judge(chk: Check, cases: T.List[T.Dict[str, T.Any]], label: str, surface: str) -> None:
    if not cases:
        return
    by_id = {c['id']: c for c in cases}
    if len(by_id) != len(cases):
        raise MachineryError('duplicate case ids in batch ' + label)
    for part_no, part in enumerate(common.chunks(cases, 1000 if cases[0]['fam'] == 'api' else 30000)):
        with scratch('c07-') as d:
            tf = d / 'cases.json'
            if part[0]['fam'] == 'api':
                tf.write_text(json.dumps(part))
            else:
                tf.write_text(json.dumps([{k: c[k] for k in JUDGE_FIELDS} for c in part]))
            res = run_tlc(SPECS / 'options', 'TraceOptionStore', env={'TRACE_FILE': str(tf)}, timeout=3600)
            bad = res.json_lines()
            if not res.clean:
                raise MachineryError('TraceOptionStore did not complete cleanly:\n' + res.stdout[-2500:])
            if res.distinct != 2 * len(part):
                raise MachineryError(f'TraceOptionStore judged {res.distinct // 2} of {len(part)} cases')
            nlines = sum(1 for ln in res.stdout.splitlines() if ln.strip().startswith('"{'))
            if nlines != len(bad):
                # verdict lines of different workers interleaved: judge this batch again single-threaded
                res1 = run_tlc(SPECS / 'options', 'TraceOptionStore', env={'TRACE_FILE': str(tf)}, timeout=3600, workers=1)
                bad = res1.json_lines()
        chk.add_tlc(f'TraceOptionStore[{label}#{part_no}]', res, model=False)
        chk.traces += len(part)
        for v in bad:
            c = by_id.get(v['id'], {})
            sig = f"{v['clause']}:{v['sig']}"
            detail = {'verdict': v, 'surface': surface, 'case': {k: c.get(k) for k in c if k not in ('opts',)},
                      'opts': c.get('opts')}
            chk.violation(sig, detail)
    for c in cases:
        if c.get('alien'):
            chk.violation(f"{surface}:UnexpectedException:{c['fam']}:{c['alien'].split(':')[0]}",
                          {'case': c, 'surface': surface})


# ---------------------------------------------------------------------------
# (A2) merged cases through the real CLI

def mstr(s: str) -> str:
    return "'" + s.replace('\\', '\\\\').replace("'", "\\'") + "'"


def mlit(r: T.Dict[str, T.Any]) -> str:
    """abstract raw value -> literal of the meson language / machine-file syntax."""
    v = py_raw(r)
    if isinstance(v, bool):
        return 'true' if v else 'false'
    if isinstance(v, int):
        return str(v)
    if isinstance(v, list):
        return '[' + ', '.join(mstr(x) for x in v) + ']'
    return mstr(v)


def text_of(r: T.Dict[str, T.Any]) -> str:
    if not is_text(r):
        raise MachineryError('a typed value cannot be given as text: ' + repr(r))
    return T.cast(str, py_raw(r))


def default_options_expr(items: T.List[T.Tuple[str, T.Dict[str, T.Any]]], rnd: random.Random) -> str:
    """the value of a default_options: keyword - list form when every value is text, else the dict form."""
    if not items:
        return '[]'
    if all(is_text(r) for _, r in items) and rnd.random() < 0.7:
        return '[' + ', '.join(mstr(k + '=' + text_of(r)) for k, r in items) + ']'
    return '{' + ', '.join(mstr(k) + ': ' + mlit(r) for k, r in items) + '}'


def option_decl(o: T.Dict[str, T.Any]) -> str:
    d = o['d']
    kind = d['kind']
    parts = [mstr(o['name']), "type: '" + kind + "'"]
    if kind in ('combo', 'array') and d['choices']:
        parts.append('choices: [' + ', '.join(mstr(c) for c in d['choices']) + ']')
    if kind == 'integer':
        if d['lo'] != NOBOUND:
            parts.append(f"min: {d['lo']}")
        if d['hi'] != NOBOUND:
            parts.append(f"max: {d['hi']}")
    if o['defgiven']:
        parts.append('value: ' + mlit(o['def']))
    if o['yield']:
        parts.append('yield: true')
    return 'option(' + ', '.join(parts) + ')\n'


def obs_stmt(q: T.Dict[str, T.Any], o: T.Dict[str, T.Any], idx: int) -> str:
    kind = o['d']['kind']
    name = ('build.' if q['m'] == 'b' else '') + o['name']
    tag = f"OBS|{idx}|"
    if kind == 'umask':
        return ''            # get_option('install_umask') is not usable from build files; introspection only
    if kind == 'array':
        return f"message('{tag}' + ','.join(get_option({mstr(name)})))\n"
    if kind == 'feature':
        return (f"f{idx} = get_option({mstr(name)})\n"
                f"message('{tag}@0@@1@@2@'.format(f{idx}.enabled() ? 'enabled' : '', f{idx}.disabled() ? 'disabled' : '', "
                f"f{idx}.auto() ? 'auto' : ''))\n")
    return f"message('{tag}@0@'.format(get_option({mstr(name)})))\n"


def parse_obs(text: str, kind: str) -> T.Dict[str, T.Any]:
    if kind == 'boolean':
        return {'t': 'b', 'n': 1 if text == 'true' else 0, 'w': []} if text in ('true', 'false') else {'t': 'alien:' + text, 'n': 0, 'w': []}
    if kind == 'integer':
        return {'t': 'i', 'n': int(text), 'w': []} if re.fullmatch(r'-?\d+', text) else {'t': 'alien:' + text, 'n': 0, 'w': []}
    if kind == 'array':
        return {'t': 'a', 'n': 0, 'w': text.split(',') if text else []}
    return {'t': 's', 'n': 0, 'w': [text]}


def render_project(case: T.Dict[str, T.Any], src: Path, rnd: random.Random) -> T.List[str]:
    """Write the generated project; returns the extra `meson setup` arguments."""
    lv = case['lv']
    opts = {(o['name'], o['scope']): o for o in case['opts']}

    def scope_of(name: str, level: int) -> str:
        if (name, 'g') in opts:
            return 'g'
        return 't' if level in (1, 3, 4) else 's'

    def items(level: int, prefix: str = '') -> T.List[T.Tuple[str, T.Dict[str, T.Any]]]:
        return [(prefix + ('build.' if a['m'] == 'b' else '') + a['name'], a['r']) for a in lv[level - 1]]

    sub = src / 'subprojects' / 'sub'
    sub.mkdir(parents=True)
    top_opts = ''.join(option_decl(o) for o in case['opts'] if o['scope'] == 't')
    sub_opts = ''.join(option_decl(o) for o in case['opts'] if o['scope'] == 's')
    optfile = rnd.choice(['meson.options', 'meson_options.txt'])
    if top_opts:
        (src / optfile).write_text(top_opts)
    if sub_opts:
        (sub / optfile).write_text(sub_opts)
    top = "project('top', default_options: " + default_options_expr(items(1) + items(5, 'sub:'), rnd) + ", meson_version: '>=1.2.0')\n"
    subb = "project('sub', default_options: " + default_options_expr(items(2), rnd) + ", meson_version: '>=1.2.0')\n"
    for idx, q in enumerate(case['q']):
        o = opts.get((q['name'], 'g')) or opts.get((q['name'], q['scope']))
        if o is None:
            raise MachineryError('query without declaration: ' + repr(q))
        if q['scope'] == 't':
            top += obs_stmt(q, o, idx)
        else:
            subb += obs_stmt(q, o, idx)
    top += "subproject('sub', default_options: " + default_options_expr(items(6), rnd) + ")\n"
    (src / 'meson.build').write_text(top)
    (sub / 'meson.build').write_text(subb)
    # machine file
    sections: T.Dict[str, T.List[str]] = {}
    for level, pre in ((3, ''), (7, 'sub:')):
        for a in lv[level - 1]:
            sec = pre + ('built-in options' if scope_of(a['name'], level) == 'g' else 'project options')
            sections.setdefault(sec, []).append(('build.' if a['m'] == 'b' else '') + a['name'] + ' = ' + mlit(a['r']))
    args: T.List[str] = []
    mtext = ''
    if case['cross']:
        mtext += "[host_machine]\nsystem = 'linux'\ncpu_family = 'x86_64'\ncpu = 'x86_64'\nendian = 'little'\n\n"
    for sec, lines in sections.items():
        mtext += '[' + sec + ']\n' + '\n'.join(lines) + '\n\n'
    if mtext:
        mf = src.parent / 'machine.ini'
        mf.write_text(mtext)
        args += ['--cross-file' if case['cross'] else '--native-file', str(mf)]
    for level, pre in ((4, ''), (8, 'sub:')):
        for a in lv[level - 1]:
            if a['name'] == 'prefix' and level == 4 and rnd.random() < 0.5:
                args.append('--prefix=' + text_of(a['r']))        # the dedicated spelling of -Dprefix=
                continue
            args.append('-D' + pre + ('build.' if a['m'] == 'b' else '') + a['name'] + '=' + text_of(a['r']))
    return args


def run_cli_case(case: T.Dict[str, T.Any], seed: int) -> T.Dict[str, T.Any]:
    rnd = random.Random(seed)
    out = dict(case)
    nq = len(case['q'])
    out.update(raised=False, stage='', alien='', obs=[NOVAL] * nq, obs2=[NOVAL] * nq, log='')
    opts = {(o['name'], o['scope']): o for o in case['opts']}
    with scratch('c07cli-') as d:
        src = d / 'src'
        src.mkdir()
        args = render_project(case, src, rnd)
        env = dict(os.environ)
        env.pop('MESON_PACKAGE_CACHE_DIR', None)
        cmd = [common.PYTHON, str(common.REPO / 'meson.py'), 'setup', '--backend=none'] + args + [str(d / 'build'), str(src)]
        try:
            p = subprocess.run(cmd, stdout=subprocess.PIPE, stderr=subprocess.STDOUT, text=True, timeout=600, env=env, cwd=d)
        except subprocess.TimeoutExpired as e:
            raise MachineryError('meson setup timed out') from e
        out['log'] = p.stdout[-3000:]
        out['cmd'] = args
        if p.returncode != 0:
            out['raised'] = True
            if 'Traceback (most recent call last)' in p.stdout or 'Unhandled python exception' in p.stdout:
                out['alien'] = 'UnhandledException'
            return out
        obs = list(out['obs'])
        for m in re.finditer(r'Message: OBS\|(\d+)\|(.*)$', p.stdout, re.M):
            idx = int(m.group(1))
            q = case['q'][idx]
            o = opts.get((q['name'], 'g')) or opts[(q['name'], q['scope'])]
            obs[idx] = parse_obs(m.group(2), o['d']['kind'])
        out['obs'] = obs
        pi = subprocess.run([common.PYTHON, str(common.REPO / 'meson.py'), 'introspect', '--buildoptions', str(d / 'build')],
                            stdout=subprocess.PIPE, stderr=subprocess.PIPE, text=True, timeout=600, env=env)
        if pi.returncode != 0:
            raise MachineryError('meson introspect failed: ' + pi.stderr[-500:])
        intro = {e['name']: e['value'] for e in json.loads(pi.stdout)}
        obs2 = list(out['obs2'])
        for idx, q in enumerate(case['q']):
            o = opts.get((q['name'], 'g')) or opts[(q['name'], q['scope'])]
            nm = ('build.' if q['m'] == 'b' else '') + q['name']
            if q['scope'] == 't':
                if nm in intro:
                    obs2[idx] = project_value(intro[nm])
            elif o['scope'] == 's' and not o['yield'] and 'sub:' + nm in intro:
                obs2[idx] = project_value(intro['sub:' + nm])   # stored value = effective value for these
        out['obs2'] = obs2
        for idx, q in enumerate(case['q']):
            o = opts.get((q['name'], 'g')) or opts[(q['name'], q['scope'])]
            if obs[idx]['t'] == 'none' and o['d']['kind'] != 'umask':
                raise MachineryError(f"no observation for query {q} in case {case['id']}:\n{p.stdout[-1500:]}")
    return out


def _worker_cli(job: T.Tuple[T.Dict[str, T.Any], int]) -> T.Dict[str, T.Any]:
    return run_cli_case(job[0], job[1])


def rename(case: T.Dict[str, T.Any], new: str) -> T.Dict[str, T.Any]:
    """a single-option case of the "prec" family with its option `x` renamed."""
    c = copy.deepcopy(case)
    for o in c['opts']:
        o['name'] = new
    for l in c['lv']:
        for a in l:
            a['name'] = new
    for q in c['q']:
        q['name'] = new
    return c


def merge_cases(parts: T.List[T.Dict[str, T.Any]], cid: str, cross: bool) -> T.Dict[str, T.Any]:
    m: T.Dict[str, T.Any] = {'id': cid, 'fam': 'cli', 'cross': cross, 'opts': [], 'lv': [[] for _ in range(8)], 'q': [],
                             'parts': [p['id'] for p in parts]}
    for p in parts:
        m['opts'] += p['opts']
        for i in range(8):
            m['lv'][i] += p['lv'][i]
        m['q'] += p['q']
    return m


def cls_of(c: T.Dict[str, T.Any]) -> str:
    return c['id'].split('/')[2]


def build_cli_cases(cases_by_fam: T.Dict[str, T.List[T.Dict[str, T.Any]]], n: int, rnd: random.Random) -> T.List[T.Dict[str, T.Any]]:
    """Stratified: every merged project takes one case of each small family, one of each builtin option, and
    project-option cases cycling through kind x class strata."""
    proj = [c for c in cases_by_fam.get('prec', []) if cls_of(c) in ('top', 'shadow', 'yield', 'subonly')]
    strata: T.Dict[T.Tuple[str, str], T.List[T.Dict[str, T.Any]]] = {}
    for c in proj:
        strata.setdefault((c['id'].split('/')[1], cls_of(c)), []).append(c)
    keys = sorted(strata)
    builtin: T.Dict[str, T.List[T.Dict[str, T.Any]]] = {}
    for c in cases_by_fam.get('builtin', []):
        builtin.setdefault(c['id'].split('/')[1], []).append(c)
    inv = [c for c in cases_by_fam.get('invalid', []) if cls_of(c) in ('top', 'shadow', 'subonly')]
    out = []
    for j in range(n):
        cross = rnd.random() < 0.25
        parts = []
        for fam in ('bt', 'prefix', 'module'):
            pool = cases_by_fam.get(fam, [])
            if pool:
                parts.append(rnd.choice(pool))
        for name in sorted(builtin):
            parts.append(rnd.choice([c for c in builtin[name] if bool(c['cross']) == cross] or builtin[name]))
        for s in range(6):
            k = keys[(j * 6 + s) % len(keys)]
            parts.append(rename(rnd.choice(strata[k]), f'p{s}'))
        if inv and j % 5 == 4:
            parts.append(rename(rnd.choice(inv), 'bad'))
        out.append(merge_cases(parts, f'cli/{j}', cross))
    return out


# ---------------------------------------------------------------------------
# (B) random API call sequences on a real OptionStore

API_KINDS = {
    'string': {'kind': 'string', 'choices': [], 'lo': NOBOUND, 'hi': NOBOUND},
    'boolean': {'kind': 'boolean', 'choices': [], 'lo': NOBOUND, 'hi': NOBOUND},
    'integer': {'kind': 'integer', 'choices': [], 'lo': -3, 'hi': 12},
    'combo': {'kind': 'combo', 'choices': ['c0', 'c1', 'c2', 'c3'], 'lo': NOBOUND, 'hi': NOBOUND},
    'array': {'kind': 'array', 'choices': ['a0', 'a1', 'a2'], 'lo': NOBOUND, 'hi': NOBOUND},
    'feature': {'kind': 'feature', 'choices': [], 'lo': NOBOUND, 'hi': NOBOUND},
}
BT_DECLS = {
    'buildtype': ({'kind': 'combo', 'choices': ['plain', 'debug', 'debugoptimized', 'release', 'minsize', 'custom'], 'lo': NOBOUND, 'hi': NOBOUND},
                  {'t': 'str', 'n': 0, 'w': ['debug']}),
    'debug': ({'kind': 'boolean', 'choices': [], 'lo': NOBOUND, 'hi': NOBOUND}, {'t': 'bool', 'n': 1, 'w': []}),
    'optimization': ({'kind': 'combo', 'choices': ['plain', '0', 'g', '1', '2', '3', 's'], 'lo': NOBOUND, 'hi': NOBOUND},
                     {'t': 'str', 'n': 0, 'w': ['0']}),
}


def R(t: str, n: int = 0, w: T.Optional[T.List[str]] = None) -> T.Dict[str, T.Any]:
    return {'t': t, 'n': n, 'w': w or []}


def rand_valid(d: T.Dict[str, T.Any], rnd: random.Random, text_only: bool = False) -> T.Dict[str, T.Any]:
    k = d['kind']
    if k == 'string':
        return R('str', 0, [rnd.choice(['v0', 'v1', 'v2', 'hello', ''])]) if rnd.random() < 0.85 else R('inttxt', rnd.randint(0, 99))
    if k == 'boolean':
        b = rnd.randint(0, 1)
        if text_only or rnd.random() < 0.6:
            return R('str', 0, [rnd.choice(['true', 'True', 'TRUE'] if b else ['false', 'False', 'FALSE'])])
        return R('bool', b)
    if k == 'integer':
        n = rnd.randint(d['lo'], d['hi'])
        return R('inttxt', n) if text_only or rnd.random() < 0.6 else R('int', n)
    if k in ('combo', 'feature'):
        ch = d['choices'] if k == 'combo' else ['enabled', 'disabled', 'auto']
        return R('str', 0, [rnd.choice([c for c in ch if c != 'custom'])])     # buildtype "custom" is not generated
    if k == 'array':
        ws = [c for c in d['choices'] if rnd.random() < 0.5]
        rnd.shuffle(ws)
        forms = ['csv', 'brk'] if text_only else ['csv', 'brk', 'list']
        return R(rnd.choice(forms), 0, ws)
    raise MachineryError(k)


def rand_invalid(d: T.Dict[str, T.Any], rnd: random.Random) -> T.Dict[str, T.Any]:
    k = d['kind']
    if k == 'string':
        return rnd.choice([R('int', 5), R('bool', 1), R('list', 0, ['v1'])])
    if k == 'boolean':
        return rnd.choice([R('str', 0, ['maybe']), R('int', 1), R('inttxt', 0), R('list', 0, ['true'])])
    if k == 'integer':
        return rnd.choice([R('inttxt', d['hi'] + 1), R('inttxt', d['lo'] - 1), R('int', d['hi'] + rnd.randint(1, 50)),
                           R('int', d['lo'] - rnd.randint(1, 50)), R('str', 0, ['abc']), R('bool', 1), R('list', 0, ['a0'])])
    if k in ('combo', 'feature'):
        return rnd.choice([R('str', 0, ['zz']), R('int', 1), R('bool', 0), R('str', 0, ['true'])])
    if k == 'array':
        return rnd.choice([R('csv', 0, ['a0', 'zz']), R('list', 0, ['zz']), R('brk', 0, ['zz', 'a1']), R('int', 2), R('bool', 1)])
    raise MachineryError(k)


def api_trace(j: int, seed: int) -> T.Dict[str, T.Any]:
    from mesonbuild import options as mo, cmdline as mcmd, mlog
    from mesonbuild.mesonlib import MesonException
    OK = mo.OptionKey
    rnd = random.Random(seed * 1000003 + j)
    cross = rnd.random() < 0.3
    store = mo.OptionStore(cross)
    store.init_builtins()
    events: T.List[T.Dict[str, T.Any]] = []
    decls: T.Dict[T.Tuple[str, str], T.Dict[str, T.Any]] = {}     # (name, s) -> decl; s: '~' global, '' top, 'sub'
    watch: T.List[T.Tuple[str, str]] = []
    latent: T.List[str] = []
    alien = ''

    def K(n: str, s: str, m: str = 'h') -> T.Dict[str, str]:
        return {'n': n, 's': s, 'm': m}

    def okey(n: str, s: str) -> T.Any:
        return OK(n, None if s == '~' else s)

    last: T.Dict[T.Tuple[str, str], T.Any] = {}

    def observe() -> T.List[T.Dict[str, T.Any]]:
        """every watched key is read after every call; only the values that differ from the previous reading are
        written to the trace (the judge requires all other watched keys to be unchanged in the machine as well)"""
        out = []
        for n, s in watch:
            try:
                v = project_value(store.get_value_for(okey(n, s)))
            except Exception as e:      # an option the model has but the store lost: reported through the judge
                v = {'t': 'missing:' + type(e).__name__, 'n': 0, 'w': []}
            if last.get((n, s)) != v:
                out.append({'k': K(n, s), 'v': v})
                last[(n, s)] = v
        return out

    def event(op: str, call: T.Callable[[], T.Any], **kw: T.Any) -> bool:
        nonlocal alien
        ev = {'op': op, 'k': K('', '', 'h'), 'd': API_KINDS['string'], 'def': R('none'), 'yield': False,
              'lv': [[] for _ in range(8)], 'D': [], 'r': R('none'), 'raised': False, 'obs': [], 'nw': 0}
        ev.update(kw)
        try:
            call()
        except MesonException:
            ev['raised'] = True
        except Exception as e:
            alien = f'{op}: {type(e).__name__}: {str(e)[:150]}'
            ev['raised'] = True
        # a rejected initialisation aborts the configuration; the half-initialised store is never used again
        if not (ev['raised'] and op in ('init_top', 'init_sub')):
            ev['obs'] = observe()
            ev['nw'] = len(watch)
        events.append(ev)
        return not ev['raised']

    # system options: the buildtype trio (real builtins) and one compiler-like option per kind, some appearing late
    for n, (d, df) in BT_DECLS.items():
        decls[(n, '~')] = d
        event('add_system', lambda: None, k=K(n, '~'), d=d, **{'def': df})
        watch += [(n, '~'), (n, 'sub')]
    gl = rnd.sample(sorted(API_KINDS), rnd.randint(2, 4))
    late = [k for k in gl if rnd.random() < 0.4]
    latent = ['c_g' + k for k in late]

    def add_global(kind: str, s: str) -> None:
        n = 'c_g' + kind
        d = API_KINDS[kind]
        df = rand_valid(d, random.Random(seed * 131 + j * 17 + sum(ord(ch) for ch in kind)))
        o = {'d': d, 'def': df, 'yield': False}
        decls[(n, '~')] = d
        event('add_system', lambda: store.add_compiler_option('c', okey(n, s), make_option(mo, n, o)), k=K(n, s), d=d, **{'def': df})
        for w in ((n, '~'), (n, 'sub'), (n, '')):
            if w not in watch:
                watch.append(w)

    for kind in gl:
        if kind not in late:
            add_global(kind, '~')
    tk = rnd.sample(sorted(API_KINDS), rnd.randint(2, 5))
    for kind in tk:
        n = 'p' + kind
        d = API_KINDS[kind]
        df = rand_valid(d, rnd)
        decls[(n, '')] = d
        event('add_project', lambda: store.add_project_option(OK(n, ''), make_option(mo, n, {'d': d, 'def': df, 'yield': False})),
              k=K(n, ''), d=d, **{'def': df})
        watch.append((n, ''))
    # sub project options are declared later; decide them now so that the sources can name them
    sk = rnd.sample(sorted(API_KINDS), rnd.randint(2, 5))
    subdecl = {}
    for kind in sk:
        subdecl['p' + kind] = (API_KINDS[kind], rand_valid(API_KINDS[kind], rnd), rnd.random() < 0.5)

    def assignable(level: int) -> T.List[T.Tuple[str, T.Dict[str, T.Any]]]:
        c: T.List[T.Tuple[str, T.Dict[str, T.Any]]] = []
        for kind in gl:
            c.append(('c_g' + kind, API_KINDS[kind]))
        c += [(n, BT_DECLS[n][0]) for n in BT_DECLS]
        if level in (1, 3, 4):
            c += [('p' + kind, API_KINDS[kind]) for kind in tk]
        else:
            # the subproject's own default_options (2) is not generated for options that may yield
            c += [(n, v[0]) for n, v in subdecl.items() if not (level == 2 and v[2] and n in [('p' + k) for k in tk])]
        return c

    bad_level = rnd.choice([0] * 8 + [1, 3, 4, 6, 8])
    # buildtype together with explicit debug/optimization is the business of the exhaustive "bt" family (A);
    # a sequence here uses either buildtype or the explicit pair in its sources
    use_bt = rnd.random() < 0.5
    lv: T.List[T.List[T.Dict[str, T.Any]]] = [[] for _ in range(8)]
    for level in range(1, 9):
        # (a per-subproject buildtype equal to the inherited one: docs deduce again, code does nothing - not generated)
        cand = [x for x in assignable(level) if x[0] not in BT_DECLS or
                ((x[0] == 'buildtype') == use_bt and (x[0] != 'buildtype' or level in (1, 3, 4)))]
        for n, d in rnd.sample(cand, rnd.randint(0, min(3, len(cand)))):
            r = rand_valid(d, rnd, text_only=level in (4, 8))
            lv[level - 1].append({'name': n, 'm': 'h', 'r': r})
    if bad_level:
        # (a value waiting for an option that appears later is validated only then: not generated invalid)
        cand = [x for x in assignable(bad_level) if x[0] not in BT_DECLS and x[0] not in latent and x[1]['kind'] != 'string']
        n, d = rnd.choice(cand)
        bad = rand_invalid_text(d, rnd) if bad_level in (4, 8) else rand_invalid(d, rnd)
        lv[bad_level - 1] = [a for a in lv[bad_level - 1] if a['name'] != n] + [{'name': n, 'm': 'h', 'r': bad}]

    def level(idx: int, sub: T.Optional[str]) -> T.Dict[T.Any, T.Any]:
        return {OK.from_string(keystr(a['name'], sub, a['m'])): py_raw(a['r']) for a in lv[idx - 1]}

    ns = argparse.Namespace(cmd_line_options={**level(4, None), **level(8, 'sub')}, builtin_keys=set(), d_keys=set())
    mcmd.parse_cmd_line_options(ns)
    cl = ns.cmd_line_options
    mf = {**level(3, None), **level(7, 'sub')}
    alive = event('init_top', lambda: store.initialize_from_top_level_project_call({**level(1, None), **level(5, 'sub')}, cl, mf), lv=lv)
    if alive:
        for kind in late:
            if rnd.random() < 0.5:
                add_global(kind, '~')
        for n, (d, df, y) in subdecl.items():
            decls[(n, 'sub')] = d
            event('add_project', lambda: store.add_project_option(OK(n, 'sub'), make_option(mo, n, {'d': d, 'def': df, 'yield': y})),
                  k=K(n, 'sub'), d=d, **{'def': df, 'yield': y})
            watch.append((n, 'sub'))
        alive = event('init_sub', lambda: store.initialize_from_subproject_call('sub', level(6, None), level(2, None), cl, mf), lv=lv)
    if alive:
        for kind in late:
            if ('c_g' + kind, '~') not in decls:
                add_global(kind, 'sub')
        # random set_option / configure calls
        for _ in range(rnd.randint(3, 10)):
            keys = [(n, s) for (n, s) in decls] + [(n, 'sub') for (n, s) in decls if s == '~'] + [(n, '') for (n, s) in decls if s == '~']
            keys = sorted(set(keys))

            def decl_of(n: str, s: str) -> T.Dict[str, T.Any]:
                return decls.get((n, s)) or decls[(n, '~')]

            def value_for(n: str, s: str, text_only: bool) -> T.Dict[str, T.Any]:
                d = decl_of(n, s)
                for _try in range(20):
                    r = rand_valid(d, rnd, text_only)
                    if n != 'buildtype':
                        return r
                    try:
                        cur = store.get_value_for(okey(n, s))
                    except Exception:
                        cur = None
                    if r['w'][0] != cur and r['w'][0] != 'custom':       # re-setting the current buildtype: not generated
                        return r
                return R('str', 0, ['plain' if cur != 'plain' else 'release'])

            what = rnd.random()
            # the option file of the top-level project was edited (range / choices of one option) and is read again
            upd = [kd for kd in tk if kd in ('integer', 'combo', 'array') and not ('p' + kd in subdecl and subdecl['p' + kd][2])]
            if what < 0.12 and upd:
                kind = rnd.choice(upd)
                n = 'p' + kind
                old = decls[(n, '')]
                nd = dict(old)
                if kind == 'integer':
                    how = rnd.choice(['min', 'max', 'both'])
                    lo, hi = old['lo'], old['hi']
                    if hi - lo < 4:
                        lo, hi = API_KINDS['integer']['lo'], API_KINDS['integer']['hi']     # widen again
                    else:
                        lo = lo + rnd.randint(1, (hi - lo) // 2) if how in ('min', 'both') else lo
                        hi = hi - rnd.randint(1, max(1, (hi - lo) // 2)) if how in ('max', 'both') else hi
                    nd['lo'], nd['hi'] = lo, hi
                else:
                    full = API_KINDS[kind]['choices']
                    cur = list(old['choices'])
                    victim = rnd.choice(cur)
                    nd['choices'] = [c for c in cur if c != victim] if len(cur) > 2 and rnd.random() < 0.7 else list(full)
                df = rand_valid(nd, rnd)
                proj = {}
                for kd in tk:
                    nm = 'p' + kd
                    dd = nd if nm == n else decls[(nm, '')]
                    dfl = df if nm == n else rand_valid(dd, rnd)
                    proj[OK(nm, '')] = make_option(mo, nm, {'d': dd, 'def': dfl, 'yield': False})
                decls[(n, '')] = nd
                def do_update() -> None:
                    with mlog.no_logging():        # "old value no longer valid" warnings are expected here
                        store.update_project_options(proj, '')
                event('update_options', do_update, k=K(n, ''), d=nd, **{'def': df})
                continue
            if what < 0.35:
                n, s = rnd.choice(keys)
                r = value_for(n, s, False) if rnd.random() < 0.7 else rand_invalid(decl_of(n, s), rnd)
                if n == 'buildtype' and r['t'] != 'str':
                    r = R('str', 0, ['zz'])
                event('set_option', lambda: store.set_option(okey(n, s), py_raw(r)), k=K(n, s), r=r)
            elif what < 0.75:
                picked = rnd.sample(keys, rnd.randint(1, min(3, len(keys))))
                # buildtype next to an explicit debug/optimization of the same scope in one command: only the
                # unqualified form is exercised here (the per-subproject form belongs to the "bt" family of A)
                # (one buildtype per command: a second one that repeats the value the first just set is the
                # "re-set to the current value" case again)
                firstbt = next((p for p in picked if p[0] == 'buildtype'), None)
                picked = [p for p in picked if p[0] != 'buildtype' or p == firstbt]
                bts = {s for n, s in picked if n == 'buildtype' and s != '~'}
                picked = [p for p in picked if not (p[0] in ('debug', 'optimization') and p[1] in bts)]
                invalid_one = rnd.random() < 0.2
                D = []
                if invalid_one:
                    n, s = picked[0]
                    if n == 'buildtype':
                        D.append({'k': K(n, s), 'r': R('str', 0, ['zz'])})
                    else:
                        D.append({'k': K(n, s), 'r': rand_invalid_text(decl_of(n, s), rnd)})
                else:
                    for n, s in picked:
                        # unqualified names of top-level project options are given as the user would: `name=value`
                        ks = '~' if s == '' and (n, '') in decls and rnd.random() < 0.5 else s
                        D.append({'k': K(n, ks), 'r': value_for(n, s, True)})
                ns2 = argparse.Namespace(cmd_line_options={okey(it['k']['n'], it['k']['s']): py_raw(it['r']) for it in D},
                                         builtin_keys=set(), d_keys=set())
                mcmd.parse_cmd_line_options(ns2)
                event('configure', lambda: store.set_from_configure_command(ns2.cmd_line_options), D=D)
            else:
                cands = keys + [('nosuch', 'sub')]
                n, s = rnd.choice(cands)
                D = [{'k': K(n, s), 'r': R('none')}]
                event('configure', lambda: store.set_from_configure_command({okey(n, s): None}), D=D)
    return {'id': f'api/{j}', 'fam': 'api', 'cross': cross, 'latent': latent, 'ev': events, 'alien': alien,
            'watch': [K(n, s) for n, s in watch]}


def rand_invalid_text(d: T.Dict[str, T.Any], rnd: random.Random) -> T.Dict[str, T.Any]:
    for _ in range(50):
        r = rand_invalid(d, rnd)
        if is_text(r):
            return r
    return R('str', 0, ['zz'])     # only reachable for the string kind, which has no invalid text


def _worker_api(job: T.Tuple[int, int, int]) -> T.List[T.Dict[str, T.Any]]:
    lo, hi, seed = job
    common.use_repo_meson()
    return [api_trace(j, seed) for j in range(lo, hi)]


# ---------------------------------------------------------------------------

ALL_KINDS = ['string', 'boolean', 'integer', 'combo', 'array', 'feature']


def model_check(chk: Check, kinds: T.List[str]) -> T.Dict[str, T.List[T.Dict[str, T.Any]]]:
    """Run OptionStore_MC (two groups, concurrently) and collect the exported cases."""
    from concurrent.futures import ThreadPoolExecutor
    cfg0 = (SPECS / 'options' / 'OptionStore_MC.cfg').read_text()
    cfg0 = re.sub(r'CONSTANT SelKinds = .*\n', 'CONSTANT SelKinds = {%s}\n' % ', '.join(f'"{k}"' for k in kinds), cfg0)
    groups = (['prec'], ['builtin', 'bt', 'prefix', 'machine', 'module', 'invalid'])

    def run(group: T.List[str]) -> T.Any:
        cfg = re.sub(r'CONSTANT Families = .*\n', 'CONSTANT Families = {%s}\n' % ', '.join(f'"{f}"' for f in group), cfg0)
        return run_tlc(SPECS / 'options', 'OptionStore_MC', cfg_text=cfg, collect=['cases.json'], timeout=3000,
                       allow_violation=False, workers=max(2, common.NCPU // 2))

    out: T.Dict[str, T.List[T.Dict[str, T.Any]]] = {}
    with ThreadPoolExecutor(max_workers=2) as tp:
        for group, res in zip(groups, tp.map(run, groups)):
            chk.add_tlc('OptionStore_MC[' + ','.join(group) + ']', res)
            cases = json.loads(res.collected['cases.json'])
            if res.distinct < 6 * len(cases):
                raise MachineryError(f'OptionStore_MC explored {res.distinct} states for {len(cases)} cases')
            for c in cases:
                out.setdefault(c['fam'], []).append(c)
    return out


def account(chk: Check, done: T.List[T.Dict[str, T.Any]]) -> None:
    chk.evaluations += len(done)
    for c in done:
        if c['fam'] == 'api':
            chk.nontriv(c['id'] + json.dumps([e['op'] for e in c['ev']]))
        elif sum(1 for l in c['lv'] if l) >= 2 or c['fam'] == 'invalid' or any('bad' == o['name'] for o in c['opts']):
            chk.nontriv(c['id'])


def main(chk: Check) -> None:
    quick = chk.tier == 'quick'
    rnd = random.Random(chk.seed)
    kinds = ALL_KINDS if not quick else [ALL_KINDS[(chk.seed + i) % 6] for i in (0, 2, 3)]
    n_cli = 64 if quick else 1000
    n_api = 2000 if quick else 12000
    chk.rule = ('A1: every case exported by the TLC model replayed in-process on a real OptionStore; A2: cases merged '
                '(~13 per generated project) through the real CLI; B: random API call sequences. Non-trivial = at '
                'least two sources give the option, or a value is invalid (distinct case ids / call sequences).')
    cases_by_fam = model_check(chk, kinds)
    all_cases = [c for fam in FAMILIES for c in cases_by_fam.get(fam, [])]
    chk.extra['cases_exported'] = {f: len(v) for f, v in cases_by_fam.items()}
    chk.extra['prec_kinds'] = kinds
    with ProcessPoolExecutor(max_workers=common.NCPU) as ex:
        cli_cases = build_cli_cases(cases_by_fam, n_cli, rnd)
        cli_f = ex.map(_worker_cli, [(c, chk.seed * 7919 + i) for i, c in enumerate(cli_cases)])
        step = max(1, len(all_cases) // (common.NCPU * 4) + 1)
        done: T.List[T.Dict[str, T.Any]] = []
        for part in ex.map(_worker_inprocess, [all_cases[i:i + step] for i in range(0, len(all_cases), step)]):
            done.extend(part)
        account(chk, done)
        for c in done[:: max(1, len(done) // 3)][:3]:
            chk.sample({'id': c['id'], 'lv': c['lv'], 'q': c['q'], 'obs': c['obs'], 'raised': c['raised']}, limit=9)
        judge(chk, done, 'A1', 'api')
        step = max(1, n_api // (common.NCPU * 2))
        traces: T.List[T.Dict[str, T.Any]] = []
        for part in ex.map(_worker_api, [(lo, min(n_api, lo + step), chk.seed) for lo in range(0, n_api, step)]):
            traces.extend(part)
        account(chk, traces)
        chk.sample({'id': traces[0]['id'], 'events': [(e['op'], e['raised']) for e in traces[0]['ev']]}, limit=9)
        judge(chk, traces, 'B', 'api')
        cli_done = list(cli_f)
        account(chk, cli_done)
        chk.sample({'id': cli_done[0]['id'], 'parts': cli_done[0]['parts'], 'cmd': cli_done[0].get('cmd'),
                    'obs': cli_done[0]['obs'][:6]}, limit=9)
        judge(chk, cli_done, 'A2', 'cli')
    chk.extra['cli_projects'] = len(cli_done)
    chk.extra['cli_single_cases'] = sum(len(c['parts']) for c in cli_done)
    chk.extra['api_sequences'] = len(traces)
    chk.exhaustive = not quick
    chk.assumptions += [
        'values are drawn from the abstract alphabet of OptionKinds (plain words, decimal text, lists, a,b and [..] text); '
        'strings with commas/brackets/quotes inside array elements are not generated',
        'a buildtype given by a higher-priority source than an explicit debug/optimization: both outcomes allowed '
        '(the statement and Builtin-options.md do not order them)',
        'the subproject\'s own default_options naming its own *yielding* option, unqualified machine-file/command-line '
        'names that only a subproject declares, and `build.` assignments in native builds are not generated (undocumented)',
        'buildtype is never re-set to its current value by the API-sequence generator (docs: re-deduces, code: no-op)',
        'system options other than real builtins are played by compiler options c_<name> in-process; the CLI binding uses '
        'real builtins (default_library, warning_level, werror, buildtype/debug/optimization, prefix/dirs, '
        'python.bytecompile, install_umask, unity_size) and project options of every kind',
        'the reverse deduction (debug+optimization -> buildtype "custom") is outside the statement; '
        'unittests test_buildtype_setting pins that buildtype is left alone',
    ]


def replay(chk: Check, data: T.Dict[str, T.Any]) -> None:
    det = data['detail']
    case = dict(det['case'])
    case['opts'] = det.get('opts') or case.get('opts')
    common.use_repo_meson()
    if case.get('fam') == 'api':
        m = re.fullmatch(r'api/(\d+)', case['id'])
        if not m:
            raise MachineryError('cannot replay ' + case['id'])
        tr = api_trace(int(m.group(1)), data.get('seed', 0))
        judge(chk, [tr], 'replay', 'api')
    elif det.get('surface') == 'cli':
        base = {k: case[k] for k in ('id', 'fam', 'cross', 'opts', 'lv', 'q', 'parts') if k in case}
        judge(chk, [run_cli_case(base, data.get('seed', 0))], 'replay', 'cli')
    else:
        base = {k: case[k] for k in ('id', 'fam', 'cross', 'opts', 'lv', 'q')}
        judge(chk, [replay_inprocess(base)], 'replay', 'api')


if __name__ == '__main__':
    sys.exit(common.run_check(main, PROP, replay=replay))
