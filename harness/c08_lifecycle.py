"""C08 - option state persists faithfully across the build-directory lifecycle.

1. TLC model-checks specs/options/OptionLifecycle_MC: every history of commands (setup, configure -D/-U,
   setup --reconfigure, setup --wipe, option-file edits, failing variants) up to a bound satisfies the
   declarative laws stated over the hidden history ("last value the user gave, else creation default", wipe =
   fresh setup with what the user gave, failed step = no-op, ...).
2. (A) TLC exports every complete history of length 3 over the replay alphabets (the original one; the deprecated /
   renamed options with value maps, late failures and the deleted option file) and of length 4 over one
   (old name, replacement) pair at a time (quick tier: seeded samples that cover every situation tag of the model)
   and simulated longer ones; each is replayed with the real CLI in real processes on a generated
   language-less project + subproject (`--backend=none`); after every command the persisted state is projected
   (`meson introspect --buildoptions`, effective subproject values read back from coredata.dat with the tree's
   own loader, get_option() messages of the configuring run) and TLC judges the recorded history
   (TraceOptionLifecycle).
"""
from __future__ import annotations

import json
import os
import random
import re
import subprocess
import sys
import typing as T
from concurrent.futures import ProcessPoolExecutor
from pathlib import Path

from . import common
from .common import Check, MachineryError, SPECS, run_tlc, scratch

PROP = 'C08'
NONE = '-'
INIT_FILE = {'ch': ['a', 'b', 'c'], 'def': 'a', 'x': False, 'lr': ['2', '5', '8'], 'sch': ['a', 'b', 'c', 'd'], 'present': True}
# the deprecated / renamed options (Build-options.md "Deprecated options") and the buildtype / debug pair
REN_PROJECT = ['omode', 'mode', 'oflag', 'nflag', 'ostr', 'nstr', 'oarr', 'narr', 'obool', 'nfeat', 'marr', 'dall', 'dsome']
OBS_REN = REN_PROJECT + ['dbg']
DKEY = {'popt': 'popt', 'xopt': 'xopt', 'dl': 'default_library', 'subdl': 'sub:default_library', 'subpopt': 'sub:popt',
        'subflag': 'sub:flag', 'level': 'level', 'arr': 'arr', 'bt': 'buildtype', 'dbg': 'debug'}
DKEY.update({k: k for k in REN_PROJECT})
REN_OPTIONS = """\
option('omode', type: 'combo', choices: ['a', 'b', 'c'], value: 'a', deprecated: 'mode')
option('mode', type: 'combo', choices: ['a', 'b', 'c'], value: 'b')
option('oflag', type: 'boolean', value: false, deprecated: 'nflag')
option('nflag', type: 'boolean', value: true)
option('ostr', type: 'string', value: 's0', deprecated: 'nstr')
option('nstr', type: 'string', value: 's1')
option('oarr', type: 'array', value: ['x'], deprecated: 'narr')
option('narr', type: 'array', value: ['y'])
option('obool', type: 'boolean', value: true, deprecated: 'nfeat')
option('nfeat', type: 'feature', value: 'auto', deprecated: {'true': 'enabled', 'false': 'disabled'})
option('marr', type: 'array', choices: ['a', 'b', 'c'], value: ['b'], deprecated: {'a': 'c'})
option('dall', type: 'boolean', value: false, deprecated: true)
option('dsome', type: 'array', choices: ['a', 'b'], value: ['b'], deprecated: ['a'])
"""

PROBE = r'''
import sys, json
sys.path.insert(0, sys.argv[1])
from mesonbuild import coredata
from mesonbuild.options import OptionKey
cd = coredata.load(sys.argv[2])
out = {}
for spec in sys.argv[3:]:
    out[spec] = cd.optstore.get_value_for(OptionKey.from_string(spec))
print(json.dumps(out))
'''


def write_option_file(src: Path, name: str, f: T.Dict[str, T.Any]) -> None:
    if not f.get('present', True):      # the option file of the top-level project is deleted
        if (src / name).exists():
            (src / name).unlink()
        return
    txt = "option('popt', type: 'combo', choices: [%s], value: '%s')\n" % (', '.join("'%s'" % c for c in sorted(f['ch'])), f['def'])
    txt += "option('flag', type: 'boolean', value: false)\n"
    # the declared range of `level`: the model says which of the probe values 2, 5, 8 it admits
    txt += "option('arr', type: 'array', value: ['x'])\n"
    txt += "option('level', type: 'integer', min: %d, max: %d, value: 5)\n" % (1 if '2' in f['lr'] else 4, 9 if '8' in f['lr'] else 6)
    if f['x']:
        txt += "option('xopt', type: 'string', value: 'xd')\n"
    txt += REN_OPTIONS
    (src / name).write_text(txt)
    sub = src / 'subprojects' / 'sub'
    if sub.is_dir():
        (sub / name).write_text("option('popt', type: 'combo', choices: [%s], value: 'd', yield: true)\n"
                                "option('flag', type: 'boolean', value: false, yield: true)\n"
                                % ', '.join("'%s'" % c for c in sorted(f['sch'])))


def make_project(src: Path, optname: str) -> None:
    sub = src / 'subprojects' / 'sub'
    sub.mkdir(parents=True)
    (src / 'meson.build').write_text(
        "project('top', meson_version: '>=1.2.0')\n"
        "fs = import('fs')\n"
        "if fs.exists(meson.current_source_dir() / '%s')\n"
        "  message('OBS|mv|' + get_option('popt'))\n"
        "endif\n"
        "subproject('sub')\n"
        "if fs.exists(meson.current_source_dir() / 'fail.flag')\n"
        "  error('injected failure')\n"
        "endif\n"
        # the latest point at which a (re)configuration can fail: everything has been evaluated, generated and written
        "meson.add_postconf_script(find_program('sh'), '-c', 'test ! -e \"$MESON_SOURCE_ROOT/postconf-fail.flag\"')\n" % optname)
    (sub / 'meson.build').write_text(
        "project('sub', meson_version: '>=1.2.0')\n"
        "message('OBS|msp|' + get_option('popt'))\n"
        "message('OBS|msubdl|' + get_option('default_library'))\n"
        "message('OBS|msf|@0@'.format(get_option('flag')))\n")
    (sub / optname).write_text("option('popt', type: 'combo', choices: ['a', 'b', 'c', 'd'], value: 'd', yield: true)\n"
                               "option('flag', type: 'boolean', value: false, yield: true)\n")
    write_option_file(src, optname, INIT_FILE)


def edit_file(f: T.Dict[str, T.Any], e: T.Dict[str, T.Any]) -> T.Dict[str, T.Any]:
    f = dict(f)
    if e['t'] == 'addx':
        f['x'] = True
    elif e['t'] == 'removex':
        f['x'] = False
    elif e['t'] == 'choices':
        f['ch'] = list(e['ch'])
        f['def'] = e['def']
    elif e['t'] == 'default':
        f['def'] = e['def']
    elif e['t'] == 'range':
        f['lr'] = list(e['ch'])
    elif e['t'] == 'subchoices':
        f['sch'] = list(e['ch'])
    elif e['t'] == 'delfile':
        f['present'] = False
    elif e['t'] == 'addfile':
        f['present'] = True
    else:
        raise MachineryError('unknown edit ' + repr(e))
    return f


def dflags(D: T.List[T.List[str]]) -> T.List[str]:
    return ['-D%s=%s' % (DKEY[k], v) for k, v in D]


def run(cmd: T.List[str], cwd: Path, env: T.Dict[str, str]) -> T.Tuple[int, str]:
    try:
        p = subprocess.run(cmd, cwd=cwd, env=env, stdout=subprocess.PIPE, stderr=subprocess.STDOUT, text=True, timeout=900)
    except subprocess.TimeoutExpired as e:
        raise MachineryError('meson command timed out: ' + ' '.join(cmd[2:])) from e
    return p.returncode, p.stdout


def recorded_cmdline(b: Path) -> T.Dict[str, str]:
    """the [options] section of meson-private/cmd_line.txt (what --wipe replays), for the keys of the model"""
    import configparser
    out = {k: NONE for k in DKEY}
    f = b / 'meson-private' / 'cmd_line.txt'
    if not f.exists():
        return out
    cp = configparser.ConfigParser(delimiters=['='], interpolation=None)
    cp.optionxform = str       # type: ignore[assignment,method-assign]
    try:
        cp.read(f, encoding='utf-8')
        sec = dict(cp['options']) if 'options' in cp else {}
    except configparser.Error:
        return {k: 'unreadable' for k in DKEY}
    back = {v: k for k, v in DKEY.items()}
    for name, val in sec.items():
        if name in back:
            out[back[name]] = val
        elif name != 'backend':
            out.setdefault('other', '')
            out['other'] = (out['other'] + ' ' + name + '=' + val).strip()
    return out


def blank_obs(skip: bool) -> T.Dict[str, T.Any]:
    return {'skip': skip, 'exists': False, 'v': NONE, 'ch': [], 'x': NONE, 'dl': NONE, 'subdl': NONE, 'sp': NONE, 'sf': NONE, 'lv': NONE,
            'ar': NONE, 'sch': [], 'o': {k: NONE for k in OBS_REN}, 'cmd': {k: NONE for k in DKEY}, 'mv': NONE, 'msp': NONE,
            'msubdl': NONE, 'msf': NONE}


def as_text(v: T.Any) -> str:
    """an option value as the model writes it: booleans as true / false, arrays comma-joined ("" = the empty array)"""
    if v is True:
        return 'true'
    if v is False:
        return 'false'
    if isinstance(v, list):
        return ','.join(str(x) for x in v)
    return str(v)


def observe(d: Path, env: T.Dict[str, str], out: str, configuring: bool) -> T.Dict[str, T.Any]:
    """project the persisted state of the build directory"""
    obs = blank_obs(False)
    b = d / 'build'
    obs['cmd'] = recorded_cmdline(b)
    if not (b / 'meson-private' / 'coredata.dat').exists():
        return obs
    obs['exists'] = True
    rc, txt = run([common.PYTHON, str(common.REPO / 'meson.py'), 'introspect', '--buildoptions', str(b)], d, env)
    if rc != 0:
        raise MachineryError('meson introspect failed:\n' + txt[-800:])
    try:
        intro = {e['name']: e for e in json.loads(txt)}
    except ValueError as e:
        raise MachineryError('meson introspect printed no JSON:\n' + txt[-800:]) from e
    top = 'popt' in intro        # (the options of the top-level option file vanish together when the file is deleted)
    obs['v'] = intro['popt']['value'] if top else NONE
    obs['ch'] = sorted(intro['popt']['choices']) if top else []
    obs['sch'] = sorted(intro['sub:popt']['choices'])
    obs['x'] = intro['xopt']['value'] if 'xopt' in intro else NONE
    obs['dl'] = intro['default_library']['value']
    obs['lv'] = str(intro['level']['value']) if 'level' in intro else NONE
    obs['ar'] = ','.join(intro['arr']['value']) if 'arr' in intro else NONE       # "" = the empty array
    for k in OBS_REN:
        name = DKEY[k]
        obs['o'][k] = as_text(intro[name]['value']) if name in intro else NONE
    p = subprocess.run([common.PYTHON, '-c', PROBE, str(common.REPO), str(b), 'sub:default_library', 'sub:popt', 'sub:flag'],
                       cwd=d, env=env, stdout=subprocess.PIPE, stderr=subprocess.PIPE, text=True, timeout=900)
    if p.returncode != 0:
        raise MachineryError('probe of coredata.dat failed:\n' + p.stderr[-800:])
    eff = json.loads(p.stdout)
    obs['subdl'] = eff['sub:default_library']
    obs['sp'] = eff['sub:popt']
    obs['sf'] = 'true' if eff['sub:flag'] is True else 'false' if eff['sub:flag'] is False else repr(eff['sub:flag'])
    if configuring:
        for m in re.finditer(r'Message: OBS\|(\w+)\|(\w+)$', out, re.M):
            obs[m.group(1)] = m.group(2)
    return obs


def replay_history(job: T.Tuple[str, T.List[T.Dict[str, T.Any]], int]) -> T.Dict[str, T.Any]:
    hid, events, seed = job
    rnd = random.Random(seed)
    optname = rnd.choice(['meson.options', 'meson_options.txt'])
    env = dict(os.environ)
    meson = [common.PYTHON, str(common.REPO / 'meson.py')]
    rec = []
    with scratch('c08-') as d:
        src = d / 'src'
        src.mkdir()
        make_project(src, optname)
        f = dict(INIT_FILE)
        for ev in events:
            a = ev['a']
            D = [[k, v] for k, v in ev['D']]
            flags = dflags(D)
            rc, out, how = 0, '', ''
            configuring = False
            flag = src / 'fail.flag'
            pcflag = src / 'postconf-fail.flag'
            if a == 'Edit':
                f = edit_file(f, ev['e'])
                write_option_file(src, optname, f)
            elif a == 'Setup':
                rc, out = run(meson + ['setup', '--backend=none'] + flags + ['build', 'src'], d, env)
                configuring = True
            elif a == 'SetupFail':
                how = rnd.choice(['invalid', 'error'])
                if how == 'error':
                    flag.write_text('x')
                rc, out = run(meson + ['setup', '--backend=none'] + (['-Dpopt=zz'] if how == 'invalid' else []) + ['build', 'src'], d, env)
                if flag.exists():
                    flag.unlink()
            elif a == 'SetupFailPost':
                pcflag.write_text('x')
                rc, out = run(meson + ['setup', '--backend=none'] + flags + ['build', 'src'], d, env)
                pcflag.unlink()
                if 'Postconf script' not in out:
                    how = 'NOT-THE-POSTCONF-SCRIPT'
            elif a == 'ReconfigureFailPost':
                pcflag.write_text('x')
                rc, out = run(meson + ['setup', '--reconfigure'] + flags + ['build', 'src'], d, env)
                pcflag.unlink()
                if 'Postconf script' not in out:
                    how = 'NOT-THE-POSTCONF-SCRIPT'
            elif a == 'Configure':
                rc, out = run(meson + ['configure', 'build'] + flags, d, env)
            elif a == 'ConfigureBad':
                rc, out = run(meson + ['configure', 'build'] + flags, d, env)
            elif a == 'ConfigureFail':
                rc, out = run(meson + ['configure', 'build'] + flags + ['-Dpopt=zz'], d, env)
            elif a == 'ConfigureU':
                rc, out = run(meson + ['configure', 'build', '-U' + DKEY[ev['k']]], d, env)
            elif a == 'Reconfigure':
                rc, out = run(meson + ['setup', '--reconfigure'] + flags + ['build', 'src'], d, env)
                configuring = True
            elif a == 'ReconfigureFail':
                how = rnd.choice(['invalid', 'error', 'error', 'error'])
                if how == 'error':
                    flag.write_text('x')
                rc, out = run(meson + ['setup', '--reconfigure'] + flags + (['-Ddefault_library=zz'] if how == 'invalid' else []) + ['build', 'src'], d, env)
                if flag.exists():
                    flag.unlink()
            elif a == 'Wipe':
                rc, out = run(meson + ['setup', '--wipe', 'build', 'src'], d, env)
                configuring = True
            else:
                raise MachineryError('unknown action ' + a)
            if a == 'Edit':
                obs = blank_obs(True)
            else:
                try:
                    obs = observe(d, env, out, configuring and rc == 0)
                except MachineryError as e:
                    done_so_far = ' ; '.join(x['a'] for x in rec)
                    raise MachineryError(f'history [{hid}] after [{done_so_far} ; {a}] rc={rc}: ' + ' | '.join(str(e).splitlines()[-12:])
                                         + ' || command output: ' + ' | '.join(out.splitlines()[-8:])) from e
            if 'Traceback (most recent call last)' in out:
                how += ' TRACEBACK'
            rec.append({'a': a, 'D': D, 'k': ev['k'], 'e': {'t': ev['e']['t'], 'ch': list(ev['e']['ch']), 'def': ev['e']['def']},
                        'ok': bool(ev['ok']), 'rc': 0 if rc == 0 else 1, 'obs': obs, 'how': how, 'tail': out[-600:] if rc != 0 else ''})
    return {'id': hid, 'ev': rec, 'optfile': optname}


# ---------------------------------------------------------------------------

def norm_event(e: T.Dict[str, T.Any]) -> T.Dict[str, T.Any]:
    """event as printed by TLC (ToJson) -> harness form: D as list of [key, value] pairs"""
    D = e['D']
    if isinstance(D, dict):
        Dl = [[k, v] for k, v in D.items()]
    elif isinstance(D, list):
        Dl = [list(x) for x in D]
    else:
        raise MachineryError('unexpected D in exported history: ' + repr(D))
    return {'a': e['a'], 'D': Dl, 'k': e['k'], 'ok': bool(e['ok']),
            'e': {'t': e['e']['t'], 'ch': sorted(e['e']['ch']), 'def': e['e']['def']}}


def hist_id(h: T.List[T.Dict[str, T.Any]]) -> str:
    def one(e: T.Dict[str, T.Any]) -> str:
        if e['a'] == 'Edit':
            return 'Edit:' + e['e']['t'] + (''.join(e['e']['ch']) + '/' + e['e']['def'] if e['e']['t'] in ('choices', 'default', 'range', 'subchoices') else '')
        if e['a'] == 'ConfigureU':
            return 'U:' + e['k']
        return e['a'] + ''.join(f':{k}={v}' for k, v in e['D'])
    return ' ; '.join(one(e) for e in h)


def mc_cfg(maxlen: int, mode: str, emit: bool) -> str:
    cfg = (SPECS / 'options' / 'OptionLifecycle_MC.cfg').read_text()
    cfg = re.sub(r'MaxLen = \d+', f'MaxLen = {maxlen}', cfg)
    cfg = cfg.replace('Mode = "full"', f'Mode = "{mode}"')
    if emit:
        cfg += 'INVARIANT EmitHistories\n'
    return cfg


def export_histories(maxlen: int, mode: str = 'replay', simulate: T.Optional[int] = None,
                     seed: int = 0) -> T.Tuple[T.List[T.Tuple[T.List[T.Dict[str, T.Any]], T.List[str]]], T.Any]:
    """the complete histories of `maxlen` events of a replay alphabet (all of them, or `simulate` random ones), each
    with the situation tags the model attaches; returns (histories, TLC result)"""
    if simulate is None:
        res = run_tlc(SPECS / 'options', 'OptionLifecycle_MC', cfg_text=mc_cfg(maxlen, mode, True), workers=1, timeout=3000,
                      allow_violation=False)
    else:
        res = run_tlc(SPECS / 'options', 'OptionLifecycle_MC', cfg_text=mc_cfg(maxlen, mode, True), workers=1, timeout=3000,
                      simulate=f'num={simulate}', depth=maxlen + 1, tlc_seed=seed + 1)
        if res.invariant_violated or res.deadlock:
            raise MachineryError('simulation of OptionLifecycle_MC reported a problem:\n' + res.stdout[-1500:])
    hs = [([norm_event(e) for e in rec['h']], sorted(rec['tags'])) for rec in res.json_lines()]
    seen: T.Dict[str, int] = {}
    out: T.List[T.Tuple[T.List[T.Dict[str, T.Any]], T.List[str]]] = []
    for h, tags in hs:
        k = hist_id(h)
        if k not in seen:
            seen[k] = len(out)
            out.append((h, tags))
        else:       # the same commands with the other allowed outcome of a no-op configure: merge the tags
            j = seen[k]
            out[j] = (out[j][0], sorted(set(out[j][1]) | set(tags)))
    return out, res


def covering_sample(hs: T.List[T.Tuple[T.List[T.Dict[str, T.Any]], T.List[str]]], n: int, per_tag: int,
                    rnd: random.Random) -> T.List[T.Tuple[T.List[T.Dict[str, T.Any]], T.List[str]]]:
    """seeded sample in which every situation tag of the model occurs at least per_tag times (when available)"""
    if len(hs) <= n:
        return list(hs)
    order = list(range(len(hs)))
    rnd.shuffle(order)
    chosen: T.List[int] = []
    count: T.Dict[str, int] = {}
    alltags = sorted({t for _, tags in hs for t in tags})
    for t in alltags:
        for j in order:
            if count.get(t, 0) >= per_tag:
                break
            if t in hs[j][1] and j not in chosen:
                chosen.append(j)
                for u in hs[j][1]:
                    count[u] = count.get(u, 0) + 1
    for j in order:
        if len(chosen) >= n:
            break
        if j not in chosen:
            chosen.append(j)
    return [hs[j] for j in chosen]


def judge(chk: Check, cases: T.List[T.Dict[str, T.Any]], label: str) -> None:
    by_id = {c['id']: c for c in cases}
    if len(by_id) != len(cases):
        raise MachineryError('duplicate history ids')
    for part_no, part in enumerate(common.chunks(cases, 5000)):
        with scratch('c08j-') as d:
            tf = d / 'cases.json'
            slim = [{'id': c['id'], 'ev': [{k: e[k] for k in ('a', 'D', 'k', 'e', 'ok', 'rc', 'obs')} for e in c['ev']]} for c in part]
            tf.write_text(json.dumps(slim))
            res = run_tlc(SPECS / 'options', 'TraceOptionLifecycle', env={'TRACE_FILE': str(tf)}, timeout=3600)
            bad = res.json_lines()
            if not res.clean:
                raise MachineryError('TraceOptionLifecycle did not complete cleanly:\n' + res.stdout[-2500:])
            if res.distinct != 2 * len(part):
                raise MachineryError(f'TraceOptionLifecycle judged {res.distinct // 2} of {len(part)} histories')
            nlines = sum(1 for ln in res.stdout.splitlines() if ln.strip().startswith('"{'))
            if nlines != len(bad):
                res1 = run_tlc(SPECS / 'options', 'TraceOptionLifecycle', env={'TRACE_FILE': str(tf)}, timeout=3600, workers=1)
                bad = res1.json_lines()
        chk.add_tlc(f'TraceOptionLifecycle[{label}#{part_no}]', res, model=False)
        chk.traces += len(part)
        for v in bad:
            c = by_id.get(v['id'], {})
            if v['clause'] == 'EventNotInModel':
                raise MachineryError(f"history {v['id']} contains an event the model does not allow at step {v['step']}")
            chk.violation(f"{v['clause']}:{v['sig']}", {'verdict': v, 'history': c.get('id'), 'events': c.get('ev'),
                                                        'optfile': c.get('optfile')})


Hist = T.Tuple[T.List[T.Dict[str, T.Any]], T.List[str]]


def long_sample(short: T.List[Hist], longer: T.List[Hist], n_long: int, rnd: random.Random) -> T.List[Hist]:
    """situations that need more events than the exhaustive histories have (a value invalidated by a choice edit, an
    option removed after it existed, ...) come from the simulated longer histories: cover those first"""
    seen_tags = {t for _, tags in short for t in tags}
    rare = [x for x in longer if set(x[1]) - seen_tags]
    longer = (covering_sample(rare, min(len(rare), max(2, n_long // 2)), 2, rnd) if rare else []) + \
        covering_sample(longer, n_long, 1, rnd)
    uniq: T.Dict[str, Hist] = {}
    for h, tags in longer:
        uniq.setdefault(hist_id(h), (h, tags))
    return list(uniq.values())[:n_long]


def plan(chk: Check) -> T.List[T.List[T.Dict[str, T.Any]]]:
    """model checking, export of the histories, the seeded selection of those that are replayed"""
    from concurrent.futures import ThreadPoolExecutor
    quick = chk.tier == 'quick'
    rnd = random.Random(chk.seed)
    n_mc = 3 if quick else 4
    n_mc_pair = 4 if quick else 5
    n_short = 80 if quick else 3600      # thorough: a covering sample of the ~5300 three-event histories (time budget)
    n_long = 14 if quick else 300
    n_ren = 36 if quick else 700        # three-event histories over the deprecated options / late failures / deleted file
    n_pair = 36 if quick else 500       # four-event histories over one (old name, replacement) pair
    n_ren_long = 8 if quick else 80
    long_len = 6 if quick else 7
    chk.rule = ('every complete history of 3 events over the replay alphabets and of 4 events over one renamed pair exported by '
                'TLC (quick: seeded samples covering every situation tag) plus '
                'TLC-simulated longer histories, each replayed with the real CLI; non-trivial = the history contains at '
                'least one -D/-U after setup or an option-file edit followed by a command (distinct histories)')
    # the TLC runs that do not depend on each other run side by side
    jobs_tlc: T.Dict[str, T.Callable[[], T.Any]] = {
        f'OptionLifecycle_MC[full,MaxLen={n_mc}]':
            lambda: run_tlc(SPECS / 'options', 'OptionLifecycle_MC', cfg_text=mc_cfg(n_mc, 'full', False), timeout=3000, allow_violation=False),
        f'OptionLifecycle_MC[fullren,MaxLen={n_mc}]':
            lambda: run_tlc(SPECS / 'options', 'OptionLifecycle_MC', cfg_text=mc_cfg(n_mc, 'fullren', False), timeout=6000, allow_violation=False),
        f'OptionLifecycle_MC[fullpair,MaxLen={n_mc_pair}]':
            lambda: run_tlc(SPECS / 'options', 'OptionLifecycle_MC', cfg_text=mc_cfg(n_mc_pair, 'fullpair', False), timeout=6000, allow_violation=False),
        'OptionLifecycle_MC[replay,MaxLen=3]': lambda: export_histories(3, 'replay'),
        'OptionLifecycle_MC[replayren,MaxLen=3]': lambda: export_histories(3, 'replayren'),
        'OptionLifecycle_MC[replaypair,MaxLen=4]': lambda: export_histories(4, 'replaypair'),
        'sim:replay': lambda: export_histories(long_len, 'replay', simulate=max(60, n_long), seed=chk.seed),
        'sim:replayren': lambda: export_histories(long_len, 'replayren', simulate=max(60, n_ren_long), seed=chk.seed + 7),
        'sim:replaypair': lambda: export_histories(long_len, 'replaypair', simulate=max(60, n_ren_long), seed=chk.seed + 13),
    }
    with ThreadPoolExecutor(max_workers=3 if quick else 2) as tex:
        futs = {name: tex.submit(fn) for name, fn in jobs_tlc.items()}
        results = {name: fut.result() for name, fut in futs.items()}
    for name, r in results.items():
        if name.startswith('sim:'):
            continue
        chk.add_tlc(name, r[1] if isinstance(r, tuple) else r)
    short_all, ren_all, pair_all = (results[f'OptionLifecycle_MC[{m}]'][0] for m in ('replay,MaxLen=3', 'replayren,MaxLen=3', 'replaypair,MaxLen=4'))
    chk.extra['histories_len3_total'] = len(short_all)
    chk.extra['histories_ren_len3_total'] = len(ren_all)
    chk.extra['histories_pair_len4_total'] = len(pair_all)
    chk.extra['situation_tags'] = sorted({t for _, tags in short_all + ren_all + pair_all for t in tags})
    short = covering_sample(short_all, n_short, 3, rnd)
    # (a situation of these families shows a deviation whenever it occurs: one history per tag, the rest at random)
    ren = covering_sample(ren_all, n_ren, 1 if quick else 3, rnd)
    pair = covering_sample(pair_all, n_pair, 1 if quick else 3, rnd)
    longer = long_sample(short, results['sim:replay'][0], n_long, rnd)
    longer_ren = long_sample(ren + pair, results['sim:replayren'][0] + results['sim:replaypair'][0], n_ren_long, rnd)
    chk.extra['situation_tags_long'] = sorted({t for _, tags in longer + longer_ren for t in tags})
    chk.extra['situation_tags_replayed'] = sorted({t for _, tags in short + ren + pair + longer + longer_ren for t in tags})
    uniq: T.Dict[str, T.List[T.Dict[str, T.Any]]] = {}
    for h, _ in short + ren + pair + longer + longer_ren:
        uniq.setdefault(hist_id(h), h)
    chk.extra['longer_histories'] = len(longer) + len(longer_ren)
    chk.exhaustive = (not quick) and len(short_all) <= n_short and len(ren_all) <= n_ren and len(pair_all) <= n_pair
    return list(uniq.values())


def main(chk: Check) -> None:
    hists = plan(chk)
    jobs = [(hist_id(h), h, chk.seed * 104729 + i) for i, h in enumerate(hists)]
    jobs.sort(key=lambda j: -len(j[1]))
    with ProcessPoolExecutor(max_workers=common.NCPU) as ex:
        done = list(ex.map(replay_history, jobs, chunksize=1))
    chk.evaluations += sum(len(c['ev']) for c in done)
    for c in done:
        acts = [e['a'] for e in c['ev']]
        if any(a in ('Configure', 'ConfigureU', 'Reconfigure', 'Wipe') for a in acts[1:]) or 'Edit' in acts[:-1]:
            chk.nontriv(c['id'])
    for c in done[:: max(1, len(done) // 4)][:4]:
        chk.sample({'history': c['id'], 'steps': [{'a': e['a'], 'D': e['D'], 'rc': e['rc'],
                                                    'obs': {k: e['obs'][k] for k in ('exists', 'v', 'ch', 'x', 'dl', 'subdl', 'sp', 'sf', 'lv', 'ar', 'sch', 'o', 'cmd')}}
                                                   for e in c['ev']]})
    judge(chk, done, 'A')
    chk.extra['histories_replayed'] = len(done)
    chk.extra['commands_run'] = sum(1 for c in done for e in c['ev'] if e['a'] != 'Edit')
    chk.assumptions += [
        'one project shape: top-level combo option popt (choices edited), string option xopt (added/removed), boolean option '
        'flag (never changed), integer option level (min/max edited: raise min, lower max, both), array option arr (given '
        'empty with -Darr=; xopt is also given empty, sub:flag also given false), subproject options popt '
        'and flag with yield:true, builtin default_library with a sub:default_library override',
        'deprecated options in the same option file: five options replaced by an option of another name (deprecated: \'newname\'; combo, '
        'boolean, string, array, and the documentation\'s boolean replaced by a feature with a value map), the old and the new name '
        'declared with different defaults; an array with deprecated: {\'a\': \'c\'}, a boolean with deprecated: true, an array with '
        'deprecated: [\'a\'] (the last two only warn); one assignment per command (the order of -Dold -Dnew inside one command is not modelled)',
        'the builtin pair buildtype / debug as an order-dependent pair: only debug is observed (what buildtype itself shows after an '
        'explicit debug, and optimization, are C07\'s); buildtype is given only values other than the one it has and never its default '
        '"debug" (the tree expands buildtype only when its value changes, the documentation says always - C07)',
        'late failures: a postconf script (meson.add_postconf_script) that exits non-zero during setup / setup --reconfigure',
        'the option file of the top-level project is deleted / re-created only while no value of one of its options is recorded (a '
        'recorded value of a vanished option is the known finding stale-x); while it is gone the effective values of the yielding '
        'subproject options (whose parents vanished) are not compared',
        'the recorded command line is observed as the [options] section of meson-private/cmd_line.txt (the file --wipe replays); its '
        'order is not observed, only what --wipe makes of it',
        'a -D of `setup --reconfigure` is generated only when it is valid both for the stored and for the edited option file '
        '(meson applies it before it re-reads the option file); --wipe only when the recorded command line still fits the option file',
        'a -D of `meson configure` is valid when it fits the edited option file (configure re-reads it first); the thorough tier '
        'replays seeded covering samples (3600 / 700 / 500) of the exported histories when there are more',
        '-U is generated for sub:popt, sub:flag and for an existing sub:default_library override only (-U of a missing override is an error)',
        'a `configure` that changes no value may leave an edited option file unprocessed (both outcomes allowed)',
        'effective subproject values are read from coredata.dat with the tree\'s own loader (introspection shows stored values '
        'of options, not per-subproject overrides)',
    ]


def replay(chk: Check, data: T.Dict[str, T.Any]) -> None:
    det = data['detail']
    events = [{'a': e['a'], 'D': e['D'], 'k': e['k'], 'e': e['e'], 'ok': e['ok']} for e in det['events']]
    c = replay_history((det['history'], events, data.get('seed', 0)))
    judge(chk, [c], 'replay')


if __name__ == '__main__':
    sys.exit(common.run_check(main, PROP, replay=replay))
