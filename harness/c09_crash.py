"""C09 - a killed meson command never bricks the build directory.

1. TLC model-checks specs/builddir/BuildDirCrash_MC: a family of write-protocol designs for
   setup / reconfigure / configure / wipe (atomic or in-place per file, write order, chunking, how
   --wipe keeps the command line, rollback) on every directory history, crashed after every prefix
   and recovered.  Every safe design satisfies Recoverable and ValuesOldOrNew; the as-built family
   is expected to violate NoBrick (non-vacuity: that is the defect the recorded scripts show).
2. (A) every abstract crash state of the reader model (coredata.dat x cmd_line.txt in
   absent/full/empty/partial) is written to a real configured directory and the real follow-up
   `meson setup [--reconfigure]` is judged against RecoverOutcome (TraceBuildDirCrash, SpecReplay).
   The same replay measures two constants of the reader model on the real code: whether a torn
   cmd_line.txt makes it raise, and whether a first run reads the machine files back from it.
   Options are judged in three classes: given with -D, set by a machine file (--native-file),
   taken from the environment of the first run - the last two live in coredata.dat only.
3. (B) recording: each mutating command of each history runs once under strace with its state files
   watched; the log becomes the operation script.  TLC runs the machine of BuildDirCrash over the
   recorded scripts (SpecModel): every prefix is crashed and recovered in the model, the protocol
   laws (core data never torn / fsync'ed before rename / rolled back on failure, build.ninja never
   torn) are checked on the actual write protocol, and every prefix the model flags is scheduled
   for confirmation on the real code.
4. (B) fault enumeration: for the kill points (all in the thorough tier; a seeded stride sample
   plus the flagged ones in the quick tier) the real command is re-run on a freshly built
   pre-state and killed (SIGKILL) at the entry of that system call; the state files found are
   projected, the real follow-up is run without strace, option values are read with
   `meson introspect --buildoptions`, and TLC judges the case (SpecKill): crash state equals
   Run(script, k), follow-up succeeded, every option old or new, the generation the model predicts,
   no state file left torn.
"""
from __future__ import annotations

import configparser
import json
import os
import pickle
import random
import shutil
import subprocess
import sys
import threading
import typing as T
from concurrent.futures import ThreadPoolExecutor
from pathlib import Path

from . import common, c09_strace as st
from .common import Check, MachineryError, SPECS, run_tlc, scratch

PROP = 'C09'
FAM = SPECS / 'builddir'
NINJA_STUB = str(common.VERIF / 'tools' / 'ninja-stub')
SITE_DIR = str(Path(__file__).resolve().parent / 'c09_site')
CLI_TIMEOUT = 900          # generous: 16 cores are shared with other checks
CORE = 'meson-private/coredata.dat'
CMDL = 'meson-private/cmd_line.txt'
ALWAYS = [CORE, CORE + '~', CORE + '.prev', CMDL, 'meson-private', 'meson-info', '.']
LABELS = ['old', 'new', 'default']

# ---------------------------------------------------------------------------
# projects

OPTIONS = ("option('opt', type: 'string', value: 'd')\noption('other', type: 'string', value: 'keep')\n"
           "option('mopt', type: 'string', value: 'md')\n")
# a machine file: values that live in coredata.dat only (cmd_line.txt records just the path of the file)
NATIVE_INI = "[project options]\nmopt = 'm'\n\n[built-in options]\nwarning_level = '3'\n"
# option name -> where its value is recorded: d = -D (cmd_line.txt [options]), m = machine file, e = environment of the first run
OPTION_CLASS = {'mopt': 'm', 'warning_level': 'm', 'pkg_config_path': 'e'}
ENV_PC = 'env:PKG_CONFIG_PATH=/opt/c09/lib/pkgconfig'
NF = '--native-file=@NATIVE@'
PIPE = '--native-file=/dev/stdin'
PROJECTS = {
    # language-less: fastest (used with --backend=none)
    'plain': {'meson.build': "project('p')\nmessage('opt=' + get_option('opt'))\n", 'meson.options': OPTIONS},
    # C project for the ninja backend (build.ninja, compile_commands.json, cleantrees.dat ...)
    'c': {'meson.build': "project('p', 'c')\nmessage('opt=' + get_option('opt'))\n"
                         "executable('e', 'e.c', install: true)\ntest('t', find_program('true'))\n",
          'meson.options': OPTIONS, 'e.c': 'int main(void) { return 0; }\n'},
    # language-less with the ninja backend; -Dopt=bad makes the *backend* fail (two producers of one
    # output), i.e. after the core data has been written: exercises the rollback
    'failable': {'meson.build': "project('p')\nmessage('opt=' + get_option('opt'))\n"
                                "t = find_program('true')\n"
                                "custom_target('one', output: 'out.txt', command: [t])\n"
                                "if get_option('opt') == 'bad'\n"
                                "  custom_target('two', output: 'out.txt', command: [t])\nendif\n",
                 'meson.options': OPTIONS},
}


class History(T.NamedTuple):
    id: str
    project: str
    kind: str                               # setup | reconfigure | configure | wipe
    pre: T.Tuple[T.Tuple[str, ...], ...]    # commands that build the pre-state (verb, args...)
    cmd: T.Tuple[str, ...]                  # the command under test
    failed: bool = False                    # the command fails by itself (only its final state is a crash state)
    uses_m: bool = False                    # the pre-state / the command sets options through a machine file
    uses_e: bool = False                    # the pre-state took an option from the environment of the first run
    quick: int = 0                          # quick tier: 0 = script laws + final state + flagged points, n = every n-th kill point too


NONE = '--backend=none'
HISTORIES = [
    History('setup-fresh', 'plain', 'setup', (), ('setup', NONE, '-Dopt=a', '-Dother=x'), quick=3),
    History('setup-partial', 'plain', 'setup', (('mkdir', 'meson-private'),), ('setup', NONE, '-Dopt=a')),
    History('reconf-a', 'plain', 'reconfigure', (('setup', NONE, '-Dopt=a', '-Dother=x'),), ('setup', '--reconfigure', '-Dopt=b'), quick=3),
    History('reconf-b', 'plain', 'reconfigure', (('setup', NONE, '-Dopt=a'), ('configure', '-Dopt=c', '-Dother=y')),
            ('setup', '--reconfigure', '-Dopt=b')),
    History('reconf-noop', 'plain', 'reconfigure', (('setup', NONE, '-Dopt=a'),), ('setup', '--reconfigure')),
    History('conf-a', 'plain', 'configure', (('setup', NONE, '-Dopt=a', '-Dother=x'),), ('configure', '-Dopt=b'), quick=4),
    History('conf-b', 'plain', 'configure', (('setup', NONE, '-Dopt=a'), ('setup', '--reconfigure', '-Dopt=c')),
            ('configure', '-Dopt=b', '-Dother=y')),
    History('wipe-a', 'plain', 'wipe', (('setup', NONE, '-Dopt=a', '-Dother=x'),), ('setup', '--wipe'), quick=8),
    History('wipe-b', 'plain', 'wipe', (('setup', NONE, '-Dopt=a'), ('configure', '-Dopt=c')), ('setup', '--wipe')),
    History('ninja-fresh', 'c', 'setup', (), ('setup', '-Dopt=a')),
    History('ninja-reconf', 'c', 'reconfigure', (('setup', '-Dopt=a', '-Dother=x'),), ('setup', '--reconfigure', '-Dopt=b'), quick=0),
    History('ninja-wipe', 'c', 'wipe', (('setup', '-Dopt=a'), ('configure', '-Dother=y')), ('setup', '--wipe')),
    # values that are *not* in cmd_line.txt [options]: set by a machine file / taken from the first run's environment
    History('nf-fresh', 'plain', 'setup', (), ('setup', NONE, NF, '-Dopt=a'), uses_m=True),
    History('nf-reconf', 'plain', 'reconfigure', (('setup', NONE, NF, '-Dopt=a', '-Dother=x'),), ('setup', '--reconfigure', '-Dopt=b'), uses_m=True),
    History('nf-conf', 'plain', 'configure', (('setup', NONE, NF, '-Dopt=a'),), ('configure', '-Dopt=b'), uses_m=True),
    History('nf-wipe', 'plain', 'wipe', (('setup', NONE, NF, '-Dopt=a'),), ('setup', '--wipe'), uses_m=True),
    # the machine file is given as a pipe: meson-private/<uuid>.native.ini is the only copy
    History('pipe-fresh', 'plain', 'setup', (), ('stdin:native', 'setup', NONE, PIPE, '-Dopt=a'), uses_m=True),
    History('pipe-reconf', 'plain', 'reconfigure', (('stdin:native', 'setup', NONE, PIPE, '-Dopt=a'),), ('setup', '--reconfigure', '-Dopt=b'), uses_m=True),
    History('pipe-conf', 'plain', 'configure', (('stdin:native', 'setup', NONE, PIPE, '-Dopt=a'),), ('configure', '-Dopt=b'), uses_m=True),
    History('pipe-wipe', 'plain', 'wipe', (('stdin:native', 'setup', NONE, PIPE, '-Dopt=a', '-Dother=x'),), ('setup', '--wipe'), uses_m=True),
    History('env-reconf', 'plain', 'reconfigure', ((ENV_PC, 'setup', NONE, '-Dopt=a'),), ('setup', '--reconfigure', '-Dopt=b'), uses_e=True),
    History('env-conf', 'plain', 'configure', ((ENV_PC, 'setup', NONE, NF, '-Dopt=a'),), ('configure', '-Dopt=b'), uses_m=True, uses_e=True),
    History('fail-reconf', 'failable', 'reconfigure', (('setup', '-Dopt=a'),), ('setup', '--reconfigure', '-Dopt=bad'), failed=True),
    History('fail-fresh', 'failable', 'setup', (), ('setup', '-Dopt=bad'), failed=True),
]
QUICK_SET = ('setup-fresh', 'reconf-a', 'conf-a', 'wipe-a', 'ninja-reconf', 'fail-reconf', 'nf-reconf', 'nf-wipe', 'env-conf',
             'pipe-wipe', 'pipe-reconf')


# ---------------------------------------------------------------------------
# running meson

def split_env(verb_args: T.Sequence[str]) -> T.Tuple[T.Dict[str, str], T.Tuple[str, ...]]:
    """('env:K=V', ..., verb, args...) -> ({K: V}, (verb, args...))"""
    env = {}
    rest = list(verb_args)
    while rest and rest[0].startswith(('env:', 'stdin:')):
        if rest[0].startswith('env:'):
            k, v = rest[0][4:].split('=', 1)
            env[k] = v
        rest.pop(0)
    return env, tuple(rest)


def stdin_of(verb_args: T.Sequence[str]) -> T.Optional[str]:
    """'stdin:native' in front of a command: the machine file is piped to it (--native-file=/dev/stdin)"""
    return NATIVE_INI if 'stdin:native' in verb_args else None


def meson_cmd(verb_args: T.Sequence[str], bdir: Path, src: Path) -> T.List[str]:
    verb_args = split_env(verb_args)[1]
    verb, args = verb_args[0], [a.replace('@NATIVE@', str(src.parent / 'native.ini')) for a in verb_args[1:]]
    base = [common.PYTHON, str(common.REPO / 'meson.py')]
    if verb == 'setup':
        return base + ['setup'] + args + [str(bdir), str(src)]
    if verb == 'configure':
        return base + ['configure'] + args + [str(bdir)]
    raise MachineryError('unknown verb ' + verb)


def run_env(run: Path) -> T.Dict[str, str]:
    e = dict(os.environ)
    e.update({'NINJA': NINJA_STUB, 'TMPDIR': str(run / 'tmp'), 'LC_ALL': 'C', 'PYTHONDONTWRITEBYTECODE': '1',
              'PYTHONHASHSEED': '0', 'MESON_VERIF_C09_TMPNAMES': '1',
              # deterministic tempfile names inside the meson processes (see c09_site/sitecustomize.py)
              'PYTHONPATH': SITE_DIR + (os.pathsep + e['PYTHONPATH'] if e.get('PYTHONPATH') else '')})
    for k in ('CC', 'CFLAGS', 'LDFLAGS', 'CPPFLAGS', 'DESTDIR', 'MESON_PACKAGE_CACHE_DIR', 'PKG_CONFIG_PATH', 'CMAKE_PREFIX_PATH'):
        e.pop(k, None)
    return e


def run_cli(cmd: T.Sequence[str], run: Path, extra_env: T.Optional[T.Dict[str, str]] = None,
            stdin_text: T.Optional[str] = None) -> T.Tuple[int, str]:
    try:
        p = subprocess.run(list(cmd), env=dict(run_env(run), **(extra_env or {})), stdout=subprocess.PIPE, stderr=subprocess.STDOUT,
                           timeout=CLI_TIMEOUT, text=True, errors='replace',
                           **({'input': stdin_text} if stdin_text is not None else {'stdin': subprocess.DEVNULL}))
    except subprocess.TimeoutExpired as e:
        raise MachineryError('meson command timed out: ' + ' '.join(cmd)) from e
    return p.returncode, p.stdout


class World:
    """Scratch area of one check run: source trees and numbered run directories (equal path lengths, so
    that pickles and therefore write() chunkings are the same in every run)."""

    def __init__(self, root: Path):
        self.root = root
        self.n = 0
        self.lock = threading.Lock()
        self.src: T.Dict[str, Path] = {}
        for name, files in PROJECTS.items():
            d = root / ('src-' + name)
            for rel, text in files.items():
                (d / rel).parent.mkdir(parents=True, exist_ok=True)
                (d / rel).write_text(text)
            self.src[name] = d
        (root / 'native.ini').write_text(NATIVE_INI)

    def new_run(self) -> Path:
        with self.lock:
            self.n += 1
            run = self.root / f'r{self.n:05d}'
        (run / 'tmp').mkdir(parents=True)
        return run


def build_pre(w: World, h: History, run: Path) -> Path:
    bdir = run / 'b'
    for c in h.pre:
        if c[0] == 'mkdir':
            (bdir / c[1]).mkdir(parents=True)
            continue
        rc, out = run_cli(meson_cmd(c, bdir, w.src[h.project]), run, split_env(c)[0], stdin_of(c))
        if rc != 0:
            raise MachineryError(f'pre-history command of {h.id} failed: {c}\n{out[-1500:]}')
    return bdir


def buildoptions(bdir: Path, run: Path) -> T.Optional[T.Dict[str, T.Any]]:
    rc, out = run_cli([common.PYTHON, str(common.REPO / 'meson.py'), 'introspect', '--buildoptions', str(bdir)], run)
    if rc != 0:
        return None
    try:
        data = json.loads(out[out.index('['):])
    except (ValueError, json.JSONDecodeError):
        return None
    return {o['name']: o['value'] for o in data}


# ---------------------------------------------------------------------------
# which paths are state files

def tracked(rel: str) -> bool:
    parts = rel.split('/')
    name = parts[-1]
    if rel in ('meson-private', 'meson-info', '.'):
        return True
    if rel.startswith('$TMP/'):
        return True
    if len(parts) == 2 and parts[0] == 'meson-private':
        return not (name == 'meson.lock' or name.startswith(('sanity_check', 'tmp', '__pycache__'))
                    or name.endswith(('.c', '.exe', '.o', '.obj', '.h', '.pyc', '.cpp', '.rs')))
    if len(parts) == 2 and parts[0] == 'meson-info':
        return True
    if len(parts) == 1:
        return name.startswith(('build.ninja', 'compile_commands.json'))
    return False


def concrete(bdir: Path, rel: str, piped: str = '') -> Path:
    """abstract state-file name -> path in this run ($TMP: the run's TMPDIR; $PIPED: the uuid of the one private
    machine-file copy - looked up in the directory, or `piped` (seen in the discovery run) when it does not exist yet)"""
    if rel == '.':
        return bdir
    p = bdir.parent / 'tmp' / rel[5:] if rel.startswith('$TMP/') else bdir / rel
    if '$PIPED' in p.name:
        hits = sorted(p.parent.glob(p.name.replace('$PIPED', '*-*-*-*-*')))
        return hits[0] if hits else p.parent / p.name.replace('$PIPED', piped or '00000000-0000-4000-8000-000000000004')
    return p


def existing_state_files(bdir: Path) -> T.List[str]:
    return [st.abstract_name(x) for x in _existing_state_files(bdir)]


def _existing_state_files(bdir: Path) -> T.List[str]:
    out = []
    if bdir.is_dir():
        for sub in ('meson-private', 'meson-info'):
            d = bdir / sub
            if d.is_dir():
                out.append(sub)
                out += [f'{sub}/{p.name}' for p in sorted(d.iterdir()) if not p.is_dir() and tracked(f'{sub}/{p.name}')]
        out += [p.name for p in sorted(bdir.iterdir()) if not p.is_dir() and tracked(p.name)]
    return out


# ---------------------------------------------------------------------------
# projection of real files to abstract contents

def _opt_labels(value: T.Any, maps: T.Dict[str, T.Dict[str, T.Any]]) -> T.List[str]:
    """which generations of option values a content with opt=value is consistent with ("older": none of
    them - a left-over of an earlier command, e.g. coredata.dat.prev)"""
    return [lb for lb in LABELS if maps[lb].get('opt', object()) == value] or ['older']


def loadable_manifest(data: bytes) -> bool:
    """could ninja load this build.ninja: it parses, no rule or pool is defined twice, no output has two producers"""
    from . import ninja_ref
    try:
        m = ninja_ref.parse_text(data.decode('utf-8', errors='surrogateescape'))
    except Exception:
        return False
    return not (m.errors or m.duplicate_rules or m.duplicate_pools or any(len(v) > 1 for v in m.producers().values()))


def project_file(path: Path, rel: str, maps: T.Dict[str, T.Dict[str, T.Any]]) -> T.Dict[str, T.Any]:
    """real file -> [f, st, vers]: st in absent/dir/empty/partial/full ("partial" = has data but does not
    parse as what it is); vers = which generations of option values the content is consistent with."""
    if path.is_dir():
        return {'f': rel, 'st': 'dir', 'vers': []}
    if not path.exists():
        return {'f': rel, 'st': 'absent', 'vers': []}
    data = path.read_bytes()
    if not data:
        return {'f': rel, 'st': 'empty', 'vers': []}
    name = rel.split('/')[-1]
    vers = list(LABELS) + ['none', 'older']
    full = True
    try:
        if name.startswith('coredata.dat') or name.endswith(('.dat', '.dat~', '.dat.prev')):
            obj = pickle.loads(data)
            if name.startswith('coredata.dat'):
                try:
                    val = [v.value for k, v in obj.optstore.options.items() if k.name == 'opt'][0]
                    vers = _opt_labels(val, maps)
                except Exception:
                    pass      # layout of the pickled object changed: content generation unknown
        elif name.startswith('cmd_line.txt'):
            cp = configparser.ConfigParser(interpolation=None)
            cp.optionxform = str  # type: ignore
            cp.read_string(data.decode('utf-8'))
            if 'options' not in cp or 'properties' not in cp:
                full = False
            else:
                vers = _opt_labels(cp['options'].get('opt', maps['default'].get('opt')), maps)
        elif name.endswith('.json'):
            obj = json.loads(data.decode('utf-8'))
            if name == 'intro-buildoptions.json':
                vers = _opt_labels([o['value'] for o in obj if o['name'] == 'opt'][0], maps)
        elif name.startswith('build.ninja'):
            full = data.endswith(b'default all\n\n')
            if full and not loadable_manifest(data):
                return {'f': rel, 'st': 'garbled', 'vers': []}
        elif name.endswith('.ini'):
            cp = configparser.ConfigParser(interpolation=None)
            cp.read_string(data.decode('utf-8'))
            full = len(cp.sections()) > 0
    except Exception:
        full = False
    return {'f': rel, 'st': 'full' if full else 'partial', 'vers': vers if full else []}


def project_state(run: Path, names: T.Sequence[str], maps: T.Dict[str, T.Dict[str, T.Any]]) -> T.List[T.Dict[str, T.Any]]:
    out = []
    for rel in names:
        out.append(project_file(concrete(run / 'b', rel), rel, maps))
    return out


# ---------------------------------------------------------------------------
# recording

class Recorded(T.NamedTuple):
    hist: History
    script: T.Dict[str, T.Any]               # what TLC gets
    points: T.List[T.Dict[str, T.Any]]       # per op: syscall, ordinal, killable
    names: T.List[str]
    watch: T.List[str]                       # relative paths handed to strace -P
    piped: str                               # uuid in the name of the private copy of a piped machine file ('' if none)
    maps: T.Dict[str, T.Dict[str, T.Any]]    # old/new/default option values
    rc: int


def follow_up(w: World, h: History, run: Path) -> T.Tuple[bool, bool, str]:
    """The recovery command: `meson setup`, with --reconfigure when the directory counts as configured."""
    bdir = run / 'b'
    reconf = (bdir / CORE).exists()
    rc, out = run_cli(meson_cmd(('setup',) + (('--reconfigure',) if reconf else ()), bdir, w.src[h.project]), run)
    ok = rc == 0 and 'Traceback (most recent call last)' not in out and 'Unhandled python exception' not in out
    return reconf, ok, out


def default_values(w: World, project: str) -> T.Dict[str, T.Any]:
    run = w.new_run()
    rc, out = run_cli(meson_cmd(('setup',), run / 'b', w.src[project]), run)
    vals = buildoptions(run / 'b', run) if rc == 0 else None
    if vals is None:
        raise MachineryError(f'cannot configure project {project} with defaults:\n{out[-1500:]}')
    shutil.rmtree(run, ignore_errors=True)
    return vals


def watch_args(bdir: Path, watch: T.Sequence[str], piped: str = '') -> T.List[str]:
    return [str(concrete(bdir, rel, piped)) for rel in watch]


def record(w: World, h: History, defaults: T.Dict[str, T.Any]) -> Recorded:
    # 1. discovery: which paths of the build directory does the command create / rename / remove
    run = w.new_run()
    bdir = build_pre(w, h, run)
    pre_files = existing_state_files(bdir)
    old = (buildoptions(bdir, run) if (bdir / 'meson-info' / 'intro-buildoptions.json').exists() else None) or dict(defaults)
    rc, out = st.run_strace(meson_cmd(h.cmd, bdir, w.src[h.project]), run / 'discover.log', run_env(run), timeout=CLI_TIMEOUT,
                            stdin_text=stdin_of(h.cmd))
    if (rc != 0) != h.failed:
        raise MachineryError(f'{h.id}: command ended with {rc} (expected {"failure" if h.failed else "success"})\n{out[-2000:]}')
    events = st.parse_log((run / 'discover.log').read_text(errors='replace'), str(bdir), str(run / 'tmp'))
    touched = {x for e in events if e.op in st.MUTATING_OPS for x in (e.f, e.g) if x and not x.startswith('$TMP/')}
    # strace matches rename() by its source only, and a copy by either side: a temporary file outside the
    # build directory that is renamed onto / copied from a state file is watched too
    outside = {e.f for e in events if e.f.startswith('$TMP/') and e.g and tracked(e.g) and e.op in ('rename', 'copy')}
    watch = sorted({x for x in touched if tracked(x)} | set(pre_files) | set(ALWAYS) | outside)
    inis = sorted((bdir / 'meson-private').glob('*-*-*-*-*.ini')) if (bdir / 'meson-private').is_dir() else []
    piped = inis[0].name.split('.')[0] if inis else ''
    new = buildoptions(bdir, run)
    if h.failed or new is None:
        new = dict(old)
        for a in h.cmd:
            if a.startswith('-D'):
                k, v = a[2:].split('=', 1)
                new[k] = v
    maps = {'old': old, 'new': new, 'default': defaults}
    shutil.rmtree(run, ignore_errors=True)

    # 2. the recording proper: same strace configuration as the kill runs
    run = w.new_run()
    bdir = build_pre(w, h, run)
    pre_proj = project_state(run, pre_files, maps)
    rc, out = st.run_strace(meson_cmd(h.cmd, bdir, w.src[h.project]), run / 'record.log', run_env(run),
                            watch=watch_args(bdir, watch, piped), timeout=CLI_TIMEOUT, stdin_text=stdin_of(h.cmd))
    if (rc != 0) != h.failed:
        raise MachineryError(f'{h.id}: recorded command ended with {rc}\n{out[-2000:]}')
    events = st.parse_log((run / 'record.log').read_text(errors='replace'), str(bdir), str(run / 'tmp'))
    mp = st.main_pid(events)
    ops, points = [], []
    ordinal: T.Dict[str, int] = {}
    for e in events:
        if e.pid != mp:
            continue
        if e.syscall in st.KILLABLE:
            ordinal[e.syscall] = ordinal.get(e.syscall, 0) + 1
        if not e.f or not tracked(e.f) or (e.g and not tracked(e.g)):
            continue
        ops.append({'op': 'write' if (e.op == 'copy' and not e.g) else e.op, 'f': e.f, 'g': e.g})
        points.append({'syscall': e.syscall, 'ordinal': ordinal.get(e.syscall, 0),
                       'killable': e.op in st.MUTATING_OPS and e.syscall in st.KILLABLE and e.ok})
    if h.failed and not any(o['op'] == 'rename' and o['g'] == CORE for o in ops):
        raise MachineryError(f'{h.id}: the command was meant to fail after its core data was written, but it never wrote it')
    # 3. the follow-up of the completed command, recorded the same way: what a recovery run writes and how
    frc, fout = st.run_strace(meson_cmd(('setup', '--reconfigure'), bdir, w.src[h.project]), run / 'followup.log', run_env(run),
                              watch=watch_args(bdir, watch, piped), timeout=CLI_TIMEOUT)
    if frc != 0:
        raise MachineryError(f'{h.id}: the follow-up of the completed command failed ({frc})\n{fout[-1500:]}')
    fevents = st.parse_log((run / 'followup.log').read_text(errors='replace'), str(bdir), str(run / 'tmp'))
    fmp = st.main_pid(fevents)
    recover = [{'op': 'write' if (e.op == 'copy' and not e.g) else e.op, 'f': e.f, 'g': e.g} for e in fevents
               if e.pid == fmp and e.f and tracked(e.f) and (not e.g or tracked(e.g)) and e.ok]
    names = sorted({x for o in ops for x in (o['f'], o['g']) if x} | set(pre_files) | {CORE, CMDL})
    pre = [{'f': x['f'], 'st': x['st'], 'ver': 'none' if x['st'] == 'dir' else 'old' if 'old' in x['vers'] else 'older'}
           for x in pre_proj]
    if any(x['st'] not in ('dir', 'full') for x in pre_proj):
        raise MachineryError(f'{h.id}: the pre-state holds a torn state file: {pre_proj}')
    if '.' in names and h.pre:
        pre.append({'f': '.', 'st': 'dir', 'ver': 'none'})
    script = {'id': h.id, 'kind': h.kind, 'fresh': not (set(pre_files) & {CORE}), 'failed': h.failed,
              'usesM': h.uses_m, 'usesE': h.uses_e, 'pre': pre, 'ops': ops, 'recover': recover}
    shutil.rmtree(run, ignore_errors=True)
    return Recorded(h, script, points, names, watch, piped, maps, rc)


# ---------------------------------------------------------------------------
# one real kill / recover case

def labels_of(vals: T.Optional[T.Dict[str, T.Any]], maps: T.Dict[str, T.Dict[str, T.Any]], fresh: bool) -> T.List[T.Dict[str, T.Any]]:
    out = []
    for name in sorted(vals or {}, key=lambda n: (n not in ('opt', 'other', 'backend') and n not in OPTION_CLASS, n)):
        v = (vals or {})[name]
        is_ = [lb for lb in LABELS if maps[lb].get(name, object()) == v]
        if fresh and 'default' in is_ and 'old' not in is_:
            is_.append('old')
        out.append({'name': name, 'is': is_, 'cls': OPTION_CLASS.get(name, 'd'), 'value': json.dumps(v)})
    return out


def kill_case(w: World, rec: Recorded, k: int, keep: bool = False) -> T.Dict[str, T.Any]:
    """Kill the command at the entry of operation k+1 (k = number of completed operations; k = all: run to the end)."""
    h = rec.hist
    nops = len(rec.script['ops'])
    final = k >= nops
    run = w.new_run()
    try:
        bdir = build_pre(w, h, run)
        inject = None if final else (rec.points[k]['syscall'], rec.points[k]['ordinal'])
        rc, out = st.run_strace(meson_cmd(h.cmd, bdir, w.src[h.project]), run / 'kill.log', run_env(run),
                                watch=watch_args(bdir, rec.watch, rec.piped), inject=inject, timeout=CLI_TIMEOUT,
                                stdin_text=stdin_of(h.cmd))
        events = st.parse_log((run / 'kill.log').read_text(errors='replace'), str(bdir), str(run / 'tmp'))
        mp = st.main_pid(events)
        seen = [{'op': e.op, 'f': e.f, 'g': e.g} for e in events
                if e.pid == mp and e.f and tracked(e.f) and (not e.g or tracked(e.g))]
        if final:
            if (rc != 0) != h.failed:
                raise MachineryError(f'{h.id}: complete run ended with {rc}\n{out[-1500:]}')
        else:
            if 'killed by SIGKILL' not in (run / 'kill.log').read_text(errors='replace')[-400:]:
                raise MachineryError(f'{h.id} k={k}: the command was not killed at {inject} (rc={rc})\n{out[-800:]}')
        want = rec.script['ops'][:k + (0 if final else 1)]
        if seen != want:
            diff = next((j for j in range(min(len(seen), len(want))) if seen[j] != want[j]), min(len(seen), len(want)))
            raise MachineryError(f'{h.id} k={k}: the killed run does not follow the recorded script at op {diff}: '
                                 f'recorded {want[diff] if diff < len(want) else None} seen {seen[diff] if diff < len(seen) else None}')
        crash = project_state(run, rec.names, rec.maps)
        reconf, ok, fout = follow_up(w, h, run)
        vals = buildoptions(bdir, run) if ok else None
        after = [x for x in project_state(run, [n for n in rec.names if not n.startswith('$TMP/')], rec.maps)]
        # the regenerated build.ninja must be the one a reference reconfigure of the recovered directory writes
        manifest_same = True
        if ok and (bdir / 'build.ninja').exists():
            first = (bdir / 'build.ninja').read_bytes()
            rrc, rout = run_cli(meson_cmd(('setup', '--reconfigure'), bdir, w.src[h.project]), run)
            manifest_same = rrc == 0 and (bdir / 'build.ninja').read_bytes() == first
        after += [project_file(concrete(bdir, n), n, rec.maps) for n in existing_state_files(bdir) if n not in rec.names]
        case = {'id': f'{h.id}@{k}', 'script': 0, 'aborted': h.failed, 'k': min(k, nops), 'final': final, 'crash': crash, 'reconf': reconf,
                'ok': bool(ok and vals is not None), 'labels': labels_of(vals, rec.maps, rec.script['fresh']),
                'manifest_same': manifest_same,
                'after': [{'f': x['f'], 'st': x['st']} for x in after],
                'history': h.id, 'killed_at': rec.script['ops'][k] if not final else {'op': 'end', 'f': '', 'g': ''},
                'followup_tail': fout[-1200:] if not ok else '', 'introspect_failed': ok and vals is None}
        return case
    finally:
        if not keep:
            shutil.rmtree(run, ignore_errors=True)


# ---------------------------------------------------------------------------
# (A) abstract crash states of the reader model on the real code

REPLAY_HISTORY = History('replay', 'plain', 'reconfigure', ((ENV_PC, 'setup', NONE, NF, '-Dopt=a', '-Dother=x'),), ('setup', '--reconfigure'),
                         uses_m=True, uses_e=True)


def reader_flags(rcases: T.Sequence[T.Dict[str, T.Any]], maps: T.Dict[str, T.Dict[str, T.Any]]) -> T.Tuple[bool, bool]:
    """(StrictCmdline, FirstRunReadsCmdline) as the real reader behaves: does a zero-byte cmd_line.txt make the
    follow-up fail; does a first configuration (no coredata.dat) bring back the machine-file options"""
    empty = next(c for c in rcases if c['core'] == 'full' and c['cmdl'] == 'empty')
    first = next(c for c in rcases if c['core'] == 'absent' and c['cmdl'] == 'full')
    return (not empty['ok'], bool(first['ok'] and first['values'].get('mopt') == maps['old'].get('mopt')))


def replay_case(w: World, core: str, cmdl: str, maps: T.Dict[str, T.Dict[str, T.Any]]) -> T.Dict[str, T.Any]:
    h = REPLAY_HISTORY
    run = w.new_run()
    try:
        bdir = build_pre(w, h, run)
        for rel, stt in ((CORE, core), (CMDL, cmdl)):
            p = bdir / rel
            if stt == 'absent':
                p.unlink()
            elif stt == 'empty':
                p.write_bytes(b'')
            elif stt == 'partial':
                data = p.read_bytes()
                p.write_bytes(data[:max(1, len(data) // 2)] if rel == CORE else b'[opt')
        names = existing_state_files(bdir)
        names = sorted(set(names) | {CORE, CMDL})
        crash = project_state(run, names, maps)
        state = {'id': f'replay:{core}/{cmdl}', 'kind': 'replay', 'fresh': False, 'failed': False, 'usesM': True, 'usesE': True, 'ops': [], 'recover': [],
                 'pre': [{'f': x['f'], 'st': x['st'], 'ver': 'none' if x['st'] == 'dir' else 'old'} for x in crash if x['st'] != 'absent']}
        reconf, ok, fout = follow_up(w, h, run)
        vals = buildoptions(bdir, run) if ok else None
        after = project_state(run, existing_state_files(bdir), maps)
        return {'id': state['id'], 'state': state, 'final': True, 'aborted': False, 'manifest_same': True, 'crash': crash, 'reconf': reconf, 'ok': bool(ok and vals is not None),
                'labels': labels_of(vals, maps, False), 'after': [{'f': x['f'], 'st': x['st']} for x in after],
                'values': {k: (vals or {}).get(k) for k in ('opt', 'mopt', 'warning_level', 'pkg_config_path')},
                'followup_tail': fout[-1200:] if not ok else '', 'core': core, 'cmdl': cmdl,
                'traceback': 'Traceback (most recent call last)' in fout}
    finally:
        shutil.rmtree(run, ignore_errors=True)


# ---------------------------------------------------------------------------
# TLC judging

LAW_CLAUSES = ('CoreNeverTorn', 'NinjaNeverTorn', 'CoreDurable', 'RolledBack')


def sig_of(v: T.Dict[str, T.Any]) -> str:
    """clause : command kind : contents of the two files recovery depends on at the kill (protocol laws: clause : kind)"""
    s = v['sig']
    if v['clause'] in LAW_CLAUSES and v.get('mode') == 'model':
        return f"{v['clause']}:{v['kind']}"

    def part(stt: str, ver: str) -> str:
        return f'{stt}/{ver}' if stt in ('full', 'partial') else stt
    lost = '[' + ','.join(v.get('lost') or []) + ']' if v['clause'] == 'ValuesOldOrNew' else ''
    piped = f",piped-machine-file={s['mfile']}" if s.get('mfile', 'none') != 'none' else ''
    return f"{v['clause']}{lost}:{v['kind']}:core={part(s['core'], s['corever'])},cmdline={part(s['cmdl'], s['cmdlver'])}{piped}"


def tlc_trace(chk: Check, cfg: str, label: str, scripts: T.List[T.Dict[str, T.Any]], cases: T.List[T.Dict[str, T.Any]],
              flags: T.Tuple[bool, bool], expect_states: T.Optional[int]) -> T.List[T.Dict[str, T.Any]]:
    """flags = (StrictCmdline, FirstRunReadsCmdline): reader behaviour measured on the real code"""
    with scratch('c09-') as d:
        sf, cf = d / 'scripts.json', d / 'cases.json'
        sf.write_text(json.dumps(scripts))
        cf.write_text(json.dumps(cases))
        env = {'SCRIPT_FILE': str(sf), 'CASE_FILE': str(cf), 'STRICT_CMDLINE': '1' if flags[0] else '0',
               'FIRSTRUN_READS_CMDLINE': '1' if flags[1] else '0'}
        res = run_tlc(FAM, 'TraceBuildDirCrash', cfg=cfg, env=env, timeout=3600)
        if not res.clean:
            raise MachineryError(f'{cfg} did not complete cleanly:\n' + res.stdout[-2500:])
        if expect_states is not None and res.distinct != expect_states:
            raise MachineryError(f'{cfg} judged {res.distinct} states, expected {expect_states}')
        bad = res.json_lines()
        if bad:
            res1 = run_tlc(FAM, 'TraceBuildDirCrash', cfg=cfg, env=env, timeout=3600, workers=1)
            bad = res1.json_lines()
    chk.add_tlc(label, res, model=(cfg == 'TraceBuildDirCrash_Model.cfg'))
    return bad


def strip_case(c: T.Dict[str, T.Any]) -> T.Dict[str, T.Any]:
    keys = ('id', 'script', 'k', 'final', 'crash', 'reconf', 'ok', 'labels', 'after', 'state', 'aborted', 'manifest_same')
    out = {k: c[k] for k in keys if k in c}
    out['labels'] = [{'name': x['name'], 'is': x['is'], 'cls': x['cls']} for x in c['labels']]
    return out


MC_CFG = '''SPECIFICATION Spec
CONSTANTS
 StrictCmdline = TRUE
 FirstRunReadsCmdline = %s
 MaxChunks = %d
 Family = "%s"
 Scripts <- MCScripts
%s
CHECK_DEADLOCK FALSE
'''
MC_INVARIANTS = ['SafeIsRecoverable', 'SafeIsOldOrNew', 'SafeRecoveryIsClean', 'AtomicCoreNeverTorn', 'AtomicNinjaNeverTorn', 'SyncedCoreDurable',
                 'RollbackRestores', 'AtomicCmdlNeverTorn', 'VerdictAgrees', 'InvRunIsFold']


def model_check(chk: Check, chunks: int) -> None:
    cfg = MC_CFG % ('FALSE', chunks, 'all', '\n'.join('INVARIANT ' + i for i in MC_INVARIANTS) + '\nPOSTCONDITION Stats')
    res = run_tlc(FAM, 'BuildDirCrash_MC', cfg_text=cfg, timeout=3600, allow_violation=False, coverage=(chk.tier == 'thorough'))
    chk.add_tlc(f'BuildDirCrash_MC[all designs,MaxChunks={chunks}]', res)
    if chk.tier == 'thorough':
        cov = res.coverage()
        chk.extra['action_coverage'] = cov
        for a in ('Step', 'Crash', 'Recover'):
            if cov and not cov.get(a):
                raise MachineryError(f'action {a} of BuildDirCrash was never taken (vacuous model)')
    if chk.tier == 'thorough':
        # the same theorems with a first run that reads the machine files back from cmd_line.txt (then a wipe is safe too)
        cfg = MC_CFG % ('TRUE', chunks, 'all', '\n'.join('INVARIANT ' + i for i in MC_INVARIANTS))
        res = run_tlc(FAM, 'BuildDirCrash_MC', cfg_text=cfg, timeout=3600, allow_violation=False)
        chk.add_tlc(f'BuildDirCrash_MC[all designs,MaxChunks={chunks},FirstRunReadsCmdline]', res)
    # non-vacuity: the legacy family (cmd_line.txt in place, wipe backup outside the directory - the protocol before
    # fixes a762557 / 3af8f2a) must break in the model
    # ... and a generator that never truncates its temporary build.ninja must garble the manifest of the follow-up
    res = run_tlc(FAM, 'BuildDirCrash_MC', cfg_text=MC_CFG % ('FALSE', 1, 'all', 'INVARIANT NoGarbledManifest'), timeout=3600,
                  allow_violation=True)
    chk.add_tlc('BuildDirCrash_MC[NoGarbledManifest expected to fail]', res)
    if res.invariant_violated != 'NoGarbledManifest':
        raise MachineryError('a design that appends to a stale build.ninja~ was expected to violate NoGarbledManifest: '
                             f'{res.invariant_violated!r}\n{res.stdout[-800:]}')
    for inv in ('NoBrick', 'NoLostValues'):
        cfg = MC_CFG % ('FALSE', chunks, 'legacy', 'INVARIANT ' + inv)
        res = run_tlc(FAM, 'BuildDirCrash_MC', cfg_text=cfg, timeout=3600, allow_violation=True)
        chk.add_tlc(f'BuildDirCrash_MC[legacy protocol,{inv} expected to fail]', res)
        if res.invariant_violated != inv:
            raise MachineryError(f'the legacy design family was expected to violate {inv} in the model, TLC says: '
                                 f'{res.invariant_violated!r}\n{res.stdout[-800:]}')


# ---------------------------------------------------------------------------

def pmap(fn: T.Callable[..., T.Any], jobs: T.Sequence[T.Tuple[T.Any, ...]]) -> T.List[T.Any]:
    with ThreadPoolExecutor(max_workers=common.NCPU) as ex:
        futs = [ex.submit(fn, *j) for j in jobs]
        return [f.result() for f in futs]


def report(chk: Check, v: T.Dict[str, T.Any], case: T.Optional[T.Dict[str, T.Any]], rec: T.Optional[Recorded]) -> None:
    detail: T.Dict[str, T.Any] = {'verdict': v}
    if case is not None:
        detail['case'] = {k: case.get(k) for k in ('id', 'history', 'k', 'final', 'killed_at', 'reconf', 'ok', 'followup_tail',
                                                   'core', 'cmdl', 'introspect_failed')}
        detail['case']['options_not_old_or_new'] = [x for x in case.get('labels', []) if not (set(x['is']) & {'old', 'new'})]
        detail['case']['crash_state'] = [x for x in case.get('crash', []) if x['st'] != 'absent']
        detail['case']['torn_after_recovery'] = [x for x in case.get('after', []) if x['st'] in ('empty', 'partial')]
    if rec is not None:
        detail['history'] = {'id': rec.hist.id, 'project': rec.hist.project, 'pre': rec.hist.pre, 'cmd': rec.hist.cmd}
    chk.violation(sig_of(v), detail)


def main(chk: Check) -> None:
    quick = chk.tier == 'quick'
    rnd = random.Random(chk.seed)
    common.use_repo_meson()         # state files are unpickled with the classes of the tree under test
    chk.rule = ('kill point = entry of a system call that changes a watched state file of the build directory (creat/'
                'write/sendfile/fsync/rename/unlink/mkdir/rmdir), plus the completed command; non-trivial = distinct '
                '(history, abstract contents of all state files at the kill) where at least one state file is torn, '
                'missing or of mixed generation relative to the state before and after the command')
    model_check(chk, 2 if quick else 3)

    hists = [h for h in HISTORIES if (h.id in QUICK_SET or not quick)]
    only = os.environ.get('VERIF_C09_HISTORIES')       # development aid: restrict the histories
    if only:
        hists = [h for h in HISTORIES if h.id in only.split(',')]
    with scratch('c09w-') as root:
        w = World(root)
        defaults = dict(zip(PROJECTS, pmap(default_values, [(w, p) for p in PROJECTS])))

        # (A) reader model on the real code; measures StrictCmdline
        rmaps = {'old': None, 'new': None, 'default': defaults['plain']}
        run = w.new_run()
        bdir = build_pre(w, REPLAY_HISTORY, run)
        rmaps['old'] = rmaps['new'] = buildoptions(bdir, run)
        shutil.rmtree(run, ignore_errors=True)
        if rmaps['old'] is None:
            raise MachineryError('cannot read the options of a freshly configured directory')
        cells = [(c, l) for c in ('absent', 'full', 'empty', 'partial') for l in ('absent', 'full', 'empty')]
        rcases = pmap(replay_case, [(w, c, l, rmaps) for c, l in cells])
        probe = next(c for c in rcases if c['core'] == 'full' and c['cmdl'] == 'empty')
        strict = reader_flags(rcases, rmaps)
        chk.extra['cmdline_reader_strict_measured'] = strict[0]
        chk.extra['first_run_reads_machine_files_measured'] = strict[1]
        bad = tlc_trace(chk, 'TraceBuildDirCrash_Replay.cfg', 'TraceBuildDirCrash[replay]', [], [strip_case(c) for c in rcases],
                        strict, 2 * len(rcases))
        chk.traces += len(rcases)
        disagreements: T.List[str] = []
        by_id = {c['id']: c for c in rcases}
        for v in bad:
            c = by_id[v['id']]
            if v['clause'] in ('CrashStateDiffers', 'ModelDisagrees'):
                disagreements.append(f"{v['id']}: {v['clause']} {v.get('note')}")
            else:
                report(chk, v, c, None)
        chk.sample({'replay': probe['id'], 'followup_ok': probe['ok'], 'traceback': probe['traceback']})

        # (B) recording
        recs: T.List[Recorded] = pmap(record, [(w, h, defaults[h.project]) for h in hists])
        scripts = [r.script for r in recs]
        chk.extra['scripts'] = {r.hist.id: {'ops': len(r.script['ops']), 'kill_points': sum(p['killable'] for p in r.points),
                                            'watched': len(r.watch)} for r in recs}
        for r in recs[:2]:
            chk.sample({'script': r.hist.id, 'cmd': r.hist.cmd, 'ops': [f"{o['op']} {o['f']}" + (f" <- {o['g']}" if o['op'] == 'copy' else f" -> {o['g']}" if o['g'] else '') for o in r.script['ops'] if o['op'] in st.MUTATING_OPS][:40]})
        flagged = tlc_trace(chk, 'TraceBuildDirCrash_Model.cfg', 'TraceBuildDirCrash[recorded scripts]', scripts, [], strict,
                            sum(len(s['ops']) + 1 for s in scripts))
        rec_by_id = {r.hist.id: r for r in recs}
        to_run: T.Dict[T.Tuple[str, int], str] = {}

        def kill_index(r: Recorded, k: int) -> int:
            """the kill point whose crash state is the state after k operations"""
            n = len(r.script['ops'])
            j = k
            while j < n and not r.points[j]['killable']:
                if r.script['ops'][j]['op'] in st.MUTATING_OPS:
                    raise MachineryError(f'{r.hist.id}: operation {j} changes state but is no kill point: {r.script["ops"][j]}')
                j += 1
            return j

        per_sig: T.Dict[T.Tuple[str, str], int] = {}
        for v in flagged:
            r = rec_by_id[v['id']]
            if v['clause'] in LAW_CLAUSES:
                report(chk, v, None, r)
                continue
            key = (v['id'], sig_of(v))
            per_sig[key] = per_sig.get(key, 0) + 1
            if quick and per_sig[key] > 2:
                continue
            to_run[(v['id'], kill_index(r, v['k']))] = 'flagged'
        chk.extra['model_flagged_prefixes'] = len(flagged)

        total_points = 0
        for r in recs:
            n = len(r.script['ops'])
            to_run.setdefault((r.hist.id, n), 'final')
            if r.hist.failed:
                continue
            pts = [j for j in range(n) if r.points[j]['killable']]
            total_points += len(pts) + 1
            if quick:
                stride = r.hist.quick
                if not stride:
                    continue
                off = rnd.randrange(stride)
                pts = pts[off::stride]
            for j in pts:
                to_run.setdefault((r.hist.id, j), 'sample')

        jobs = sorted(to_run)
        cases = pmap(kill_case, [(w, rec_by_id[hid], k) for hid, k in jobs])
        for c in cases:
            c['script'] = 1 + [r.hist.id for r in recs].index(c['history'])
        bad = tlc_trace(chk, 'TraceBuildDirCrash_Kill.cfg', 'TraceBuildDirCrash[kill cases]', scripts, [strip_case(c) for c in cases],
                        strict, 2 * len(cases))
        chk.traces += len(cases)
        by_id = {c['id']: c for c in cases}
        for v in bad:
            c = by_id[v['id']]
            if v['clause'] in ('CrashStateDiffers', 'ModelDisagrees'):
                disagreements.append(f"{v['id']} killed at {c['killed_at']}: {v['clause']} {v.get('note')} predicted={v.get('predicted')}")
            else:
                report(chk, v, c, rec_by_id[c['history']])
        for c in cases:
            torn = sorted((x['f'], x['st']) for x in c['crash'] if x['st'] in ('empty', 'partial'))
            gens = {tuple(x['vers']) for x in c['crash'] if x['st'] == 'full' and len(x['vers']) == 1}
            if torn or len(gens) > 1 or any(x['st'] == 'absent' for x in c['crash'] if x['f'] in (CORE, CMDL)):
                chk.nontriv(json.dumps([c['history'], [(x['f'], x['st'], x['vers']) for x in c['crash'] if x['st'] != 'absent']]))
        for c in cases[:: max(1, len(cases) // 4)][:4]:
            chk.sample({'case': c['id'], 'killed_at': c['killed_at'], 'reconfigure': c['reconf'], 'followup_ok': c['ok'],
                        'opt': [x for x in c['labels'] if x['name'] in ('opt', 'other', 'backend')],
                        'torn_at_kill': [x['f'] for x in c['crash'] if x['st'] in ('empty', 'partial')]}, limit=12)
        chk.extra['kill_cases_run'] = len(cases)
        chk.extra['kill_points_of_recorded_scripts'] = total_points
        chk.evaluations = len(cases) + len(rcases) + sum(len(s['ops']) + 1 for s in scripts)
        chk.extra['kill_cases_by_reason'] = {k: sum(1 for x in to_run.values() if x == k) for k in ('flagged', 'final', 'sample')}
        chk.exhaustive = not quick
        chk.extra['model_disagreements'] = disagreements
        if disagreements and chk.violations:
            print('note: besides the violations, the model of the environment disagrees with the real code in '
                  f'{len(disagreements)} case(s), e.g. {disagreements[0][:300]}', file=sys.stderr)
        elif disagreements:
            raise MachineryError('the model of the environment disagrees with the real code (no property violation observed):\n  '
                                 + '\n  '.join(disagreements[:10]))
    chk.assumptions += [
        'state files = direct children of meson-private (except meson.lock, compiler sanity-check and temporary files), '
        'meson-info/*, build.ninja*, compile_commands.json*; logs, .gitignore/.hgignore/CACHEDIR.TAG and target directories are not state',
        'a kill is SIGKILL of the meson process (page cache survives); durability against power loss is only checked as the '
        'ordering law "core data is fsync\'ed before it is renamed into place" on the recorded scripts',
        'the follow-up is `meson setup` without options, with --reconfigure exactly when coredata.dat exists after the kill',
        'for commands that fail by themselves (backend error after the core data was written) only the final state is a crash state',
        'whether the reader of cmd_line.txt tolerates a torn file is measured on the real code and fed to the model as the constant StrictCmdline',
        'option values are compared through `meson introspect --buildoptions`; "old" for a fresh directory means the defaults',
    ]


def replay(chk: Check, data: T.Dict[str, T.Any]) -> None:
    """Re-run one recorded kill case (history + kill point) against the current tree."""
    det = data['detail']
    case = det.get('case') or {}
    common.use_repo_meson()
    with scratch('c09w-') as root:
        w = World(root)
        if case.get('core') is not None:      # a replay state of the reader model
            defaults = default_values(w, 'plain')
            run = w.new_run()
            bdir = build_pre(w, REPLAY_HISTORY, run)
            vals = buildoptions(bdir, run)
            maps = {'old': vals, 'new': vals, 'default': defaults}
            flags = reader_flags([replay_case(w, 'full', 'empty', maps), replay_case(w, 'absent', 'full', maps)], maps)
            c = replay_case(w, case['core'], case['cmdl'], maps)
            bad = tlc_trace(chk, 'TraceBuildDirCrash_Replay.cfg', 'replay', [], [strip_case(c)], flags, 2)
            for v in bad:
                if v['clause'] not in ('CrashStateDiffers', 'ModelDisagrees'):
                    report(chk, v, c, None)
            return
        hid = (det.get('history') or {}).get('id') or case.get('history')
        h = next((x for x in HISTORIES if x.id == hid), None)
        if h is None:
            raise MachineryError('replay file names no history')
        defaults = default_values(w, h.project)
        rec = record(w, h, defaults)
        pdef = default_values(w, 'plain')
        run = w.new_run()
        pvals = buildoptions(build_pre(w, REPLAY_HISTORY, run), run)
        pmaps = {'old': pvals, 'new': pvals, 'default': pdef}
        strict = reader_flags([replay_case(w, 'full', 'empty', pmaps), replay_case(w, 'absent', 'full', pmaps)], pmaps)
        flagged = tlc_trace(chk, 'TraceBuildDirCrash_Model.cfg', 'replay-model', [rec.script], [], strict, len(rec.script['ops']) + 1)
        for v in flagged:
            if v['clause'] in LAW_CLAUSES:
                report(chk, v, None, rec)
        if not case:
            return
        k = len(rec.script['ops']) if case.get('final') else int(case['k'])
        c = kill_case(w, rec, k)
        c['script'] = 1
        for v in tlc_trace(chk, 'TraceBuildDirCrash_Kill.cfg', 'replay-kill', [rec.script], [strip_case(c)], strict, 2):
            if v['clause'] not in ('CrashStateDiffers', 'ModelDisagrees'):
                report(chk, v, c, rec)


if __name__ == '__main__':
    sys.exit(common.run_check(main, PROP, replay=replay))
