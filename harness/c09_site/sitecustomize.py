"""Loaded (through PYTHONPATH) into the meson processes that C09 runs under strace.

It changes nothing in meson: it only makes the names that ``tempfile`` hands out and the values of ``uuid.uuid4`` deterministic
(``tmp`` + a per-process counter instead of random characters), so that a temporary file or
directory a command uses while it rewrites the build directory (``setup --wipe`` parks
``cmd_line.txt`` in one) has the same path in the recording run and in every kill run and can be
put on strace's watch list.  Enabled only when MESON_VERIF_C09_TMPNAMES is set.
"""
import os

if os.environ.get('MESON_VERIF_C09_TMPNAMES'):
    import tempfile

    class _Counting:
        def __init__(self):
            self.n = 0

        def __iter__(self):
            return self

        def __next__(self):
            self.n += 1
            return 'v%05d' % self.n

    tempfile._name_sequence = _Counting()
    _orig = tempfile._get_candidate_names

    def _get_candidate_names():
        if not isinstance(tempfile._name_sequence, _Counting):
            tempfile._name_sequence = _Counting()
        return tempfile._name_sequence

    tempfile._get_candidate_names = _get_candidate_names

    # uuid4 as a per-process counter: meson names the private copy of a machine file that was given as a
    # pipe meson-private/<uuid4>.native.ini; with a fixed name the directory listing order of a later
    # `--wipe` (and so its unlink order) is the same in the recording run and in every kill run
    import uuid

    _uuid_count = [0]

    def _uuid4():
        _uuid_count[0] += 1
        return uuid.UUID('00000000-0000-4000-8000-%012d' % _uuid_count[0])

    uuid.uuid4 = _uuid4
