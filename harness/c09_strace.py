"""strace helpers for C09: run a command with the state files of a build directory watched,
optionally killing it at the entry of one chosen system call, and turn the log into the
abstract operation script of specs/builddir/BuildDirCrash.tla.

Facts relied upon (measured in this sandbox, strace 6.1):
* ``-P path`` restricts tracing *and* fault injection to system calls that touch one of the
  given paths (string equality for path arguments - so files that do not exist yet work - and
  /proc/pid/fd lookup for descriptor arguments);
* ``-e inject=SYSCALL:signal=SIGKILL:when=N`` delivers the signal at the *entry* of the N-th
  path-matched invocation of that one system call (the counter is per system call and per
  process), i.e. the call itself is not executed.
"""
from __future__ import annotations

import os
import re
import subprocess
import typing as T
from pathlib import Path

from .common import MachineryError

# system calls that can change a watched file (fault injection points) ...
KILLABLE = ('openat', 'write', 'pwrite64', 'writev', 'sendfile', 'copy_file_range', 'fsync', 'fdatasync',
            'rename', 'renameat', 'renameat2', 'unlink', 'unlinkat', 'mkdir', 'mkdirat', 'rmdir', 'ftruncate')
# ... and what is recorded in addition (close delimits the data of a file)
TRACED = KILLABLE + ('close',)

MUTATING_OPS = ('creat', 'append', 'write', 'copy', 'fsync', 'rename', 'unlink', 'mkdir', 'rmdir', 'truncate')

_LINE = re.compile(r'^(\d+)\s+(\w+)\((.*)\)\s+= (-?\d+|\?)(.*)$')
_UNFIN = re.compile(r'^(\d+)\s+(\w+)\((.*) <unfinished \.\.\.>$')
_RESUMED = re.compile(r'^(\d+)\s+<\.\.\. (\w+) resumed>(.*)\)\s+= (-?\d+|\?)(.*)$')
_STR = re.compile(r'"((?:[^"\\]|\\.)*)"')
_FD = re.compile(r'(?:^|[\s,(])(-?\d+|AT_FDCWD)<([^>]*)>')


class Event(T.NamedTuple):
    pid: int
    syscall: str
    op: str            # abstract operation (or 'read' / 'fail' for calls that change nothing)
    f: str             # normalised path ('' when outside the watched set)
    g: str
    ok: bool
    raw: str


_PIPED = re.compile(r'[0-9a-fA-F]{8}-[0-9a-fA-F]{4}-[0-9a-fA-F]{4}-[0-9a-fA-F]{4}-[0-9a-fA-F]{12}\.(native|cross)\.ini')


def abstract_name(rel: str) -> str:
    """meson-private/<uuid>.native.ini (private copy of a piped machine file) -> meson-private/$PIPED.native.ini"""
    return _PIPED.sub(lambda m: '$PIPED.' + m.group(1) + '.ini', rel)


def _norm(path: str, bdir: str, tmpdir: str) -> str:
    return abstract_name(_norm0(path, bdir, tmpdir))


def _norm0(path: str, bdir: str, tmpdir: str) -> str:
    path = path.replace(' (deleted)', '')
    path = os.path.normpath(path)
    if path == bdir:
        return '.'
    if path.startswith(bdir + '/'):
        return path[len(bdir) + 1:]
    if tmpdir and path.startswith(tmpdir + '/'):
        return '$TMP/' + path[len(tmpdir) + 1:]
    return ''


def _event(pid: int, name: str, args: str, ret: str, raw: str, bdir: str, tmpdir: str) -> T.Optional[Event]:
    if name not in TRACED:
        return None
    ok = ret != '?' and not ret.startswith('-')
    strs = _STR.findall(args)
    fds = _FD.findall(args)

    def fdpath(j: int) -> str:
        return fds[j][1] if j < len(fds) and fds[j][0] != 'AT_FDCWD' else ''

    def at(j_fd: int, s: str) -> str:
        if s.startswith('/'):
            return s
        base = fds[j_fd][1] if j_fd < len(fds) else ''
        return os.path.join(base, s) if base else s

    def n(path: str) -> str:
        return _norm(path, bdir, tmpdir)

    op, f, g = 'read', '', ''
    if name == 'openat':
        f = n(at(0, strs[0]) if strs else '')
        flags = args.rsplit('"', 1)[-1]
        if 'O_TRUNC' in flags and ('O_WRONLY' in flags or 'O_RDWR' in flags):
            op = 'creat'
        elif 'O_CREAT' in flags and ('O_WRONLY' in flags or 'O_RDWR' in flags):
            op = 'append'
    elif name in ('write', 'pwrite64', 'writev'):
        op, f = 'write', n(fdpath(0))
    elif name in ('sendfile', 'copy_file_range'):
        op, f, g = 'copy', n(fdpath(0)), n(fdpath(1))
        if ok and ret == '0':
            op = 'read'      # end-of-file probe: nothing copied
    elif name in ('fsync', 'fdatasync'):
        op, f = 'fsync', n(fdpath(0))
    elif name == 'close':
        op, f = 'close', n(fdpath(0))
    elif name == 'ftruncate':
        op, f = 'truncate', n(fdpath(0))
    elif name == 'rename' and len(strs) >= 2:
        op, f, g = 'rename', n(strs[0]), n(strs[1])
    elif name in ('renameat', 'renameat2') and len(strs) >= 2:
        op, f, g = 'rename', n(at(0, strs[0])), n(at(1, strs[1]))
    elif name in ('unlink', 'rmdir', 'mkdir') and strs:
        op, f = name, n(strs[0])
    elif name == 'unlinkat' and strs:
        op = 'rmdir' if 'AT_REMOVEDIR' in args else 'unlink'
        f = n(at(0, strs[0]))
    elif name == 'mkdirat' and strs:
        op, f = 'mkdir', n(at(0, strs[0]))
    if not ok and ret != '?':
        op = 'fail'
    return Event(pid, name, op, f, g, ok, raw)


def parse_log(text: str, bdir: str, tmpdir: str) -> T.List[Event]:
    """All traced system calls of the log, in order, as abstract events (every process).  A call that
    was cut short by the kill has ok=False and keeps its abstract operation."""
    pending: T.Dict[int, T.Tuple[str, str, str]] = {}
    out: T.List[Event] = []
    for line in text.splitlines():
        m = _UNFIN.match(line)
        if m:
            pending[int(m.group(1))] = (m.group(2), m.group(3), line)
            continue
        m = _RESUMED.match(line)
        if m:
            pid = int(m.group(1))
            name, args, _ = pending.pop(pid, (m.group(2), '', ''))
            ev = _event(pid, name, args + m.group(3), m.group(4), line, bdir, tmpdir)
        else:
            m = _LINE.match(line)
            if not m:
                continue
            ev = _event(int(m.group(1)), m.group(2), m.group(3), m.group(4), line, bdir, tmpdir)
        if ev is not None:
            out.append(ev)
    for pid, (name, args, line) in pending.items():
        ev = _event(pid, name, args, '?', line, bdir, tmpdir)
        if ev is not None:
            out.append(ev)
    return out


def main_pid(events: T.Sequence[Event]) -> int:
    if not events:
        raise MachineryError('strace log holds no watched system call')
    count: T.Dict[int, int] = {}
    for e in events:
        count[e.pid] = count.get(e.pid, 0) + 1
    return max(count, key=lambda p: count[p])


def run_strace(cmd: T.Sequence[str], log: Path, env: T.Dict[str, str], watch: T.Optional[T.Sequence[str]] = None,
               inject: T.Optional[T.Tuple[str, int]] = None, timeout: int = 600,
               stdin_text: T.Optional[str] = None) -> T.Tuple[int, str]:
    """Run cmd under strace; returns (exit status of the command as strace reports it, combined output)."""
    st = ['strace', '-f', '-y', '-s', '0', '-o', str(log), '-e', 'trace=' + ','.join(TRACED)]
    if inject is not None:
        st += ['-e', f'inject={inject[0]}:signal=SIGKILL:when={inject[1]}']
    for p in watch or ():
        st += ['-P', p]
    try:
        p = subprocess.run(st + list(cmd), env=env, stdout=subprocess.PIPE, stderr=subprocess.STDOUT, timeout=timeout,
                           text=True, errors='replace',
                           **({'input': stdin_text} if stdin_text is not None else {'stdin': subprocess.DEVNULL}))
    except subprocess.TimeoutExpired as e:
        raise MachineryError(f'strace run timed out: {" ".join(cmd)}') from e
    return p.returncode, p.stdout
