"""C10 - dependencies resolve by the documented fallback policy, from verified sources.

Part 1 (specs/deps/DepLookup*.tla): the decision table of ``dependency()``.
  1. TLC model-checks DepLookup_MC: the laws OverrideWins, ForcedNeverConsultsSystem,
     NofallbackNeverConfigures, RequiredNotFoundIsError, RepeatStable (and companions) over every
     configuration cell and every sequence of <= 3 lookups; the run exports the cell space.
  2. (A) cells of that space (all of them in the thorough tier) and sequences of three different
     lookups are rendered into real projects and run through ``meson setup --backend=none``;
     TraceDepLookup (TLC) judges what the build definitions observed.
Part 2 (specs/deps/WrapFetch*.tla): the wrap acquisition pipeline.
  1. TLC model-checks WrapFetch_MC: NeverUnpackBadHash, NodownloadFetchesNothing,
     FailedPatchLeavesNoDir, SecondRunNeverAcceptsHalfPrepared over every scenario, two runs.
  2. (A) the scenarios exported by that run are materialised with file:// URLs and real archives and
     run twice through ``meson subprojects download`` / ``meson setup``; TraceWrapFetch judges the
     resulting trees, package cache and exit status after each run.
"""
from __future__ import annotations

import json
import os
import random
import sys
import typing as T
from concurrent.futures import ThreadPoolExecutor

from . import common, depdrv_lookup as dl, depdrv_wrap as wf
from .common import Check, MachineryError, SPECS, run_tlc, scratch

PROP = 'C10'

DL_CFG = '''SPECIFICATION Spec
CONSTANTS SysVersions = {0, 1, 3}
 SubV = 2
 MainV = 3
INVARIANT TypeOK
INVARIANT OverrideWins
INVARIANT ForcedNeverConsultsSystem
INVARIANT ForcedWithoutFallbackUsesSystem
INVARIANT NofallbackNeverConfigures
INVARIANT NoImplicitFallbackUnlessAllowed
INVARIANT FallbackOnlyWhenNeeded
INVARIANT SystemPreferred
INVARIANT FallbackUsedWhenSystemFails
INVARIANT RequiredNotFoundIsError
INVARIANT VersionRespected
INVARIANT RepeatStable
INVARIANT FirstResultSticks
INVARIANT NotFoundNotCached
INVARIANT ReadingsAgreeOutsideCorner
INVARIANT ForcedIgnoresPersistentCache
INVARIANT OverrideBeatsPersistentCache
INVARIANT PersistentCacheOnlyReusesPositive
INVARIANT FreshReadingIgnoresCache
INVARIANT StaticIrrelevant
CHECK_DEADLOCK FALSE
POSTCONDITION EmitSpace
'''

PRE_WEIGHT = {'none': 0.45, 'subcall': 0.35, 'ovrmain': 0.12, 'ovrnf': 0.08}


# ---------------------------------------------------------------------------
# part 1: dependency() decision table

def tlc_trace(module: str, cases: T.List[T.Dict[str, T.Any]], mode: str, fields: T.Sequence[str]) -> T.Tuple[T.List[T.Dict[str, T.Any]], common.TLCResult]:
    """Run a trace spec over the cases; returns the non-"ok" verdicts."""
    with scratch('c10t-') as d:
        tf = d / 'cases.json'
        tf.write_text(json.dumps([{k: c[k] for k in fields if k in c} for c in cases]))
        env = {'TRACE_FILE': str(tf), 'JUDGE_MODE': mode}
        res = run_tlc(SPECS / 'deps', module, env=env, timeout=3600)
        if not res.clean:
            raise MachineryError(f'{module} did not complete cleanly:\n' + res.stdout[-2000:])
        if res.distinct != 2 * len(cases):
            raise MachineryError(f'{module} judged {res.distinct // 2} of {len(cases)} cases')
        out = res.json_lines()
        if out and mode != 'predict':
            res1 = run_tlc(SPECS / 'deps', module, env=env, timeout=3600, workers=1)
            out = res1.json_lines()
    return out, res


def build_cases(space: T.Dict[str, T.Any], tier: str, seed: int) -> T.List[dl.Cell]:
    rnd = random.Random(f'c10-cases-{seed}')
    configs = space['configs']
    for c in configs:
        c['fff'] = sorted(c['fff'])
        c.pop('nofb', None)
    args = space['args']
    valid = [a for a in args if a['fb'] == 'none' or a['af'] == 'unset']
    invalid = [a for a in args if a not in valid]
    cases: T.List[dl.Cell] = []
    quick = tier == 'quick'

    def add(kind: str, cfg: T.Dict[str, T.Any], as_: T.List[T.Dict[str, T.Any]], meth: str = 'auto') -> None:
        cases.append({'id': f'{kind}{len(cases)}', 'cfg': cfg, 'as': as_, 'meth': meth, 'r2': []})

    # single cells, each lookup repeated (RepeatStable on the implementation)
    if quick:
        n_cells, n_invalid, n_seq, n_meth = 2600, 40, 900, 240
        weights = [PRE_WEIGHT[c['pre']] for c in configs]
        for cfg in rnd.choices(configs, weights=weights, k=n_cells):
            a = rnd.choice(valid)
            add('cell', cfg, [a, a] if rnd.random() < 0.8 else [a, a, a])
    else:
        n_invalid, n_seq, n_meth = 400, 16000, 3000
        for cfg in configs:
            for a in valid:
                add('cell', cfg, [a, a] if rnd.random() < 0.8 else [a, a, a])
    for _ in range(n_invalid):
        add('inv', rnd.choice(configs), [rnd.choice(invalid)])
    # the same policy must hold when the lookup names a detection method (the documents know no exception)
    for cfg in rnd.choices(configs, weights=[PRE_WEIGHT[c['pre']] for c in configs], k=n_meth):
        a = rnd.choice(valid)
        add('meth', cfg, [a, a], 'pkgconfig')
    # the static keyword x global default_library x the subproject's own default_library: lookups that configure
    # the providing subproject themselves (DepLookup!StaticClass), weighted towards the override-only routes
    n_stat = 420 if quick else 4000
    rnd_s = random.Random(f'c10-static-{seed}')     # own stream: the other classes keep their cases
    fresh = [c for c in configs if c['pre'] == 'none']
    for cfg in rnd_s.choices(fresh, weights=[3 if c['style'] == 'ovr' else 1 for c in fresh], k=n_stat):
        cfg = dict(cfg, dl=rnd_s.choice(['shared', 'static', 'both']),
                   sdl='none' if cfg['prov'] == 'none' else rnd_s.choice(['none', 'none', 'shared', 'static', 'both']))
        a = dict(rnd_s.choice(valid), static=rnd_s.choice(['true', 'false', 'true', 'false', 'unset']))
        add('stat', cfg, [a, a] if rnd_s.random() < 0.8 else [a, a, a])
    # sequences of three lookups with different arguments on the same name
    weights = [PRE_WEIGHT[c['pre']] for c in configs]
    for cfg in rnd.choices(configs, weights=weights, k=n_seq):
        as_ = [rnd.choice(valid)]
        while len(as_) < 3:
            as_.append(as_[-1] if rnd.random() < 0.2 else rnd.choice(valid))
        add('seq', cfg, as_)
    # histories over ONE build directory: configure, change wrap_mode / force_fallback_for / the system, reconfigure
    n_hist = 1100 if quick else 20000       # candidates; those whose first configuration would abort are dropped later
    w1 = [PRE_WEIGHT[c['pre']] * (3 if c['sys'] else 1) * (1 if c['wm'] == 'forcefallback' else 2) * (1 if c['fff'] else 2)
          for c in configs]
    for cfg in rnd.choices(configs, weights=w1, k=n_hist):
        as1 = [rnd.choice(valid) for _ in range(rnd.choice([1, 1, 2]))]
        as2 = [as1[0] if rnd.random() < 0.5 else rnd.choice(valid) for _ in range(rnd.choice([1, 1, 2]))]
        r2 = {'sys': cfg['sys'] if rnd.random() < 0.5 else rnd.choice([0, 1, 3]),
              'wm': rnd.choice(['default', 'nofallback', 'nodownload', 'forcefallback', 'forcefallback', 'nopromote']),
              'fff': rnd.choice([[], [], ['dep'], ['sub']]), 'as': as2}
        add('hist', cfg, as1)
        cases[-1]['r2'] = [r2]
    return cases


def signature(v: T.Dict[str, T.Any], c: T.Dict[str, T.Any], upto: int) -> str:
    if not c:
        return f"{v['clause']}@?"
    if c.get('meth') == 'pkgconfig' and v.get('ovr', 'none') != 'none':
        # one defect, many cells: an explicit override is not seen by dependency(..., method: ...)
        return f"OverrideIgnoredWithMethodKwarg@override={v['ovr']}"
    if v['clause'] == 'StaticKeywordIrrelevant':
        # one defect, many cells: keyed by the route and the three library-kind inputs
        cfg, a = c['cfg'], c['as'][min(upto, len(c['as'])) - 1]
        return (f"StaticKeywordIrrelevant@{cfg['prov']}-{cfg['style']},fallback={a['fb']},static={a.get('static', 'unset')},"
                f"default_library={cfg.get('dl')},sub:{cfg.get('sdl')}")
    if v.get('run') == 2:
        v2 = dl.second_view(c)
        return f"{v['clause']}@{dl.cell_key(c['cfg'], c['as'])}=>reconfigure:{dl.cell_key(v2['cfg'], v2['as'][:upto])}"
    return f"{v['clause']}@{dl.cell_key(c['cfg'], c['as'][:upto])}" + ('/method=pkg-config' if c.get('meth') == 'pkgconfig' else '')


P_FIELDS = ('id', 'cfg', 'as', 'obs', 'asked', 'r2')


def for_predict(c: T.Dict[str, T.Any]) -> T.Dict[str, T.Any]:
    d = {'id': c['id'], 'cfg': c['cfg'], 'as': c['as'], 'obs': [], 'asked': False,
         'r2': [dict(x, obs=[], asked=False) for x in c['r2']]}
    return d


def part1(chk: Check) -> None:
    quick = chk.tier == 'quick'
    res = run_tlc(SPECS / 'deps', 'DepLookup_MC', cfg_text=DL_CFG, collect=['deplookup_space.json'],
                  timeout=3600, allow_violation=False)
    chk.add_tlc('DepLookup_MC[lookups and re-configurations unbounded]', res)
    space = json.loads(res.collected['deplookup_space.json'])
    chk.extra['deplookup_configs'] = len(space['configs'])
    chk.extra['deplookup_argument_tuples'] = len(space['args'])
    cases = build_cases(space, chk.tier, chk.seed)
    # lay-out information from the specification: which cases may abort a configuration, and where
    pred, pres = tlc_trace('TraceDepLookup', [for_predict(c) for c in cases], 'predict', P_FIELDS)
    chk.add_tlc('TraceDepLookup[predict]', pres, model=False)
    abort = {p['id']: p for p in pred}
    kept = []
    for c in cases:
        p = abort.get(c['id'], {'step': 0, 'step2': 0})
        c['abort'] = p['step']
        if c['r2']:
            if c['abort']:
                continue          # a first configuration that fails leaves nothing to configure again
            c['abort2'] = p['step2']
            if c['abort2']:
                c['r2'][0]['as'] = c['r2'][0]['as'][:c['abort2']]
        elif c['abort']:
            c['as'] = c['as'][:c['abort']]      # nothing after an aborting lookup can be observed
        kept.append(c)
    cases = kept
    single = [c for c in cases if not c['r2']]
    hist = [c for c in cases if c['r2']]
    chk.extra['deplookup_cases'] = len(single)
    chk.extra['deplookup_cases_predicted_to_abort'] = sum(1 for c in single if c['abort'])
    chk.extra['deplookup_two_run_histories'] = len(hist)
    # batches: one wrap_mode per project (one per configuration run for the histories)
    per_project = 60 if quick else 150
    rnd = random.Random(f'c10-layout-{chk.seed}')
    jobs = []
    by_wm: T.Dict[str, T.List[dl.Cell]] = {}
    for c in single:
        by_wm.setdefault((c['cfg']['wm'], c['cfg'].get('dl', '')), []).append(c)
    for (wm, dlib), cs in sorted(by_wm.items()):
        rnd.shuffle(cs)
        for n, part in enumerate(common.chunks(cs, per_project)):
            jobs.append((f'{wm}{dlib}{n}', wm, list(part), chk.seed))
    jobs2 = []
    by_wm2: T.Dict[T.Tuple[str, str], T.List[dl.Cell]] = {}
    for c in hist:
        by_wm2.setdefault((c['cfg']['wm'], c['r2'][0]['wm']), []).append(c)
    for (wm1, wm2), cs in sorted(by_wm2.items()):
        for n, part in enumerate(common.chunks(cs, per_project)):
            jobs2.append((f'{wm1}-{wm2}{n}', wm1, wm2, list(part), chk.seed))
    observed: T.Dict[str, T.Dict[str, T.Any]] = {}
    totals = {'setups': 0, 'unexpected_aborts': 0, 'exit_status_observed': 0, 'unobserved': 0}
    with ThreadPoolExecutor(max_workers=common.NCPU) as ex:
        f2 = [ex.submit(dl.worker2, j) for j in jobs2]
        for done, stats in list(ex.map(dl.worker, jobs)) + [f.result() for f in f2]:
            observed.update(done)
            for k in totals:
                totals[k] += stats[k]
    chk.extra['deplookup_run'] = totals
    judged = []
    for c in cases:
        o = observed.get(c['id'])
        if o is None:
            continue
        c2 = dict(c)
        c2.update({'obs': o['obs'], 'asked': o['asked'], 'main': o.get('main', True)})
        if c['r2']:
            c2['r2'] = [dict(c['r2'][0], obs=o['r2obs']['obs'], asked=o['r2obs']['asked'])] if o.get('r2obs') else []
        judged.append(c2)
    if len(judged) + totals['unobserved'] < len(cases):
        raise MachineryError(f'C10: {len(cases) - len(judged)} cases were not observed')
    bad, jres = tlc_trace('TraceDepLookup', judged, 'judge', P_FIELDS)
    chk.add_tlc('TraceDepLookup[judge]', jres, model=False)
    chk.traces += len(judged)
    chk.evaluations += sum(len(c['obs']) + sum(len(x['obs']) for x in c['r2']) for c in judged)
    by_id = {c['id']: c for c in judged}
    for c in judged:
        kinds = {o['kind'] for o in c['obs']}
        if c['r2']:
            x = c['r2'][0]
            if 'sys' in kinds and (x['wm'] != c['cfg']['wm'] or x['fff'] != c['cfg']['fff'] or x['sys'] != c['cfg']['sys']):
                chk.nontriv(dl.cell_key(c['cfg'], c['as']) + '=>' + dl.cell_key(dl.second_view(c)['cfg'], x['as']))
        elif c['cfg']['pre'] != 'none' or any(o['sub'] != 'unconfigured' for o in c['obs']) or len(kinds) > 1 \
                or ('sub' in kinds or 'error' in kinds):
            chk.nontriv(dl.cell_key(c['cfg'], c['as']))
    for c in (single[:: max(1, len(single) // 3)][:3] + hist[:: max(1, len(hist) // 2)][:2]):
        c = by_id.get(c['id'])
        if c:
            chk.sample({'id': c['id'], 'cell': dl.cell_key(c['cfg'], c['as']), 'observed': c['obs'], 'pkgconfig_asked': c['asked'],
                        'in_main_build_file': c['main'],
                        'reconfigured': [{'cell': dl.cell_key(dl.second_view(c)['cfg'], x['as']), 'observed': x['obs'],
                                          'pkgconfig_asked': x['asked']} for x in c['r2']]}, limit=10)
    for v in bad:
        c = by_id.get(v['id'], {})
        steps = c['r2'][0]['as'] if c and v.get('run') == 2 else c.get('as', [])
        upto = v.get('step') or len(steps)
        sig = signature(v, c, upto)
        chk.violation(sig, {'part': 'deplookup', 'verdict': v, 'cfg': c.get('cfg'), 'as': c.get('as'), 'meth': c.get('meth', 'auto'),
                            'observed': c.get('obs'), 'asked': c.get('asked'), 'r2': c.get('r2', []), 'seed': chk.seed})
    if totals['unobserved']:
        chk.assumptions.append(f"{totals['unobserved']} cells were left unobserved after repeated unexpected aborts "
                               '(each abort is itself reported)')


# ---------------------------------------------------------------------------

def main(chk: Check) -> None:
    chk.rule = ('part 1: cells = (system version, provider kind/style, wrap_mode, force_fallback_for, prior action) x lookup '
                'arguments, each lookup repeated, plus seeded sequences of three lookups; non-trivial = a prior action, a '
                'subproject configured, a fallback/override answer, an error, or differing answers within the history '
                '(distinct abstract histories).  part 2: wrap scenarios x 2 runs; non-trivial = some location is absent or '
                'corrupt, or a patch/diff stage exists.')
    parts = os.environ.get('C10_PARTS', '12')      # development aid: run one half only (evidence then says so)
    if '1' in parts:
        part1(chk)
    if '2' in parts:
        wf.part2(chk)
    if parts != '12':
        chk.assumptions.append(f'PARTIAL RUN: C10_PARTS={parts}')
    chk.exhaustive = chk.tier == 'thorough' and parts == '12'
    chk.assumptions += [
        'one dependency name and one candidate subproject per cell; names are lower-case; lookups use the default method '
        '(pkg-config; cmake is hidden by a private PATH) because `method:` is part of the override identity',
        'the open corner wrap_mode=nofallback + subproject already configured by subproject() without overriding: both the '
        'documented reading (system only) and the reading pinned for the default mode (existing subproject first) are accepted',
        'wrap_mode nodownload/nopromote behave like default in part 1 (subproject sources are local)',
        '"system consulted" is observed at the pkg-config process boundary and only compared one way (asked => allowed)',
        'feature-typed required:, multiple names per dependency(), native:, modules: are not generated',
        'static: (true/false/unset) x -Ddefault_library x default_library in the subproject\'s default_options are generated only '
        'for names nothing was configured or overridden for before the first lookup, with the same keyword on every lookup of '
        'the history (DepLookup!StaticClass): an override or a subproject of another library kind is documented to be '
        'invisible to a static: lookup; -D<subproject>:default_library and override_dependency(static:) are not generated',
        're-configuration histories: one `meson setup --reconfigure` after the first configuration, with changed wrap_mode / '
        'force_fallback_for / system and an edited build file; a positive result of the previous run may be reused or looked up '
        'again (both readings accepted) unless fallback is forced or the name is overridden; --wipe/--clearcache not generated',
    ]


def replay(chk: Check, data: T.Dict[str, T.Any]) -> None:
    det = data['detail']
    if det.get('part') == 'wrapfetch':
        wf.replay(chk, det)
        return
    cell: T.Dict[str, T.Any] = {'id': 'replay', 'cfg': det['cfg'], 'as': det['as'], 'abort': 0, 'meth': det.get('meth', 'auto'),
                                'r2': [{k: x[k] for k in ('sys', 'wm', 'fff', 'as')} for x in det.get('r2', [])]}
    pred, _ = tlc_trace('TraceDepLookup', [for_predict(cell)], 'predict', P_FIELDS)
    seed = det.get('seed', 0)
    if cell['r2']:
        if pred and pred[0]['step']:
            raise MachineryError('replay: the first configuration of the recorded history is predicted to abort')
        cell['abort2'] = pred[0]['step2'] if pred else 0
        if cell['abort2']:
            cell['r2'][0]['as'] = cell['r2'][0]['as'][:cell['abort2']]
        done, _ = dl.worker2(('replay', det['cfg']['wm'], cell['r2'][0]['wm'], [cell], seed))
        o = done['replay']
        cell.update({'obs': o['obs'], 'asked': o['asked']})
        cell['r2'] = [dict(cell['r2'][0], obs=o['r2obs']['obs'], asked=o['r2obs']['asked'])] if o.get('r2obs') else []
    else:
        if pred:
            cell['abort'] = pred[0]['step']
            cell['as'] = cell['as'][:cell['abort']]
        done, _ = dl.worker(('replay', det['cfg']['wm'], [cell], seed))
        o = done['replay']
        cell.update({'obs': o['obs'], 'asked': o['asked']})
    bad, _ = tlc_trace('TraceDepLookup', [cell], 'judge', P_FIELDS)
    for v in bad:
        steps = cell['r2'][0]['as'] if v.get('run') == 2 and cell['r2'] else cell['as']
        upto = v.get('step') or len(steps)
        chk.violation(signature(v, cell, upto),
                      {'part': 'deplookup', 'verdict': v, 'cfg': cell['cfg'], 'as': cell['as'], 'meth': cell['meth'],
                       'observed': cell['obs'], 'asked': cell['asked'], 'r2': cell['r2'], 'seed': seed})


if __name__ == '__main__':
    sys.exit(common.run_check(main, PROP, replay=replay))
