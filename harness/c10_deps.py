"""C10 - dependencies resolve by the documented fallback policy, from verified sources.

Part 1 (specs/deps/DepLookup*.tla): the decision table of ``dependency()``.
  1. TLC model-checks DepLookup_MC: the laws OverrideWins, ForcedNeverConsultsSystem,
     NofallbackNeverConfigures, RequiredNotFoundIsError, RepeatStable (and companions) over every
     configuration cell and every sequence of <= 3 lookups; the run exports the cell space.
  2. (A) cells of that space (all of them in the thorough tier) and sequences of three different
     lookups are rendered into real projects and run through ``meson setup --backend=none``;
     TraceDepLookup (TLC) judges what the build definitions observed.
Part 2 (specs/deps/WrapFetch*.tla): the wrap acquisition pipeline.
  1. TLC model-checks WrapFetch_MC: NeverUnpackBadHash, NodownloadFetchesNothing,
     FailedPatchLeavesNoDir, SecondRunNeverAcceptsHalfPrepared over every scenario, two runs.
  2. (A) the scenarios exported by that run are materialised with file:// URLs and real archives and
     run twice through ``meson subprojects download`` / ``meson setup``; TraceWrapFetch judges the
     resulting trees, package cache and exit status after each run.
"""
from __future__ import annotations

import json
import os
import random
import sys
import typing as T
from concurrent.futures import ThreadPoolExecutor

from . import common, depdrv_lookup as dl, depdrv_wrap as wf
from .common import Check, MachineryError, SPECS, run_tlc, scratch

PROP = 'C10'

DL_CFG = '''SPECIFICATION Spec
CONSTANTS MaxLookups = %d
 SysVersions = {0, 1, 3}
 SubV = 2
 MainV = 3
INVARIANT TypeOK
INVARIANT OverrideWins
INVARIANT ForcedNeverConsultsSystem
INVARIANT ForcedWithoutFallbackUsesSystem
INVARIANT NofallbackNeverConfigures
INVARIANT NoImplicitFallbackUnlessAllowed
INVARIANT FallbackOnlyWhenNeeded
INVARIANT SystemPreferred
INVARIANT FallbackUsedWhenSystemFails
INVARIANT RequiredNotFoundIsError
INVARIANT VersionRespected
INVARIANT RepeatStable
INVARIANT FirstResultSticks
INVARIANT NotFoundNotCached
INVARIANT ReadingsAgreeOutsideCorner
CHECK_DEADLOCK FALSE
POSTCONDITION EmitSpace
'''

PRE_WEIGHT = {'none': 0.45, 'subcall': 0.35, 'ovrmain': 0.12, 'ovrnf': 0.08}


# ---------------------------------------------------------------------------
# part 1: dependency() decision table

def tlc_trace(module: str, cases: T.List[T.Dict[str, T.Any]], mode: str, fields: T.Sequence[str]) -> T.Tuple[T.List[T.Dict[str, T.Any]], common.TLCResult]:
    """Run a trace spec over the cases; returns the non-"ok" verdicts."""
    with scratch('c10t-') as d:
        tf = d / 'cases.json'
        tf.write_text(json.dumps([{k: c[k] for k in fields if k in c} for c in cases]))
        env = {'TRACE_FILE': str(tf), 'JUDGE_MODE': mode}
        res = run_tlc(SPECS / 'deps', module, env=env, timeout=3600)
        if not res.clean:
            raise MachineryError(f'{module} did not complete cleanly:\n' + res.stdout[-2000:])
        if res.distinct != 2 * len(cases):
            raise MachineryError(f'{module} judged {res.distinct // 2} of {len(cases)} cases')
        out = res.json_lines()
        if out and mode != 'predict':
            res1 = run_tlc(SPECS / 'deps', module, env=env, timeout=3600, workers=1)
            out = res1.json_lines()
    return out, res


def build_cases(space: T.Dict[str, T.Any], tier: str, seed: int) -> T.List[dl.Cell]:
    rnd = random.Random(f'c10-cases-{seed}')
    configs = space['configs']
    for c in configs:
        c['fff'] = sorted(c['fff'])
        c.pop('nofb', None)
    args = space['args']
    valid = [a for a in args if a['fb'] == 'none' or a['af'] == 'unset']
    invalid = [a for a in args if a not in valid]
    cases: T.List[dl.Cell] = []
    quick = tier == 'quick'

    def add(kind: str, cfg: T.Dict[str, T.Any], as_: T.List[T.Dict[str, T.Any]], meth: str = 'auto') -> None:
        cases.append({'id': f'{kind}{len(cases)}', 'cfg': cfg, 'as': as_, 'meth': meth})

    # single cells, each lookup repeated (RepeatStable on the implementation)
    if quick:
        n_cells, n_invalid, n_seq, n_meth = 2600, 40, 900, 240
        weights = [PRE_WEIGHT[c['pre']] for c in configs]
        for cfg in rnd.choices(configs, weights=weights, k=n_cells):
            a = rnd.choice(valid)
            add('cell', cfg, [a, a] if rnd.random() < 0.8 else [a, a, a])
    else:
        n_invalid, n_seq, n_meth = 400, 16000, 3000
        for cfg in configs:
            for a in valid:
                add('cell', cfg, [a, a] if rnd.random() < 0.8 else [a, a, a])
    for _ in range(n_invalid):
        add('inv', rnd.choice(configs), [rnd.choice(invalid)])
    # the same policy must hold when the lookup names a detection method (the documents know no exception)
    for cfg in rnd.choices(configs, weights=[PRE_WEIGHT[c['pre']] for c in configs], k=n_meth):
        a = rnd.choice(valid)
        add('meth', cfg, [a, a], 'pkgconfig')
    # sequences of three lookups with different arguments on the same name
    weights = [PRE_WEIGHT[c['pre']] for c in configs]
    for cfg in rnd.choices(configs, weights=weights, k=n_seq):
        as_ = [rnd.choice(valid)]
        while len(as_) < 3:
            as_.append(as_[-1] if rnd.random() < 0.2 else rnd.choice(valid))
        add('seq', cfg, as_)
    return cases


def signature(v: T.Dict[str, T.Any], c: T.Dict[str, T.Any], upto: int) -> str:
    if not c:
        return f"{v['clause']}@?"
    if c.get('meth') == 'pkgconfig' and v.get('ovr', 'none') != 'none':
        # one defect, many cells: an explicit override is not seen by dependency(..., method: ...)
        return f"OverrideIgnoredWithMethodKwarg@override={v['ovr']}"
    return f"{v['clause']}@{dl.cell_key(c['cfg'], c['as'][:upto])}" + ('/method=pkg-config' if c.get('meth') == 'pkgconfig' else '')


def part1(chk: Check) -> None:
    quick = chk.tier == 'quick'
    res = run_tlc(SPECS / 'deps', 'DepLookup_MC', cfg_text=DL_CFG % 3, collect=['deplookup_space.json'],
                  timeout=3600, allow_violation=False)
    chk.add_tlc('DepLookup_MC[MaxLookups=3]', res)
    space = json.loads(res.collected['deplookup_space.json'])
    chk.extra['deplookup_configs'] = len(space['configs'])
    chk.extra['deplookup_argument_tuples'] = len(space['args'])
    cases = build_cases(space, chk.tier, chk.seed)
    # lay-out information from the specification: which cases may abort the configuration, and where
    pred, pres = tlc_trace('TraceDepLookup', cases, 'predict', ('id', 'cfg', 'as'))
    chk.add_tlc('TraceDepLookup[predict]', pres, model=False)
    abort = {p['id']: p['step'] for p in pred}
    for c in cases:
        c['abort'] = abort.get(c['id'], 0)
        if c['abort']:
            c['as'] = c['as'][:c['abort']]      # nothing after an aborting lookup can be observed
    chk.extra['deplookup_cases'] = len(cases)
    chk.extra['deplookup_cases_predicted_to_abort'] = sum(1 for c in cases if c['abort'])
    # batches: one wrap_mode per project
    per_project = 60 if quick else 150
    rnd = random.Random(f'c10-layout-{chk.seed}')
    jobs = []
    by_wm: T.Dict[str, T.List[dl.Cell]] = {}
    for c in cases:
        by_wm.setdefault(c['cfg']['wm'], []).append(c)
    for wm, cs in sorted(by_wm.items()):
        rnd.shuffle(cs)
        for n, part in enumerate(common.chunks(cs, per_project)):
            jobs.append((f'{wm}{n}', wm, list(part), chk.seed))
    observed: T.Dict[str, T.Dict[str, T.Any]] = {}
    totals = {'setups': 0, 'unexpected_aborts': 0, 'exit_status_observed': 0, 'unobserved': 0}
    with ThreadPoolExecutor(max_workers=common.NCPU) as ex:
        for done, stats in ex.map(dl.worker, jobs):
            observed.update(done)
            for k in totals:
                totals[k] += stats[k]
    chk.extra['deplookup_run'] = totals
    judged = []
    for c in cases:
        o = observed.get(c['id'])
        if o is None:
            continue
        c2 = dict(c)
        c2.update({'obs': o['obs'], 'asked': o['asked'], 'main': o['main']})
        judged.append(c2)
    if len(judged) + totals['unobserved'] < len(cases):
        raise MachineryError(f'C10: {len(cases) - len(judged)} cases were not observed')
    bad, jres = tlc_trace('TraceDepLookup', judged, 'judge', ('id', 'cfg', 'as', 'obs', 'asked'))
    chk.add_tlc('TraceDepLookup[judge]', jres, model=False)
    chk.traces += len(judged)
    chk.evaluations += sum(len(c['obs']) for c in judged)
    by_id = {c['id']: c for c in judged}
    for c in judged:
        kinds = {o['kind'] for o in c['obs']}
        if c['cfg']['pre'] != 'none' or any(o['sub'] != 'unconfigured' for o in c['obs']) or len(kinds) > 1 \
                or ('sub' in kinds or 'error' in kinds):
            chk.nontriv(dl.cell_key(c['cfg'], c['as']))
    for c in judged[:: max(1, len(judged) // 4)][:4]:
        chk.sample({'id': c['id'], 'cell': dl.cell_key(c['cfg'], c['as']), 'observed': c['obs'], 'pkgconfig_asked': c['asked'],
                    'in_main_build_file': c['main']}, limit=10)
    for v in bad:
        c = by_id.get(v['id'], {})
        upto = v.get('step') or len(c.get('as', []))
        sig = signature(v, c, upto)
        chk.violation(sig, {'part': 'deplookup', 'verdict': v, 'cfg': c.get('cfg'), 'as': c.get('as'), 'meth': c.get('meth', 'auto'),
                            'observed': c.get('obs'), 'asked': c.get('asked'), 'seed': chk.seed})
    if totals['unobserved']:
        chk.assumptions.append(f"{totals['unobserved']} cells were left unobserved after repeated unexpected aborts "
                               '(each abort is itself reported)')


# ---------------------------------------------------------------------------

def main(chk: Check) -> None:
    chk.rule = ('part 1: cells = (system version, provider kind/style, wrap_mode, force_fallback_for, prior action) x lookup '
                'arguments, each lookup repeated, plus seeded sequences of three lookups; non-trivial = a prior action, a '
                'subproject configured, a fallback/override answer, an error, or differing answers within the history '
                '(distinct abstract histories).  part 2: wrap scenarios x 2 runs; non-trivial = some location is absent or '
                'corrupt, or a patch/diff stage exists.')
    parts = os.environ.get('C10_PARTS', '12')      # development aid: run one half only (evidence then says so)
    if '1' in parts:
        part1(chk)
    if '2' in parts:
        wf.part2(chk)
    if parts != '12':
        chk.assumptions.append(f'PARTIAL RUN: C10_PARTS={parts}')
    chk.exhaustive = chk.tier == 'thorough' and parts == '12'
    chk.assumptions += [
        'one dependency name and one candidate subproject per cell; names are lower-case; lookups use the default method '
        '(pkg-config; cmake is hidden by a private PATH) because `method:` is part of the override identity',
        'the open corner wrap_mode=nofallback + subproject already configured by subproject() without overriding: both the '
        'documented reading (system only) and the reading pinned for the default mode (existing subproject first) are accepted',
        'wrap_mode nodownload/nopromote behave like default in part 1 (subproject sources are local)',
        '"system consulted" is observed at the pkg-config process boundary and only compared one way (asked => allowed)',
        'feature-typed required:, multiple names per dependency(), native:, static:, modules: are not generated',
    ]


def replay(chk: Check, data: T.Dict[str, T.Any]) -> None:
    det = data['detail']
    if det.get('part') == 'wrapfetch':
        wf.replay(chk, det)
        return
    cell = {'id': 'replay', 'cfg': det['cfg'], 'as': det['as'], 'abort': 0, 'meth': det.get('meth', 'auto')}
    pred, _ = tlc_trace('TraceDepLookup', [cell], 'predict', ('id', 'cfg', 'as'))
    if pred:
        cell['abort'] = pred[0]['step']
        cell['as'] = cell['as'][:cell['abort']]
    done, _ = dl.worker(('replay', det['cfg']['wm'], [cell], det.get('seed', 0)))
    o = done['replay']
    cell.update({'obs': o['obs'], 'asked': o['asked']})
    bad, _ = tlc_trace('TraceDepLookup', [cell], 'judge', ('id', 'cfg', 'as', 'obs', 'asked'))
    for v in bad:
        upto = v.get('step') or len(cell['as'])
        chk.violation(signature(v, cell, upto),
                      {'part': 'deplookup', 'verdict': v, 'cfg': cell['cfg'], 'as': cell['as'], 'meth': cell['meth'],
                       'observed': cell['obs'], 'asked': cell['asked'], 'seed': det.get('seed', 0)})


if __name__ == '__main__':
    sys.exit(common.run_check(main, PROP, replay=replay))
