"""Owned by the C10 check (harness/depdrv_wrap.py): put on PYTHONPATH of the meson commands that exercise the
wrap download pipeline so that the retry back-off of a failing download (1+2+4+8+16 s of time.sleep) costs
nothing.  Active only when C10_NOSLEEP=1; nothing in the tree under test is changed."""
import os

if os.environ.get('C10_NOSLEEP') == '1':
    import time

    def _no_sleep(_seconds: float) -> None:
        return None

    time.sleep = _no_sleep
