"""C11 - Installation is confined to DESTDIR, exact, and reversible.

1. TLC model-checks specs/install/Install_MC: the operational installer
   (InstallOps: one file-system call at a time on a whole file system in which
   DESTDIR is one directory) equals the declarative rule book (Install) on the
   complete reachable state space of every conflict-free plan of a small
   catalog, and the laws Confined, Exact, DryRunNoop, Idempotent,
   LogNamesCreated, UninstallRemovesExactlyLog, OrderIndependent,
   ReversibleWhenFresh, ForeignKept hold on every transition.
2. (A) plans, option sets and install arguments exported by that TLC run are
   rendered to real projects; seeded histories over the model's operations are
   run with the real ``meson setup`` / ``meson install`` / ``meson --internal
   uninstall`` and every step is judged by TraceInstall (TLC).
3. (B) seeded random richer projects (names with spaces / unicode / trailing
   blanks / newlines, modes, tags, subprojects, several prefixes and directory
   options, absolute install dirs, DESTDIR with spaces given by option,
   environment or relative path), longer histories, judged the same way.

Python renders abstract plans to files and commands and projects the real file
system (listing of DESTDIR, listing of everything else below the work
directory, install-log.txt, intro-install_plan.json) to abstract observations;
the expected tree/log is computed by TLC from the abstract plan only.
"""
from __future__ import annotations

import hashlib
import json
import grp
import os
import pwd
import random
import shutil
import stat
import subprocess
import sys
import threading
import time
import typing as T
import zlib
from concurrent.futures import ProcessPoolExecutor
from pathlib import Path

from . import common
from .common import Check, MachineryError, SPECS, run_tlc, scratch

PROP = 'C11'
NINJA_STUB = str(common.VERIF / 'tools' / 'ninja-stub')
CMD_TIMEOUT = 600
T0 = 1_600_000_000          # mtime of every generated source (abstract time 0; abstract times are seconds after T0)
DT = 5000                   # an edited / touched source is this much newer, an aged installed file this much older
TCLIP = 1_000_000           # times further away from T0 ("now") are reported as this

MC_CFG = '''SPECIFICATION Spec
CONSTANTS MaxPlan = %d
 CatalogName = "%s"
 OptsName = "%s"
 TimesName = "%s"
INVARIANT Confined
INVARIANT Exact
INVARIANT DryRunNoop
INVARIANT Idempotent
INVARIANT OnlyChangedByTime
INVARIANT LogNamesCreated
INVARIANT UninstallRemovesExactlyLog
INVARIANT OrderIndependent
INVARIANT ReversibleWhenFresh
INVARIANT OutsideUntouched
INVARIANT ForeignKept
CHECK_DEADLOCK FALSE
POSTCONDITION EmitModel
'''

DIR_OPTS = ('bindir', 'sbindir', 'libdir', 'includedir', 'localedir', 'datadir', 'mandir')


# ---------------------------------------------------------------------------
# abstract plan items (same fields as specs/install/Install.tla)

def item(id_: str, kind: str, sub: str, dir_: T.Dict[str, T.Any], src: T.List[str], **kw: T.Any) -> T.Dict[str, T.Any]:
    it: T.Dict[str, T.Any] = {'id': id_, 'kind': kind, 'sub': sub, 'dir': dir_, 'src': src, 'rename': [], 'pp': False,
                              'hsub': [], 'stem': '', 'locale': '', 'sect': '', 'strip': False, 'exf': [], 'exd': [],
                              'st': [], 'mode': -1, 'own': -1, 'grp': -1, 'tag': '', 'ext': '', 'to': '', 'fl': '',
                              # rendering only (not read by the specification): how ids are written ('num' | 'name'), and
                              # whether a data rule is written as configure_file(install: true)
                              'idn': 'num', 'cf': False}
    for k, v in kw.items():
        if k not in it:
            raise MachineryError('unknown item field ' + k)
        it[k] = v
    return it


def ent(p: T.List[str], t: str, m: int, c: str) -> T.Dict[str, T.Any]:
    return {'p': p, 't': t, 'm': m, 'c': c, 'l': '', 'r': '', 'mt': 0}


def lnk(p: T.List[str], l: str, r: str, m: int, c: str) -> T.Dict[str, T.Any]:
    """A source that is a symbolic link with text l; it resolves to a file of mode m / content c (r = 'file': a source of
    the project, 'fixed': a file planted outside DESTDIR below the virtual root) or dangles (r = 'none')."""
    return {'p': p, 't': 'link', 'm': m, 'c': c, 'l': l, 'r': r, 'mt': 0}


def rel(*p: str) -> T.Dict[str, T.Any]:
    return {'k': 'rel', 'p': list(p)}


def absd(*p: str) -> T.Dict[str, T.Any]:
    return {'k': 'abs', 'p': list(p)}


NONE_DIR = {'k': 'none', 'p': []}


def symbolic(mode: int) -> str:
    """rwxr-xr-x notation, special bits as s/S (user, group triplet) and t/T."""
    return stat.filemode(stat.S_IFREG | mode)[1:]


ROOT = os.geteuid() == 0
# ids a rule may declare: as root any id can be given away (some have a name in the user / group database, 4242 has
# none and can only be written as a number); otherwise only the ids the process has anyway (chown to them is allowed and
# still makes the kernel clear the set-id bits)
OWNER_IDS = [0, 1, 2, 65534, 4242] if ROOT else [os.geteuid()]
GROUP_IDS = [0, 1, 2, 65534, 4242] if ROOT else [os.getegid()]


# the numeric id 1 is rejected by the pinned interpreter (`True in mode`, and 1 == True): see probe P-numeric-id-one and the
# known finding; everywhere else the id 1 is written by name
NUMERIC_ONE_OK = False


def real_id(n: int, group: bool) -> int:
    """Abstract id of the model -> id usable by this process."""
    if n < 0 or ROOT:
        return n
    return os.getegid() if group else os.geteuid()


def id_text(n: int, group: bool, byname: bool, force_num: bool = False) -> str:
    if n < 0:
        return 'false'
    if byname or (n == 1 and not NUMERIC_ONE_OK and not force_num):
        try:
            return mq(grp.getgrgid(n).gr_name if group else pwd.getpwuid(n).pw_name)
        except KeyError:
            pass
    return str(n)


def mode_text(it: T.Dict[str, T.Any]) -> T.Optional[str]:
    """install_mode as written: 'rwxr-xr-x' | [perms | false, owner | false, group | false] (trailing false may be left out)."""
    m, u, g = it['mode'], it['own'], it['grp']
    if m < 0 and u < 0 and g < 0:
        return None
    perm = mq(symbolic(m)) if m >= 0 else 'false'
    odd = zlib.crc32(it['id'].encode()) & 1
    if u < 0 and g < 0:
        return perm if odd else '[' + perm + ']'
    byname = it.get('idn') == 'name'
    force = it.get('idn') == 'num!'
    parts = [perm, id_text(u, False, byname, force), id_text(g, True, byname, force)]
    if odd and parts[-1] == 'false':
        parts.pop()
    return '[' + ', '.join(parts) + ']'


def mq(s: str) -> str:
    """meson single-quoted string literal."""
    return "'" + s.replace('\\', '\\\\').replace("'", "\\'").replace('\n', '\\n').replace('\t', '\\t') + "'"


# ---------------------------------------------------------------------------
# rendering an abstract case to a real project

class Ctx:
    def __init__(self, w: Path, case: T.Dict[str, T.Any]):
        self.w = w
        self.case = case
        env = case['env']
        self.src = w / 'src'
        self.build = w / 'build'
        self.home = w / 'home'
        self.cwd = w / 'cwd'
        self.decoy = w / 'decoy dest'
        self.root = w / 'r'                      # stands for "/" of the target system: prefix and absolute dirs live below
        self.rc = list(self.root.parts[1:])
        self.dest = w / env['dname']
        self.dc = list(self.dest.parts[1:])
        self.o = dict(case['o'])
        self.o['prefix'] = self.rc + list(case['o']['prefix'])
        self.o['uid'], self.o['gid'] = os.geteuid(), os.getegid()     # whoever runs `meson install` below
        self.plan = []
        self.outside_files: T.List[T.Tuple[Path, str, int]] = []
        for it in case['plan']:
            it = json.loads(json.dumps(it))
            it['own'], it['grp'] = real_id(it['own'], False), real_id(it['grp'], True)
            if it['dir']['k'] == 'abs':
                it['dir']['p'] = self.rc + it['dir']['p']
            for e in it['st']:
                if e['t'] == 'link' and e['l'].startswith('/'):
                    if e['r'] == 'fixed':
                        self.outside_files.append((self.root.joinpath(*e['l'].split('/')[1:]), e['c'], e['m']))
                    e['l'] = str(self.root) + e['l']
            self.plan.append(it)
        self.by_id = {it['id']: it for it in self.plan}
        self.log = self.build / 'meson-logs' / 'install-log.txt'
        self.cmds: T.List[T.Dict[str, T.Any]] = []

    def projdir(self, sub: str, base: Path) -> Path:
        return base / 'subprojects' / sub if sub else base

    def env(self, extra: T.Optional[T.Dict[str, str]] = None) -> T.Dict[str, str]:
        e = {k: v for k, v in os.environ.items() if k not in ('DESTDIR', 'MESON_ROOT_CMD', 'PYTHONPATH')}
        e.update({'HOME': str(self.home), 'NINJA': NINJA_STUB, 'PYTHONDONTWRITEBYTECODE': '1', 'LC_ALL': 'C.UTF-8',
                  'LANG': 'C.UTF-8', 'TMPDIR': str(self.w / 'tmp')})
        if extra:
            e.update(extra)
        return e


def dir_text(d: T.Dict[str, T.Any]) -> str:
    return ('/' if d['k'] == 'abs' else '') + '/'.join(d['p'])


def write_file(p: Path, content: str, mode: int, mtime: int, owner: T.Optional[T.Tuple[int, int]] = None) -> None:
    p.parent.mkdir(parents=True, exist_ok=True)
    with open(p, 'w', encoding='utf-8', newline='') as f:
        f.write(content)
    if owner is not None:
        os.chown(p, *owner)
    os.chmod(p, mode)
    os.utime(p, (mtime, mtime))


def built(it: T.Dict[str, T.Any]) -> bool:
    """The installed file comes from the build directory (custom_target output, configure_file output)."""
    return it['kind'] == 'target' or bool(it.get('cf'))


def make_link(p: Path, text: str) -> None:
    p.parent.mkdir(parents=True, exist_ok=True)
    if os.path.lexists(p):
        os.unlink(p)
    os.symlink(text, p)


def content_of(it: T.Dict[str, T.Any], e: T.Dict[str, T.Any], touched: str) -> str:
    return e['c'] + ('#1' if touched in ('newer', 'sametime') else '')


def write_sources(ctx: Ctx, it: T.Dict[str, T.Any], touched: str, in_build: bool = True) -> None:
    """(Re)write the files an install rule copies from; `touched` = '' (as generated) | 'newer' (edited: new content, newer
    mtime) | 'sametime' (new content, old mtime) | 'bump' (old content, newer mtime).  What is built
    (in_build) is written into the build directory once it is configured; before that only the input of a
    configure_file() exists."""
    mt = T0 + (DT if touched in ('newer', 'bump') else 0)
    kind = it['kind']
    # the sources may belong to somebody else (only root can give files away): ownership is not copied
    own = ctx.case['env'].get('srcown')
    own = tuple(own) if own and ROOT else None
    if kind in ('emptydir', 'symlink'):
        return
    if built(it) and in_build:
        write_file(ctx.projdir(it['sub'], ctx.build) / it['src'][-1], content_of(it, it['st'][0], touched), it['st'][0]['m'], mt, own)
        return
    if kind == 'target':
        return
    base = ctx.projdir(it['sub'], ctx.src).joinpath(*it['src'])
    if kind != 'subdir':
        if it['st'][0]['t'] == 'link':
            make_link(base, it['st'][0]['l'])
        else:
            write_file(base, content_of(it, it['st'][0], touched), it['st'][0]['m'], mt, own)
        return
    base.mkdir(parents=True, exist_ok=True)
    for e in it['st']:
        p = base.joinpath(*e['p'])
        if e['t'] == 'dir':
            p.mkdir(parents=True, exist_ok=True)
        elif e['t'] == 'link':
            make_link(p, e['l'])
        else:
            write_file(p, content_of(it, e, touched), e['m'], mt, own)
    for e in sorted((x for x in it['st'] if x['t'] == 'dir'), key=lambda x: -len(x['p'])):
        os.chmod(base.joinpath(*e['p']), e['m'])
    os.chmod(base, 0o777 & ~ctx.o['eumask'])


def statement(it: T.Dict[str, T.Any]) -> str:
    kind = it['kind']
    kw: T.List[str] = []
    d = it['dir']
    if kind == 'data' and it.get('cf'):
        head = 'configure_file(input: ' + mq('/'.join(it['src']))
        kw += ['output: ' + mq(it['src'][-1]), 'copy: true', 'install: true']
    elif kind == 'data':
        head = 'install_data(' + mq('/'.join(it['src']))
        if it['rename']:
            kw.append('rename: ' + mq('/'.join(it['rename'])))
        if it['pp']:
            kw.append('preserve_path: true')
    elif kind == 'header':
        head = 'install_headers(' + mq('/'.join(it['src']))
        if it['hsub']:
            kw.append('subdir: ' + mq('/'.join(it['hsub'])))
        if it['pp']:
            kw.append('preserve_path: true')
    elif kind == 'man':
        head = 'install_man(' + mq('/'.join(it['src']))
        if it['locale']:
            kw.append('locale: ' + mq(it['locale']))
    elif kind == 'subdir':
        head = 'install_subdir(' + mq('/'.join(it['src']))
        if it['strip']:
            kw.append('strip_directory: true')
        if it['exf']:
            kw.append('exclude_files: [' + ', '.join(mq('/'.join(x)) for x in it['exf']) + ']')
        if it['exd']:
            kw.append('exclude_directories: [' + ', '.join(mq('/'.join(x)) for x in it['exd']) + ']')
    elif kind == 'emptydir':
        head = 'install_emptydir(' + mq(dir_text(d))
    elif kind == 'symlink':
        head = 'install_symlink(' + mq(it['src'][-1])
        kw.append('pointing_to: ' + mq(it['to']))
    elif kind == 'target':
        head = 'custom_target(' + mq('ct_' + it['id'])
        kw += ['output: ' + mq(it['src'][-1]), "command: ['true']", 'install: true']
    else:
        raise MachineryError('unknown kind ' + kind)
    if kind != 'emptydir' and d['k'] != 'none':
        kw.append('install_dir: ' + mq(dir_text(d)))
    if it['fl']:
        kw.append('follow_symlinks: ' + it['fl'])
    mt = mode_text(it)
    if mt is not None:
        kw.append('install_mode: ' + mt)
    if it['tag']:
        kw.append('install_tag: ' + mq(it['tag']))
    return head + ''.join(', ' + k for k in kw) + ')'


def render(ctx: Ctx) -> None:
    for d in (ctx.src, ctx.home, ctx.cwd, ctx.decoy, ctx.w / 'tmp', ctx.dest.parent):
        d.mkdir(parents=True, exist_ok=True)
    for fp, content, mode in ctx.outside_files:
        write_file(fp, content, mode, T0)
    (ctx.home / 'sentinel').write_text('home')
    (ctx.cwd / 'sentinel').write_text('cwd')
    subs = sorted({it['sub'] for it in ctx.plan if it['sub']} | set(ctx.case['env'].get('subprojects', [])))
    umask = ctx.o['umask']
    dopts = ["'install_umask=" + ('preserve' if umask < 0 else format(umask, '04o')) + "'"] if ctx.case['env'].get('umask_in_project') else []
    lines = ['project(' + mq(ctx.o['proj']) + (', default_options: [' + ', '.join(dopts) + ']' if dopts else '') + ')']
    for s in subs:
        lines.append('subproject(' + mq(s) + ')')
    per: T.Dict[str, T.List[str]] = {s: ['project(' + mq(s) + ')'] for s in subs}
    per[''] = lines
    for it in ctx.plan:
        per[it['sub']].append(statement(it))
        write_sources(ctx, it, '', in_build=False)
    for s, ls in per.items():
        d = ctx.projdir(s, ctx.src)
        d.mkdir(parents=True, exist_ok=True)
        (d / 'meson.build').write_text('\n'.join(ls) + '\n', encoding='utf-8')


def run_cmd(ctx: Ctx, cmd: T.List[str], cwd: Path, env: T.Dict[str, str], umask: int, what: str) -> T.Tuple[int, str]:
    def pre() -> None:
        os.umask(umask)
    try:
        p = subprocess.run(cmd, cwd=cwd, env=env, stdout=subprocess.PIPE, stderr=subprocess.STDOUT, timeout=CMD_TIMEOUT,
                           preexec_fn=pre, stdin=subprocess.DEVNULL)
    except subprocess.TimeoutExpired as ex:
        raise MachineryError(f'{what} timed out after {CMD_TIMEOUT}s') from ex
    out = p.stdout.decode('utf-8', 'replace')
    ctx.cmds.append({'what': what, 'cmd': cmd, 'cwd': str(cwd), 'rc': p.returncode, 'output': out[-1500:]})
    return p.returncode, out


def setup(ctx: Ctx) -> int:
    o = ctx.o
    backend = ctx.case['env']['backend']
    cmd = [common.PYTHON, str(common.REPO / 'meson.py'), 'setup', '--backend=' + backend, '--prefix', '/' + '/'.join(o['prefix'])]
    for k in DIR_OPTS:
        cmd += ['--' + k, '/'.join(o[k])]
    if not ctx.case['env'].get('umask_in_project'):
        cmd.append('-Dinstall_umask=' + ('preserve' if o['umask'] < 0 else format(o['umask'], '04o')))
    cmd += [str(ctx.build), str(ctx.src)]
    rc, out = run_cmd(ctx, cmd, ctx.w, ctx.env(), 0o022, 'setup')
    if rc != 0 and ctx.case['env'].get('accept_probe'):
        return rc                # a probe of what build definitions are accepted: judged, not a generator problem
    if rc != 0:
        raise MachineryError('meson setup failed on a generated project (generator or environment problem):\n' + out[-1500:]
                             + '\n' + '\n'.join(p.read_text() for p in sorted(ctx.src.rglob('meson.build'))))
    for it in ctx.plan:
        if built(it):
            write_sources(ctx, it, '')
    return 0


# ---------------------------------------------------------------------------
# projection of the real file system

def content_id(p: str) -> str:
    with open(p, 'rb') as f:
        b = f.read()
    if len(b) <= 300:
        try:
            return b.decode('utf-8')
        except UnicodeDecodeError:
            pass
    return 'sha1:' + hashlib.sha1(b).hexdigest()


def list_tree(dest: Path) -> T.List[T.Dict[str, T.Any]]:
    out: T.List[T.Dict[str, T.Any]] = []

    def visit(p: str, comps: T.List[str]) -> None:
        st = os.lstat(p)
        ids = {'u': st.st_uid, 'g': st.st_gid, 'mt': 0}
        if stat.S_ISDIR(st.st_mode):
            out.append({'p': comps, 't': 'dir', 'm': st.st_mode & 0o7777, 'l': '', 'c': '', **ids})
            for name in sorted(os.listdir(p)):
                visit(os.path.join(p, name), comps + [name])
        elif stat.S_ISLNK(st.st_mode):
            out.append({'p': comps, 't': 'link', 'm': 0, 'l': os.readlink(p), 'c': '', **ids})
        elif stat.S_ISREG(st.st_mode):
            ids['mt'] = max(-TCLIP, min(TCLIP, int(st.st_mtime) - T0))
            out.append({'p': comps, 't': 'file', 'm': st.st_mode & 0o7777, 'l': '', 'c': content_id(p), **ids})
        else:
            out.append({'p': comps, 't': 'special', 'm': st.st_mode & 0o7777, 'l': '', 'c': '', **ids})
    if os.path.lexists(dest):
        visit(str(dest), [])
    return out


def list_outside(ctx: Ctx) -> T.List[str]:
    """Everything below the work directory except DESTDIR and the install log, one string per entry."""
    out: T.List[str] = []
    skip = {str(ctx.dest), str(ctx.log)}

    def visit(p: str, relp: str) -> None:
        if p in skip:
            return
        st = os.lstat(p)
        if stat.S_ISDIR(st.st_mode):
            out.append(f'{relp}|dir|{st.st_mode & 0o7777:o}|{st.st_uid}:{st.st_gid}')
            for name in sorted(os.listdir(p)):
                visit(os.path.join(p, name), relp + '/' + name)
        elif stat.S_ISLNK(st.st_mode):
            out.append(f'{relp}|link|{os.readlink(p)}|{st.st_uid}:{st.st_gid}')
        elif stat.S_ISREG(st.st_mode):
            with open(p, 'rb') as f:
                h = hashlib.sha1(f.read()).hexdigest()[:16]
            out.append(f'{relp}|file|{st.st_mode & 0o7777:o}|{st.st_uid}:{st.st_gid}|{h}|{st.st_mtime_ns}')
        else:
            out.append(f'{relp}|special')
    for name in sorted(os.listdir(ctx.w)):
        visit(str(ctx.w / name), name)
    return out


def read_log(ctx: Ctx) -> T.List[T.Dict[str, T.Any]]:
    """The install log as the line-based file it is: one entry per line, comment lines dropped, nothing else touched."""
    if not ctx.log.exists():
        return []
    raw = ctx.log.read_bytes().decode('utf-8', 'surrogateescape')
    lines = raw.split('\n')
    if lines and lines[-1] == '':
        lines.pop()
    dest = str(ctx.dest)
    out = []
    for ln in lines:
        if ln.startswith('#'):
            continue
        if ln.startswith('/'):
            ln = os.path.normpath(ln)      # a relative --destdir leaves "build/../stage" spellings in the log
        if ln == dest:
            out.append({'inside': True, 'p': []})
        elif ln.startswith(dest + '/'):
            out.append({'inside': True, 'p': ln[len(dest) + 1:].split('/')})
        else:
            out.append({'inside': False, 'p': [ln]})
    return out


INTRO_KINDS = {'data': 'data', 'configure': 'data', 'man': 'man', 'headers': 'header', 'install_subdirs': 'subdir', 'targets': 'target'}


def read_intro(ctx: Ctx) -> T.List[T.Dict[str, T.Any]]:
    p = ctx.build / 'meson-info' / 'intro-install_plan.json'
    data = json.loads(p.read_text(encoding='utf-8'))
    o = ctx.o
    out = []
    for key, entries in data.items():
        for _src, e in entries.items():
            dest = e['destination']
            comps = [c for c in dest.split('/') if c != '']
            if dest.startswith('/'):
                path = comps
            elif comps and comps[0].startswith('{') and comps[0].endswith('}'):
                name = comps[0][1:-1]
                if name == 'prefix':
                    path = o['prefix'] + comps[1:]
                elif name in o:
                    path = o['prefix'] + o[name] + comps[1:]
                else:
                    path = ['<unknown placeholder ' + name + '>'] + comps[1:]
            else:
                path = o['prefix'] + comps
            out.append({'kind': INTRO_KINDS.get(key, key), 'p': path, 'tag': e.get('tag') or '', 'sub': e.get('subproject') or ''})
    return out


# ---------------------------------------------------------------------------
# running one history

def install_cmd(ctx: Ctx, op: T.Dict[str, T.Any]) -> T.Tuple[T.List[str], Path, T.Dict[str, str]]:
    envd = ctx.case['env']
    cmd = [common.PYTHON, str(common.REPO / 'meson.py'), 'install']
    if envd['backend'] != 'none' or envd.get('no_rebuild'):
        cmd.append('--no-rebuild')
    if envd['cwdmode'] == 'C':
        cmd += ['-C', str(ctx.build)]
        cwd = ctx.cwd
    else:
        cwd = ctx.build
    extra: T.Dict[str, str] = {}
    dm = envd['destmode']
    if dm == 'opt':
        cmd += ['--destdir', str(ctx.dest)]
    elif dm == 'env':
        extra['DESTDIR'] = str(ctx.dest)
    elif dm == 'both':
        extra['DESTDIR'] = str(ctx.decoy)
        cmd += ['--destdir', str(ctx.dest)]
    elif dm == 'rel':
        cmd += ['--destdir', os.path.relpath(ctx.dest, ctx.build)]
    else:
        raise MachineryError('destmode ' + dm)
    if op['dry']:
        cmd.append('--dry-run')
    if op['oc']:
        cmd.append('--only-changed')
    if op['tags']:
        cmd += ['--tags', ','.join(op['tags'])]
    if op['skip']:
        if op['skip'] == ['*']:
            cmd.append('--skip-subprojects')
        else:
            cmd += ['--skip-subprojects', ','.join(op['skip'])]
    if envd.get('quiet'):
        cmd.append('--quiet')
    return cmd, cwd, ctx.env(extra)


def name_class(name: str) -> str:
    if '\n' in name or '\r' in name:
        return 'newline'
    if name != name.strip():
        return 'trailing-blank'
    return 'plain'


def run_case(case: T.Dict[str, T.Any], keep: T.Optional[Path] = None) -> T.Dict[str, T.Any]:
    """Render the project, run the history with the real commands, return the trace case (plus replay detail)."""
    with scratch('c11-') as sw:
        w = sw / 'w'
        w.mkdir()
        ctx = Ctx(w, case)
        render(ctx)
        setuprc = setup(ctx)
        if setuprc != 0:
            return {'id': case['id'], 'o': ctx.o, 'plan': ctx.plan, 'setuprc': setuprc, 't0': [], 'out0': [], 'ev': [], 'intro': [],
                    'checkintro': False, '_cmds': ctx.cmds, '_planted': [],
                    '_build_files': {str(p.relative_to(ctx.src)): p.read_text(encoding='utf-8') for p in sorted(ctx.src.rglob('meson.build'))}}
        pre = case['env']['pre']
        if pre != 'absent':
            ctx.dest.mkdir(parents=True)
            os.chmod(ctx.dest, 0o700 if pre == 'dir700' else 0o755)
            for iid in case['env'].get('premk', []):
                it = ctx.by_id[iid]
                q = ctx.dest.joinpath(*(it['dir']['p'] if it['dir']['k'] == 'abs' else ctx.o['prefix'] + it['dir']['p']))
                q.mkdir(parents=True, exist_ok=True)
                os.chmod(q, 0o777)
        trace: T.Dict[str, T.Any] = {'id': case['id'], 'o': ctx.o, 'plan': ctx.plan, 'setuprc': 0, 't0': list_tree(ctx.dest),
                                     'out0': list_outside(ctx), 'ev': [], 'intro': read_intro(ctx),
                                     'checkintro': True}
        touched: T.Set[str] = set()
        planted: T.List[T.List[str]] = []
        for op in case['hist']:
            ev: T.Dict[str, T.Any] = {'op': op['op'], 'rc': 0}
            if op['op'] == 'install':
                cmd, cwd, env = install_cmd(ctx, op)
                rc, _ = run_cmd(ctx, cmd, cwd, env, ctx.o['eumask'], 'install')
                ev.update({'rc': rc, 'tags': op['tags'], 'skip': op['skip'], 'dry': op['dry'], 'oc': op['oc']})
            elif op['op'] == 'uninstall':
                cmd = [common.PYTHON, str(common.REPO / 'meson.py'), '--internal', 'uninstall']
                rc, _ = run_cmd(ctx, cmd, ctx.build, ctx.env(), ctx.o['eumask'], 'uninstall')
                ev['rc'] = rc
            elif op['op'] == 'touch':
                ids = [i for i in op['ids'] if i in ctx.by_id and i not in touched and ctx.by_id[i]['st']]
                how = op.get('how', 'newer')
                for i in ids:
                    write_sources(ctx, ctx.by_id[i], how)
                    touched.add(i)
                ev.update({'ids': ids, 'how': how, 'mt': DT})
            elif op['op'] == 'age':
                # somebody gives an installed file an old time stamp: --only-changed has to overwrite it
                files = [e['p'] for e in list_tree(ctx.dest) if e['t'] == 'file']
                if not files:
                    continue
                fp = ctx.dest.joinpath(*files[op['k'] % len(files)])
                os.utime(fp, (T0 - DT, T0 - DT))
            elif op['op'] == 'plant':
                tree = list_tree(ctx.dest)
                target: T.Optional[T.List[str]] = None
                if op.get('shadow'):
                    for e in tree:
                        if e['t'] == 'file' and e['p'] and name_class(e['p'][-1]) == 'trailing-blank':
                            cand = e['p'][:-1] + [e['p'][-1].strip()]
                            if cand[-1] and not any(x['p'] == cand for x in tree):
                                target = cand
                                break
                if target is None:
                    dirs = [e['p'] for e in tree if e['t'] == 'dir']
                    if not dirs:
                        continue
                    target = dirs[op['k'] % len(dirs)] + [op['name']]
                    if any(x['p'] == target for x in tree):
                        continue
                write_file(ctx.dest.joinpath(*target), 'foreign', 0o644, T0)
                planted.append(target)
                ev.update({'p': target, 'm': 0o644, 'c': 'foreign'})
            else:
                raise MachineryError('unknown op ' + str(op))
            ev['tree'] = list_tree(ctx.dest)
            ev['out'] = list_outside(ctx)
            ev['log'] = read_log(ctx)
            trace['ev'].append(ev)
        if keep is not None:
            shutil.copytree(w, keep, symlinks=True)
        trace['_cmds'] = ctx.cmds
        trace['_planted'] = planted
        trace['_build_files'] = {str(p.relative_to(ctx.src)): p.read_text(encoding='utf-8') for p in sorted(ctx.src.rglob('meson.build'))}
        return trace


def _worker(case: T.Dict[str, T.Any]) -> T.Dict[str, T.Any]:
    try:
        return run_case(case)
    except MachineryError as e:
        return {'id': case['id'], '_machinery': str(e)}
    except Exception as e:  # noqa: BLE001
        import traceback
        return {'id': case['id'], '_machinery': 'harness exception: ' + repr(e) + '\n' + traceback.format_exc()}


# ---------------------------------------------------------------------------
# histories

def full_install() -> T.Dict[str, T.Any]:
    return {'op': 'install', 'tags': [], 'skip': [], 'dry': False, 'oc': False}


def gen_history(rnd: random.Random, n: int, installs: T.List[T.Dict[str, T.Any]], ids: T.List[str], shadow: bool,
                times: bool = True) -> T.List[T.Dict[str, T.Any]]:
    """A seeded walk over the operations; biased so that most histories install something first."""
    hist: T.List[T.Dict[str, T.Any]] = []
    touched = False
    for k in range(n):
        r = rnd.random()
        if k == 0 and r < 0.75:
            op = dict(rnd.choice([a for a in installs if not a['dry']]))
        elif r < 0.5:
            op = dict(rnd.choice(installs))
        elif r < 0.62 and hist and hist[-1]['op'] == 'install' and not hist[-1]['dry']:
            op = dict(hist[-1])          # reinstall with the same arguments
        elif r < 0.78:
            op = {'op': 'uninstall'}
        elif r < 0.88 and not touched and ids:
            op = {'op': 'touch', 'ids': sorted(rnd.sample(ids, rnd.randint(1, len(ids)))),
                  'how': rnd.choice(['newer', 'newer', 'sametime', 'bump']) if times else 'newer'}
            touched = True
        elif r < 0.91 and times and hist:
            op = {'op': 'age', 'k': rnd.randrange(1000)}
        elif r < 0.96:
            op = {'op': 'plant', 'k': rnd.randrange(1000), 'name': 'zz foreign %d' % k, 'shadow': shadow and rnd.random() < 0.7}
        else:
            op = dict(rnd.choice(installs))
        op.setdefault('op', 'install')
        hist.append(op)
        if op['op'] in ('touch', 'age') and rnd.random() < 0.8:
            hist.append({'op': 'install', 'tags': [], 'skip': [], 'dry': False, 'oc': True})
    return hist


def adapt_history(plan: T.List[T.Dict[str, T.Any]], hist: T.List[T.Dict[str, T.Any]], no_touch: bool) -> T.List[T.Dict[str, T.Any]]:
    """--only-changed decides about a link that is copied as a link by the time stamps of what the source link and the
    installed link resolve to at that moment (which depends on the order in which the files of one rule are copied):
    not modelled, so such plans are installed without --only-changed."""
    copied = any(e['t'] == 'link' and (it['fl'] == 'false' or e['r'] == 'none') for it in plan for e in it['st'])
    out = []
    for op in hist:
        if op['op'] == 'touch' and no_touch:
            continue
        if op['op'] == 'install' and copied and op['oc']:
            op = dict(op, oc=False)
        out.append(op)
    return out


def gen_env(rnd: random.Random, plan: T.List[T.Dict[str, T.Any]], rich: bool) -> T.Dict[str, T.Any]:
    has_target = any(it['kind'] == 'target' for it in plan)
    return {'backend': 'ninja' if has_target or rnd.random() < 0.15 else 'none',
            'destmode': rnd.choice(['opt', 'opt', 'env', 'both', 'rel']),
            'dname': rnd.choice(['stage', 'dest dir', 'de st/in ner', 'dést ü']) if rich else rnd.choice(['stage', 'dest dir']),
            'cwdmode': rnd.choice(['C', 'build']),
            'pre': rnd.choice(['absent', 'absent', 'dir', 'dir700']),
            'umask_in_project': rnd.random() < 0.3,
            'quiet': rnd.random() < 0.2,
            'no_rebuild': rnd.random() < 0.5,
            'srcown': [2, 2] if rich and ROOT and rnd.random() < 0.3 else None,
            'subprojects': []}


# ---------------------------------------------------------------------------
# (A) cases from the TLC model

def model_cases(model: T.Dict[str, T.Any], n: int, hist_len: int, seed: int) -> T.List[T.Dict[str, T.Any]]:
    catalog = {it['id']: it for it in model['catalog']}
    plans = sorted(sorted(p) for p in model['plans'])
    opts = sorted(model['opts'], key=lambda o: (o['umask'], o['eumask']))
    installs = [dict(a, op='install') for a in sorted(model['args'], key=lambda a: json.dumps(a, sort_keys=True))]
    rnd = random.Random(seed * 7919 + 11)
    # every plan of the model is used before any is used twice; larger plans first in a seeded order
    order = sorted(plans, key=lambda p: (-len(p), rnd.random()))
    cases = []
    for k in range(n):
        ids = order[k % len(order)]
        r = random.Random(seed * 1000003 + k * 7919 + 1)
        plan = [dict(catalog[i], idn=r.choice(['num', 'name'])) for i in ids]
        o = opts[(k // len(order) + k) % len(opts)]
        hist = adapt_history(plan, gen_history(r, hist_len, installs, [i for i in ids if catalog[i]['st']], False), False)
        env = gen_env(r, plan, False)
        premk = [it['id'] for it in plan if it['kind'] == 'emptydir' and it['mode'] >= 0 and r.random() < 0.35]
        if premk:
            env['premk'] = premk
            env['pre'] = 'dir' if env['pre'] == 'absent' else env['pre']
        cases.append({'id': f'A{k}', 'o': o, 'plan': plan, 'env': env, 'hist': hist})
    return cases


# ---------------------------------------------------------------------------
# (B) seeded random richer projects

STEMS = ['data', 'read me', 'Ünï cødé', '日本語', 'a-b_c', "it's", 'x y  z', 'tab\there', 'émoji 😀', '-dash', 'semi;colon', 'dollar$var',
         'q"uote', 'per%cent', '(paren)', 'comma,name', 'hash#tag', 'star*']
DIRNAMES = ['share', 'lib', 'data dir', 'ünï', 'etc', 'opt', 'v1.2', 'my app', 'x', 'nested', '目录']
TAGS = ['t1', 't2', 'devel', 'runtime', 'man', 'doc', 'i18n']
FILE_MODES = [0o644, 0o755, 0o600, 0o640, 0o750, 0o444, 0o664, 0o4755, 0o2755, 0o711]
SRC_MODES = [0o644, 0o644, 0o755, 0o600, 0o640, 0o750, 0o664, 0o700]
DIR_MODES = [0o755, 0o700, 0o770, 0o750, 0o1777, 0o775]
# the special bits: s / S in the user and group triplet, t / T (on a file: accepted and ignored)
SPECIAL_FILE_MODES = [0o4755, 0o2755, 0o6755, 0o4711, 0o2745, 0o4644, 0o6775, 0o2644, 0o1755, 0o5755, 0o4750, 0o6111, 0o1644]
SPECIAL_DIR_MODES = [0o1777, 0o4755, 0o1770, 0o5775, 0o1755]
SGID_DIR_MODES = [0o2775, 0o3777, 0o6755, 0o2750, 0o2700]      # only for directories nothing else is installed below
SRC_DIR_MODES = [0o755, 0o750, 0o700, 0o775]


class Gen:
    def __init__(self, rnd: random.Random, defect_names: str):
        self.rnd = rnd
        self.used: T.Set[str] = set()
        self.defect_names = defect_names      # '' | 'trailing-blank' | 'newline'
        self.n = 0

    def uniq(self, base: str) -> str:
        self.n += 1
        return f'{base}{self.n}'

    def stem(self) -> str:
        return self.uniq(self.rnd.choice(STEMS) + ' ') if self.rnd.random() < 0.7 else self.uniq('f')

    def fname(self, ext: T.Optional[str] = None, defect_ok: bool = False) -> T.Tuple[str, str]:
        """(name, ext): a unique file name; with a defect class the name may end in a blank / contain a newline."""
        if ext is None:
            ext = self.rnd.choice(['.dat', '.txt', '.h', '.conf', '', '.a', '.so', '.pc', '.bin'])
        name = self.stem() + ext
        if defect_ok and self.defect_names == 'trailing-blank' and self.rnd.random() < 0.6:
            name += self.rnd.choice([' ', ' ', '\u00a0', '\t'])
            ext = ''
        elif defect_ok and self.defect_names == 'newline' and self.rnd.random() < 0.6:
            name = name + '\n' + self.uniq('line')
            ext = ''
        return name, ext

    def dirpath(self, o: T.Dict[str, T.Any], allow_abs: bool = True) -> T.Dict[str, T.Any]:
        r = self.rnd.random()
        n = self.rnd.randint(0, 2)
        tail = [self.rnd.choice(DIRNAMES) for _ in range(n)]
        if r < 0.22 and allow_abs:
            return absd(self.rnd.choice(['etc', 'var', 'srv data', 'opt']), *tail)
        if r < 0.5:
            return rel(*(o['datadir'] + tail))
        if r < 0.6:
            return rel(*(o['bindir'] + tail))
        if r < 0.68:
            return rel(*(o['includedir'] + tail))
        if r < 0.74:
            return rel(*(o['localedir'] + ['de'] + tail))
        if r < 0.8:
            return rel('libexec', 'installed-tests', *tail)
        return rel(self.rnd.choice(DIRNAMES), *tail)


def gen_opts(rnd: random.Random) -> T.Dict[str, T.Any]:
    prefix = rnd.choice([['usr'], ['usr', 'local'], ['opt', 'my app'], ['prefix with  spaces', 'ü'], ['p']])
    custom = rnd.random() < 0.4
    o = {'prefix': prefix,
         'bindir': ['bin'], 'sbindir': ['sbin'], 'libdir': ['lib'] if not custom else ['lib64'],
         'includedir': ['include'] if not custom else ['inc lude'],
         'localedir': ['share', 'locale'], 'datadir': ['share'] if not custom else ['share', 'dd'],
         'mandir': ['share', 'man'] if not custom else ['man pages'],
         'proj': rnd.choice(['p', 'my proj', 'prøj-1']),
         'umask': rnd.choice([0o022, 0o022, 0o027, 0o077, 0o002, 0o007, -1, -1]),
         'eumask': rnd.choice([0o022, 0o077, 0o002, 0o027])}
    return o


def add_link_sources(rnd: random.Random, g: 'Gen', o: T.Dict[str, T.Any], plan: T.List[T.Dict[str, T.Any]], subs: T.List[str]) -> bool:
    """Sources that are symbolic links, with follow_symlinks false / true / default, in install_data, install_headers and
    install_subdir: relative to a sibling that is installed next to the link (with a declared mode of its own), or
    absolute to a file planted outside DESTDIR with mode 600/640.  Returns True when a link and its sibling are two rules
    (their sources must then be edited together, so such projects are not edited)."""
    if rnd.random() < 0.65:
        return False
    paired = False
    n = 0
    for _ in range(rnd.randint(1, 3)):
        n += 1
        fl = rnd.choice(['false', 'false', 'true', ''])
        r = rnd.random()
        trees = [it for it in plan if it['kind'] == 'subdir' and not it['fl']]
        if r < 0.35 and trees:
            it = rnd.choice(trees)
            it['fl'] = fl
            files = [e for e in it['st'] if e['t'] == 'file' and e['p'] not in it['exf']]
            for e in rnd.sample(files, min(len(files), rnd.randint(1, 2))):
                name, _ = g.fname('.lnk')
                it['st'].append(lnk(e['p'][:-1] + [name], e['p'][-1], 'file', e['m'], e['c']))
            if rnd.random() < 0.4:
                sec = g.uniq('secret ')
                name, _ = g.fname('.lnk')
                it['st'].append(lnk([name], '/outside dir/' + sec, 'fixed', rnd.choice([0o600, 0o640]), 'out:' + sec))
        elif r < 0.7:
            # two rules of the same kind, directory, tag and subproject: a file with a declared mode and a link to it
            kind = rnd.choice(['data', 'header'])
            sub = rnd.choice(subs) if subs and rnd.random() < 0.3 else ''
            d = g.dirpath(o)
            tag = rnd.choice(TAGS + [''])
            real, ext = g.fname('.h' if kind == 'header' else '.dat')
            link, _ = g.fname('.lnk')
            mode = rnd.choice([0o700, 0o600, 0o640, 0o755])
            srcm = rnd.choice(SRC_MODES)
            a = item(f'l{n}a', kind, sub, d, [real], ext=ext, mode=mode, tag=tag, st=[ent([], 'file', srcm, f'l{n}:f')])
            b = item(f'l{n}b', kind, sub, json.loads(json.dumps(d)), [link], ext='.lnk', tag=tag, fl=fl,
                     mode=rnd.choice([-1, -1, 0o644, 0o755, 0o4755]), st=[lnk([], real, 'file', srcm, f'l{n}:f')])
            if rnd.random() < 0.4:
                b['own'], b['grp'], b['idn'] = rnd.choice(OWNER_IDS), rnd.choice([-1] + GROUP_IDS), rnd.choice(['num', 'name'])
            pair = [a, b] if rnd.random() < 0.6 else [b, a]
            pos = rnd.randint(0, len(plan))
            plan[pos:pos] = pair
            paired = True
        else:
            kind = rnd.choice(['data', 'header'])
            sec = g.uniq('secret ')
            link, _ = g.fname('.lnk')
            kw: T.Dict[str, T.Any] = {}
            if rnd.random() < 0.5:
                kw['mode'] = rnd.choice([0o644, 0o755, 0o664])
            if rnd.random() < 0.5:
                kw['tag'] = rnd.choice(TAGS)
            if rnd.random() < 0.4:
                kw['grp'] = rnd.choice(GROUP_IDS)
                kw['own'] = rnd.choice([-1] + OWNER_IDS)
            plan.insert(rnd.randint(0, len(plan)),
                        item(f'l{n}x', kind, rnd.choice(subs) if subs and rnd.random() < 0.3 else '', g.dirpath(o), [link], ext='.lnk', fl=fl,
                             st=[lnk([], '/outside dir/' + sec, 'fixed', rnd.choice([0o600, 0o640]), 'out:' + sec)], **kw))
    return paired


def add_overlapping_emptydirs(rnd: random.Random, plan: T.List[T.Dict[str, T.Any]], subs: T.List[str]) -> T.List[str]:
    """install_emptydir rules with a declared mode on directories other rules install into, below or above
    (same directory as a file rule, top of a copied tree, parent of another emptydir declared earlier or later);
    returns the ids of those whose directory the harness creates below DESTDIR beforehand."""
    if rnd.random() < 0.4:
        return []
    cands: T.List[T.Dict[str, T.Any]] = []
    for it in plan:
        d = it['dir']
        if d['k'] == 'none' or not d['p']:
            continue
        if it['kind'] in ('data', 'header', 'man', 'target', 'symlink'):
            cands.append(d)
        elif it['kind'] == 'subdir':
            cands.append(d)
            if not it['strip']:
                cands.append({'k': d['k'], 'p': d['p'] + [it['src'][-1]]})
        elif it['kind'] == 'emptydir' and len(d['p']) > 1:
            cands.append({'k': d['k'], 'p': d['p'][:-1]})
    cands += [{'k': c['k'], 'p': c['p'][:-1]} for c in cands if len(c['p']) > 1 and rnd.random() < 0.3]
    taken = {(it['dir']['k'], tuple(it['dir']['p'])) for it in plan if it['kind'] == 'emptydir'}
    premk: T.List[str] = []
    rnd.shuffle(cands)
    for n, c in enumerate(cands[:rnd.randint(1, 3)]):
        key = (c['k'], tuple(c['p']))
        if key in taken:
            continue
        taken.add(key)
        kw: T.Dict[str, T.Any] = {'mode': rnd.choice(DIR_MODES + SPECIAL_DIR_MODES)}
        if rnd.random() < 0.4:
            kw['tag'] = rnd.choice(TAGS)
        if rnd.random() < 0.4:
            kw['own'], kw['grp'], kw['idn'] = rnd.choice([-1] + OWNER_IDS), rnd.choice(GROUP_IDS), rnd.choice(['num', 'name'])
        it = item(f'e{n}', 'emptydir', rnd.choice(subs) if subs and rnd.random() < 0.25 else '', {'k': c['k'], 'p': list(c['p'])}, [], **kw)
        plan.insert(rnd.randint(0, len(plan)), it)
        if rnd.random() < 0.3:
            premk.append(it['id'])
    for it in plan:
        if it['kind'] == 'emptydir' and it['mode'] >= 0 and it['id'] not in premk and rnd.random() < 0.1:
            premk.append(it['id'])
    return premk


def gen_project(seed: int, k: int, hist_len: int) -> T.Dict[str, T.Any]:
    rnd = random.Random(seed * 1000003 + k * 104729 + 2)
    # names containing a newline are known not to work (see probe_cases): they are exercised by a fixed probe so that every
    # other history stays clean; names ending in a blank are part of the random space
    defect = 'trailing-blank' if rnd.random() < 0.08 else ''
    g = Gen(rnd, defect)
    o = gen_opts(rnd)
    subs = rnd.choice([[], ['sp1'], ['sp1'], ['sp1', 'sp-2']])
    plan: T.List[T.Dict[str, T.Any]] = []
    nitems = rnd.randint(3, 9)
    kinds = ['data', 'data', 'header', 'man', 'subdir', 'subdir', 'emptydir', 'symlink', 'target']

    def owner_kw(p: float) -> T.Dict[str, T.Any]:
        """owner and / or group of install_mode (numeric or by name)."""
        kw: T.Dict[str, T.Any] = {}
        if rnd.random() < p:
            which = rnd.choice(['own', 'grp', 'both', 'both'])
            if which in ('own', 'both'):
                kw['own'] = rnd.choice(OWNER_IDS)
            if which in ('grp', 'both'):
                kw['grp'] = rnd.choice(GROUP_IDS)
            kw['idn'] = rnd.choice(['num', 'name'])
        return kw

    def common_kw(file_like: bool, leaf_dir: bool = False) -> T.Dict[str, T.Any]:
        kw: T.Dict[str, T.Any] = {}
        r = rnd.random()
        if r < 0.3:
            kw['mode'] = rnd.choice(FILE_MODES if file_like else DIR_MODES)
        elif r < 0.55:
            kw['mode'] = rnd.choice(SPECIAL_FILE_MODES if file_like else SPECIAL_DIR_MODES + (SGID_DIR_MODES if leaf_dir else []))
        kw.update(owner_kw(0.6 if 'mode' in kw and kw['mode'] & 0o7000 else 0.3))
        if rnd.random() < 0.55:
            kw['tag'] = rnd.choice(TAGS)
        return kw

    for n in range(nitems):
        kind = rnd.choice(kinds)
        sub = rnd.choice(subs) if subs and rnd.random() < 0.35 else ''
        iid = f'i{n}'
        cid = f'{iid}:'
        if kind == 'data':
            name, ext = g.fname()
            srcdirs = [rnd.choice(['d1', 'src files'])] if rnd.random() < 0.3 else []
            kw = common_kw(True)
            d = g.dirpath(o) if rnd.random() < 0.8 else dict(NONE_DIR)
            if rnd.random() < 0.3:
                rn, ext = g.fname(defect_ok=True)
                kw['rename'] = ([rnd.choice(DIRNAMES)] if rnd.random() < 0.4 else []) + [rn]
            elif srcdirs and rnd.random() < 0.6:
                kw['pp'] = True
            elif d['k'] != 'none' and rnd.random() < 0.35:
                kw['cf'] = True                  # configure_file(install: true, install_dir:, install_mode:)
            plan.append(item(iid, 'data', sub, d, srcdirs + [name], ext=ext, st=[ent([], 'file', rnd.choice(SRC_MODES), cid + 'f')], **kw))
        elif kind == 'header':
            name, ext = g.fname('.h')
            srcdirs = [rnd.choice(['inc', 'pub api'])] if rnd.random() < 0.4 else []
            kw = common_kw(True)
            r2 = rnd.random()
            d = dict(NONE_DIR)
            if r2 < 0.3:
                kw['hsub'] = [rnd.choice(DIRNAMES)]
            elif r2 < 0.55:
                d = g.dirpath(o)
            if srcdirs and rnd.random() < 0.5:
                kw['pp'] = True
            plan.append(item(iid, 'header', sub, d, srcdirs + [name], ext=ext, st=[ent([], 'file', rnd.choice(SRC_MODES), cid + 'f')], **kw))
        elif kind == 'man':
            stem = g.stem()
            sect = str(rnd.randint(1, 9))
            locale = rnd.choice(['', '', 'fr', 'pt_BR'])
            name = stem + ('.' + locale if locale else '') + '.' + sect
            kw = common_kw(True)
            d = g.dirpath(o) if rnd.random() < 0.25 else dict(NONE_DIR)
            plan.append(item(iid, 'man', sub, d, [name], stem=stem, locale=locale, sect=sect, ext='.' + sect,
                             st=[ent([], 'file', rnd.choice(SRC_MODES), cid + 'f')], **kw))
        elif kind == 'subdir':
            top = g.uniq(rnd.choice(['tree ', 'sub', 'dïr '])).strip()
            outer = [rnd.choice(['assets', 'res dir'])] if rnd.random() < 0.25 else []
            st: T.List[T.Dict[str, T.Any]] = []
            dirs: T.List[T.List[str]] = [[]]
            for _ in range(rnd.randint(0, 3)):
                parent = rnd.choice(dirs)
                dn = parent + [g.uniq(rnd.choice(['in', 'deep dir ', 'ü'])).strip() + '_' + iid]
                dirs.append(dn)
                st.append(ent(dn, 'dir', rnd.choice(SRC_DIR_MODES), ''))
            nfiles = rnd.randint(1, 5)
            for j in range(nfiles):
                parent = rnd.choice(dirs)
                fn, _ = g.fname(defect_ok=True)
                st.append(ent(parent + [fn], 'file', rnd.choice(SRC_MODES), cid + str(j)))
            files = [e for e in st if e['t'] == 'file']
            sdirs = [e for e in st if e['t'] == 'dir']
            kw = common_kw(True)
            if rnd.random() < 0.5 and len(files) > 1:
                kw['exf'] = [e['p'] for e in rnd.sample(files, rnd.randint(1, min(2, len(files) - 1)))]
                if rnd.random() < 0.3:
                    kw['exf'].append([files[0]['p'][-1] + '.nonexistent'])
            if rnd.random() < 0.5 and sdirs:
                kw['exd'] = [rnd.choice(sdirs)['p']]
            if rnd.random() < 0.35:
                kw['strip'] = True
            d = g.dirpath(o)
            if not d['p']:
                d = rel(*o['datadir'])
            plan.append(item(iid, 'subdir', sub, d, outer + [top], st=st, **kw))
        elif kind == 'emptydir':
            d = g.dirpath(o)
            d['p'] = d['p'] + [g.uniq('empty ')]
            plan.append(item(iid, 'emptydir', sub, d, [], **common_kw(False, leaf_dir=True)))
        elif kind == 'symlink':
            d = g.dirpath(o)
            if not d['p']:
                d = rel(*o['datadir'])
            name, ext = g.fname()
            kw = common_kw(True)
            for key in ('mode', 'own', 'grp', 'idn'):      # install_symlink takes no install_mode
                kw.pop(key, None)
            to = rnd.choice(['../target file', 'plain', '/abs/olute target', '../../ü/x', 'dangling →'])
            plan.append(item(iid, 'symlink', sub, d, [name], to=to, ext=ext, **kw))
        else:
            name, ext = g.fname(rnd.choice(['.bin', '.so', '.a', '.txt']))
            d = g.dirpath(o)
            if not d['p']:
                d = rel(*o['libdir'])
            plan.append(item(iid, 'target', sub, d, [name], ext=ext, st=[ent([], 'file', rnd.choice(SRC_MODES), cid + 'f')], **common_kw(True)))
    paired = add_link_sources(rnd, g, o, plan, subs)
    premk = add_overlapping_emptydirs(rnd, plan, subs)
    tags = sorted({it['tag'] for it in plan if it['tag']} | {'devel', 'man', 'runtime'})
    installs = [full_install(), full_install(),
                dict(full_install(), dry=True), dict(full_install(), oc=True),
                dict(full_install(), tags=sorted(rnd.sample(tags, rnd.randint(1, min(3, len(tags)))))),
                dict(full_install(), tags=[rnd.choice(tags)], dry=rnd.random() < 0.3),
                dict(full_install(), skip=['*'])]
    if subs:
        installs.append(dict(full_install(), skip=sorted(rnd.sample(subs, rnd.randint(1, len(subs))))))
        installs.append(dict(full_install(), skip=[subs[0]], tags=[rnd.choice(tags)], oc=rnd.random() < 0.5))
    ids = [it['id'] for it in plan if it['st']]
    env = gen_env(rnd, plan, True)
    env['subprojects'] = subs
    if premk:
        env['premk'] = premk
        if env['pre'] == 'absent':
            env['pre'] = 'dir'
    hist = adapt_history(plan, gen_history(rnd, hist_len, installs, ids, defect == 'trailing-blank'), paired)
    return {'id': f'B{k}', 'o': o, 'plan': plan, 'env': env, 'hist': hist}


# ---------------------------------------------------------------------------
# fixed probes for input classes with known deviations (deterministic, so that their signatures are stable)

def probe_cases() -> T.List[T.Dict[str, T.Any]]:
    o = {'prefix': ['usr'], 'bindir': ['bin'], 'sbindir': ['sbin'], 'libdir': ['lib'], 'includedir': ['include'],
         'localedir': ['share', 'locale'], 'datadir': ['share'], 'mandir': ['share', 'man'], 'proj': 'probe', 'umask': 0o022, 'eumask': 0o022}
    env = {'backend': 'none', 'destmode': 'opt', 'dname': 'stage', 'cwdmode': 'C', 'pre': 'absent', 'umask_in_project': False,
           'quiet': False, 'no_rebuild': True, 'subprojects': []}
    inst = full_install()
    blank = [item('b1', 'subdir', '', rel('share'), ['tree'], st=[ent(['ends in blank '], 'file', 0o644, 'b1:0'), ent(['ok'], 'file', 0o644, 'b1:1')]),
             item('b2', 'data', '', rel('share', 'x'), ['plain.dat'], rename=['renamed\u00a0'], st=[ent([], 'file', 0o644, 'b2:f')])]
    newline = [item('n1', 'data', '', rel('share', 'x'), ['plain.dat'], rename=['two\nlines'], st=[ent([], 'file', 0o644, 'n1:f')]),
               item('n2', 'data', '', rel('share', 'x'), ['other.dat'], ext='.dat', st=[ent([], 'file', 0o644, 'n2:f')])]
    hdr = [item('h1', 'header', '', rel('cust'), ['proj', 'kola.h'], pp=True, ext='.h', st=[ent([], 'file', 0o644, 'h1:f')]),
           item('h2', 'header', '', dict(NONE_DIR), ['proj', 'common.h'], pp=True, ext='.h', st=[ent([], 'file', 0o644, 'h2:f')])]
    allk = [item('k1', 'data', '', absd('etc', 'probe'), ['conf.dat'], mode=0o640, tag='t1', ext='.dat', st=[ent([], 'file', 0o644, 'k1:f')]),
            item('k2', 'header', 'sp1', dict(NONE_DIR), ['api.h'], hsub=['probe'], ext='.h', st=[ent([], 'file', 0o644, 'k2:f')]),
            item('k3', 'man', '', dict(NONE_DIR), ['tool.fr.1'], stem='tool', locale='fr', sect='1', ext='.1', st=[ent([], 'file', 0o644, 'k3:f')]),
            item('k4', 'subdir', '', rel('share'), ['tree'], exf=[['in', 'skip me']], exd=[['out']], tag='t1',
                 st=[ent(['run.sh'], 'file', 0o755, 'k4:0'), ent(['in'], 'dir', 0o755, ''), ent(['in', 'keep'], 'file', 0o600, 'k4:1'),
                     ent(['in', 'skip me'], 'file', 0o644, 'k4:2'), ent(['out'], 'dir', 0o755, ''), ent(['out', 'gone'], 'file', 0o644, 'k4:3')]),
            item('k5', 'emptydir', '', rel('var', 'probe spool'), [], mode=0o1777),
            item('k6', 'symlink', '', rel('share', 'tree'), ['link'], to='in/keep', tag='t1'),
            item('k7', 'target', '', rel('lib', 'probe'), ['gen.bin'], mode=0o755, ext='.bin', st=[ent([], 'file', 0o644, 'k7:f')])]
    o27 = dict(o, umask=0o027, eumask=0o077)
    envn = dict(env, backend='ninja', subprojects=['sp1'], destmode='both', dname='stage dir')
    oc = dict(inst, oc=True)
    edirs = [item('d1', 'header', '', rel('include', 'foo'), ['foo.h'], ext='.h', st=[ent([], 'file', 0o644, 'd1:f')]),
             item('d2', 'emptydir', '', rel('include', 'foo'), [], mode=0o750),               # a directory an earlier rule installs into
             item('d3', 'emptydir', '', rel('var', 'spool', 'in'), [], mode=0o770),           # child declared before its parent
             item('d4', 'emptydir', '', rel('var', 'spool'), [], mode=0o700),
             item('d5', 'emptydir', '', absd('srv', 'pre'), [], mode=0o751),                  # exists below DESTDIR beforehand
             item('d6', 'subdir', '', rel('share'), ['tree'], st=[ent(['f'], 'file', 0o644, 'd6:0'), ent(['in'], 'dir', 0o755, ''), ent(['in', 'g'], 'file', 0o644, 'd6:1')]),
             item('d7', 'emptydir', '', rel('share', 'tree'), [], mode=0o1775),               # top of a copied tree
             item('d8', 'data', 'sp1', rel('share', 'tree'), ['extra.dat'], ext='.dat', st=[ent([], 'file', 0o644, 'd8:f')])]
    links = [item('s1', 'data', '', rel('share', 'x'), ['real.dat'], mode=0o700, ext='.dat', st=[ent([], 'file', 0o644, 's1:f')]),
             item('s2', 'data', '', rel('share', 'x'), ['rel.lnk'], fl='false', ext='.lnk', st=[lnk([], 'real.dat', 'file', 0o644, 's1:f')]),
             item('s3', 'header', '', rel('inc'), ['abs.lnk'], fl='false', mode=0o644, ext='.lnk',
                  st=[lnk([], '/outside dir/secret key', 'fixed', 0o600, 'out:key')]),
             item('s4', 'header', '', rel('inc'), ['copy.lnk'], fl='true', ext='.lnk',
                  st=[lnk([], '/outside dir/other key', 'fixed', 0o640, 'out:other')]),
             item('s5', 'subdir', '', rel('share'), ['tree'], fl='false',
                  st=[ent(['f'], 'file', 0o600, 's5:0'), lnk(['lnk'], 'f', 'file', 0o600, 's5:0'),
                      lnk(['out.lnk'], '/outside dir/third key', 'fixed', 0o640, 'out:third')]),
             item('s6', 'data', '', dict(NONE_DIR), ['dflt.lnk'], ext='.lnk', st=[lnk([], 'real.dat', 'file', 0o644, 's1:f')])]
    # the full install_mode (special bits, owner, group; by number and by name) for every kind of rule that takes one
    modes = [item('m1', 'data', '', rel('libexec'), ['suid tool'], mode=0o4755, own=1, grp=1, st=[ent([], 'file', 0o755, 'm1:f')]),
             item('m2', 'header', '', dict(NONE_DIR), ['sgid.h'], mode=0o2755, grp=2, idn='name', ext='.h', st=[ent([], 'file', 0o644, 'm2:f')]),
             item('m3', 'man', 'sp1', dict(NONE_DIR), ['both.7'], stem='both', sect='7', ext='.7', mode=0o6755, own=65534, idn='name',
                  st=[ent([], 'file', 0o644, 'm3:f')]),
             item('m4', 'subdir', '', rel('libexec'), ['tree'], mode=0o4750, own=1, grp=2, idn='name', fl='false',
                  st=[ent(['run'], 'file', 0o755, 'm4:0'), ent(['in'], 'dir', 0o750, ''), ent(['in', 'deep'], 'file', 0o600, 'm4:1'),
                      lnk(['run.lnk'], 'run', 'file', 0o755, 'm4:0')]),
             item('m5', 'emptydir', '', rel('var', 'shared spool'), [], mode=0o3775, own=1, grp=2),
             item('m6', 'emptydir', '', absd('srv', 'owned'), [], own=2, idn='name'),
             item('m7', 'target', '', rel('lib', 'probe'), ['gen tool.bin'], mode=0o4750, own=0, grp=2, ext='.bin', st=[ent([], 'file', 0o644, 'm7:f')]),
             item('m8', 'data', '', rel('libexec'), ['configured'], cf=True, mode=0o2755, own=4242, grp=4242, st=[ent([], 'file', 0o644, 'm8:f')]),
             item('m9', 'data', '', rel('libexec'), ['sticky'], mode=0o1755, grp=1, st=[ent([], 'file', 0o644, 'm9:f')]),
             item('m10', 'data', '', absd('etc', 'probe'), ['lock'], mode=0o2644, own=1, grp=1, idn='name', st=[ent([], 'file', 0o644, 'm10:f')]),
             item('m11', 'data', '', rel('libexec'), ['plain suid'], mode=0o4711, st=[ent([], 'file', 0o644, 'm11:f')]),
             item('m12', 'data', 'sp1', rel('libexec'), ['group only'], grp=65534, idn='name', st=[ent([], 'file', 0o755, 'm12:f')])]
    modes_nolink = [it for it in json.loads(json.dumps(modes))]
    modes_nolink[3]['st'] = modes_nolink[3]['st'][:3]
    modes_nolink[3]['fl'] = ''
    # ids are numbers - any number: 1 (daemon) written as a number, next to 0 and 2
    idone = [item('u0', 'data', '', rel('libexec'), ['zero'], mode=0o640, own=0, grp=0, st=[ent([], 'file', 0o644, 'u0:f')]),
             item('u1', 'data', '', rel('libexec'), ['one'], mode=0o640, own=1, grp=1, idn='num!', st=[ent([], 'file', 0o644, 'u1:f')]),
             item('u2', 'data', '', rel('libexec'), ['two'], mode=0o640, own=2, grp=2, st=[ent([], 'file', 0o644, 'u2:f')])]
    return [
        {'id': 'P-numeric-id-one', 'o': o, 'plan': idone, 'env': dict(env, accept_probe=True), 'hist': [inst, {'op': 'uninstall'}]},
        {'id': 'P-mode-owner', 'o': o27, 'plan': modes, 'env': dict(envn, srcown=[2, 2]),
         'hist': [dict(inst, dry=True), inst, inst, {'op': 'uninstall'}, dict(inst, tags=['devel', 'man']), inst, {'op': 'uninstall'}]},
        {'id': 'P-mode-owner-changed', 'o': dict(o, umask=-1), 'plan': modes_nolink, 'env': dict(envn, destmode='env'),
         'hist': [inst, {'op': 'touch', 'ids': ['m1', 'm4', 'm7', 'm8']}, oc, oc, dict(inst, skip=['sp1']), {'op': 'uninstall'}]},
        # --only-changed goes by time stamps: new content under the old stamp stays, old content under a newer stamp and
        # installed files that were given an old stamp are overwritten (and logged)
        {'id': 'P-only-changed-sametime', 'o': o27, 'plan': allk, 'env': envn,
         'hist': [inst, {'op': 'touch', 'ids': ['k1', 'k3', 'k4', 'k7'], 'how': 'sametime'}, oc, {'op': 'age', 'k': 1}, oc,
                  {'op': 'age', 'k': 3}, dict(oc, tags=['t1']), inst, {'op': 'uninstall'}]},
        {'id': 'P-only-changed-bump', 'o': o, 'plan': allk, 'env': dict(envn, destmode='env'),
         'hist': [inst, oc, {'op': 'touch', 'ids': ['k2', 'k4', 'k7'], 'how': 'bump'}, dict(oc, dry=True), oc, oc, {'op': 'uninstall'}]},
        {'id': 'P-link-sources', 'o': o27, 'plan': links, 'env': env,
         'hist': [inst, inst, {'op': 'uninstall'}, dict(inst, dry=True), inst, {'op': 'uninstall'}]},
        {'id': 'P-emptydir-overlap', 'o': o27, 'plan': edirs, 'env': dict(env, subprojects=['sp1'], pre='dir', premk=['d5']),
         'hist': [dict(inst, tags=['devel']), inst, inst, {'op': 'uninstall'}, inst, {'op': 'uninstall'}]},
        {'id': 'P-foreign', 'o': o27, 'plan': allk, 'env': envn,
         'hist': [inst, {'op': 'plant', 'k': 7, 'name': 'zz foreign', 'shadow': False}, {'op': 'uninstall'}]},
        {'id': 'P-cycle', 'o': o27, 'plan': allk, 'env': dict(envn, destmode='rel', pre='dir700'),
         'hist': [dict(inst, dry=True), dict(inst, tags=['t1', 'man']), dict(inst, skip=['*']), inst, inst,
                  {'op': 'touch', 'ids': ['k1', 'k4']}, oc, {'op': 'uninstall'}, dict(inst, dry=True), {'op': 'uninstall'}]},
        {'id': 'P-blank', 'o': o, 'plan': blank, 'env': env, 'hist': [inst, {'op': 'uninstall'}]},
        {'id': 'P-blank-shadow', 'o': o, 'plan': blank[:1], 'env': env,
         'hist': [inst, {'op': 'plant', 'k': 0, 'name': 'zz', 'shadow': True}, {'op': 'uninstall'}]},
        {'id': 'P-newline', 'o': o, 'plan': newline, 'env': env, 'hist': [inst, {'op': 'uninstall'}]},
        {'id': 'P-header-pp', 'o': o, 'plan': hdr, 'env': env, 'hist': [inst, {'op': 'uninstall'}]},
    ]


# ---------------------------------------------------------------------------
# judging

TRACE_KEYS = ('id', 'o', 'plan', 'setuprc', 't0', 'out0', 'ev', 'intro', 'checkintro')


def judge(chk: Check, traces: T.List[T.Dict[str, T.Any]], cases: T.Dict[str, T.Dict[str, T.Any]], label: str) -> None:
    if not traces:
        return
    by_id = {t['id']: t for t in traces}
    with scratch('c11j-') as d:
        tf = d / 'cases.json'
        tf.write_text(json.dumps([{k: t[k] for k in TRACE_KEYS} for t in traces]))
        env = {'TRACE_FILE': str(tf)}
        res = run_tlc(SPECS / 'install', 'TraceInstall', env=env, timeout=3000)
        if not res.clean:
            raise MachineryError('TraceInstall did not complete cleanly:\n' + res.stdout[-2500:])
        if res.distinct != 2 * len(traces):
            raise MachineryError(f'TraceInstall judged {res.distinct // 2} of {len(traces)} cases')
        bad = res.json_lines()
        if bad:
            res1 = run_tlc(SPECS / 'install', 'TraceInstall', env=env, timeout=3000, workers=1)
            bad = res1.json_lines()
    chk.add_tlc(f'TraceInstall[{label}]', res, model=False)
    chk.traces += len(traces)
    for v in bad:
        t = by_id[v['id']]
        for f in v['fails']:
            if f['clause'].startswith('env:'):
                raise MachineryError(f'environment model disagreement in {v["id"]}: {json.dumps(f)[:1500]}\n'
                                     + json.dumps(cases.get(v['id'], {}).get('hist'))[:800])
            sig = signature(t, f)
            k = f['step']
            chk.violation(sig, {'verdict': f, 'case': cases.get(v['id']),
                                'step_event': ({kk: vv for kk, vv in t['ev'][k - 1].items() if kk not in ('out',)} if k >= 1 else None),
                                'tree_before': (t['ev'][k - 2]['tree'] if k >= 2 else t['t0']) if k >= 1 else None,
                                'commands': t.get('_cmds'), 'build_files': t.get('_build_files')})


def item_features(it: T.Dict[str, T.Any]) -> str:
    fs = [it['kind'], {'abs': 'absdir', 'rel': 'reldir', 'none': 'defaultdir'}[it['dir']['k']]]
    for k in ('pp', 'strip'):
        if it[k]:
            fs.append(k)
    for k in ('rename', 'hsub', 'locale', 'exf', 'exd'):
        if it[k]:
            fs.append(k)
    if it['sub']:
        fs.append('subproject')
    if it.get('cf'):
        fs.append('configure_file')
    if it['mode'] >= 0 and it['mode'] & 0o7000:
        fs.append('specialbits')
    if it['own'] >= 0 or it['grp'] >= 0:
        fs.append('owner')
    if any(e['t'] == 'link' for e in it['st']):
        fs.append('linksrc' + ('=' + it['fl'] if it['fl'] else ''))
    return '+'.join(fs)


def signature(t: T.Dict[str, T.Any], f: T.Dict[str, T.Any]) -> str:
    """clause @ operation : normalised description of what differs (node types, name classes, owning rule shape)."""
    clause = f['clause']
    k = f['step']
    op = t['ev'][k - 1]['op'] if k >= 1 else 'setup'
    planted = {tuple(p) for p in t.get('_planted', [])}
    if clause == 'Confined':
        areas = sorted({('-' if s in f['missing'] else '+') + s.split('|', 1)[0].split('/', 1)[0] for s in f['missing'] + f['extra']})
        return f'{clause}@{op}:' + ','.join(areas)
    if clause == 'DefinitionAccepted':
        what = sorted({'install_mode[numeric-id-1]' if it.get('idn') == 'num!' and 1 in (it['own'], it['grp']) else item_features(it)
                       for it in t['plan']})
        return f'{clause}@setup:' + ';'.join(what)
    if clause == 'PlanDescribes':
        want = sorted('-' + e['kind'] for e in f['missing'])
        got = sorted('+' + e['kind'] for e in f['extra'])
        byid = {it['id']: it for it in t['plan']}
        feats0 = sorted({item_features(byid[x['id']]) for x in f.get('owners', [])})
        return f'{clause}@setup:' + ','.join(want + got) + ('[' + ';'.join(feats0) + ']' if feats0 else '')
    before = {tuple(e['p']): e for e in (t['ev'][k - 2]['tree'] if k >= 2 else t['t0'])} if k >= 1 else {}
    after = {tuple(e['p']): e for e in t['ev'][k - 1]['tree']} if k >= 1 else {}
    by_id = {it['id']: it for it in t['plan']}
    owners = {tuple(x['p']): x['id'] for x in f.get('owners', [])}

    def cls(p: T.List[str]) -> str:
        if tuple(p) in planted:
            return 'foreign'
        if any(name_class(c) == 'newline' for c in p):
            return 'newline'
        return name_class(p[-1]) if p else 'plain'

    def typ(p: T.List[str]) -> str:
        e = after.get(tuple(p)) or before.get(tuple(p))
        return e['t'] if e else 'none'

    parts: T.Set[str] = set()
    feats: T.Set[str] = set()
    extra = [p for p in f['extra']]
    missing = [p for p in f['missing']]
    if clause in ('Exact', 'DryRunNoop', 'UninstallRemovesExactlyLog', 'Idempotent'):
        # a directory that is there only because something unexpected is (still) in it is a consequence, not a finding
        others = [tuple(p) for p in extra] + [tuple(c['p']) for c in f['changed']]
        extra = [p for p in extra if not (typ(p) == 'dir' and any(len(q) > len(p) and q[:len(p)] == tuple(p) for q in others))]
    for p in missing:
        parts.add(f'-{typ(p)}/{cls(p)}')
        if tuple(p) in owners:
            feats.add(item_features(by_id[owners[tuple(p)]]))
    for p in extra:
        parts.add(f'+{typ(p)}/{cls(p)}')
    for c in f['changed']:
        if isinstance(c, dict) and 'want' in c:
            what = ''.join(a for a in ('t', 'm', 'u', 'g', 'l', 'c') if c['want'][a] != c['got'][a])
            parts.add(f'~{c["want"]["t"]}.{what}/{cls(c["p"])}')
            if tuple(c['p']) in owners:
                feats.add(item_features(by_id[owners[tuple(c['p'])]]))
        else:
            parts.add('outside-line')
    sig = f'{clause}@{op}:' + ','.join(sorted(parts))
    if feats:
        sig += '[' + ';'.join(sorted(feats)) + ']'
    return sig


def account(chk: Check, traces: T.List[T.Dict[str, T.Any]], cases: T.Dict[str, T.Dict[str, T.Any]]) -> None:
    for t in traces:
        chk.evaluations += len(t['ev'])
        ops = [e['op'] for e in t['ev']]
        created = any(e['op'] == 'install' and not e['dry'] and any(x['t'] == 'file' for x in e['tree']) for e in t['ev'])
        varied = any(e['op'] == 'uninstall' for e in t['ev']) or any(e['op'] == 'install' and (e['dry'] or e['oc'] or e['tags'] or e['skip']) for e in t['ev'])
        if created and varied:
            c = cases[t['id']]
            chk.nontriv(hashlib.sha1(json.dumps([c['plan'], c['o'], c['hist']], sort_keys=True).encode()).hexdigest())
        if t is traces[0] or t is traces[-1]:
            chk.sample({'id': t['id'], 'ops': ops, 'build_files': t.get('_build_files'),
                        'commands': [' '.join(c['cmd'][2:]) for c in t.get('_cmds', [])][:8],
                        'tree_after_first_step': [('/'.join(e['p']), e['t'], oct(e['m']), e['l'], e['c']) for e in (t['ev'][0]['tree'] if t['ev'] else [])][:25],
                        'log_after_first_step': [('/'.join(e['p'])) for e in (t['ev'][0]['log'] if t['ev'] else [])][:25]}, limit=6)


def run_batch(chk: Check, ex: ProcessPoolExecutor, cases: T.List[T.Dict[str, T.Any]], label: str, chunk: int = 160) -> None:
    cmap = {c['id']: c for c in cases}
    pending: T.List[T.Dict[str, T.Any]] = []
    part = 0
    for tr in ex.map(_worker, cases):
        if '_machinery' in tr:
            raise MachineryError(f'case {tr["id"]}: {tr["_machinery"]}\ncase: {json.dumps(cmap[tr["id"]])[:3000]}')
        pending.append(tr)
        if len(pending) >= chunk:
            account(chk, pending, cmap)
            judge(chk, pending, cmap, f'{label}#{part}')
            part += 1
            pending = []
    if pending:
        account(chk, pending, cmap)
        judge(chk, pending, cmap, f'{label}#{part}')


def main(chk: Check) -> None:
    quick = chk.tier == 'quick'
    mc_runs = [(2, 'small', 'two', 'one')] if quick else [(2, 'full', 'four', 'one'), (2, 'small', 'four', 'all'), (3, 'small', 'two', 'one')]
    n_a = 36 if quick else 360
    n_b = 36 if quick else 420
    scale = float(os.environ.get('VERIF_C11_SCALE', '1'))     # development knob: fewer/more histories, same everything else
    n_a, n_b = max(4, int(n_a * scale)), max(4, int(n_b * scale))
    len_a = 5 if quick else 6
    len_b = 6 if quick else 8
    chk.rule = ('A: plans (conflict-free subsets of the rule catalog), option sets and install argument sets exported by the TLC '
                'model, each rendered to a real project and driven through a seeded history over the model operations; B: seeded '
                'random projects of 3-9 install rules with rich names/modes/tags/subprojects/prefixes and longer histories. One '
                'evaluation = one judged step (command or harness action).  Non-trivial = distinct (plan, options, history) in '
                'which a real install created at least one file and the history also contains an uninstall or a restricted / '
                'dry-run / only-changed install.')
    # the input space of the model(s) is exported first (same module and constants, no exploration) so that the
    # replay through the real commands can run while TLC explores
    model: T.Dict[str, T.Any] = {'catalog': {}, 'plans': set(), 'opts': {}, 'args': {}}
    for mp, cat, on, tn in mc_runs:
        cfg = (MC_CFG % (mp, cat, on, tn)).replace('SPECIFICATION Spec', 'INIT Init\nNEXT NoNext')
        res = run_tlc(SPECS / 'install', 'Install_MC', cfg_text=cfg, collect=['install_model.json'], timeout=1200,
                      allow_violation=False, workers=2)
        m = json.loads(res.collected['install_model.json'])
        for it in m['catalog']:
            model['catalog'][it['id']] = it
        model['plans'] |= {tuple(sorted(p)) for p in m['plans']}
        for o in m['opts']:
            model['opts'][json.dumps(o, sort_keys=True)] = o
        for a in m['args']:
            model['args'][json.dumps(a, sort_keys=True)] = a
    model = {'catalog': list(model['catalog'].values()), 'plans': [list(p) for p in sorted(model['plans'])],
             'opts': list(model['opts'].values()), 'args': list(model['args'].values())}
    chk.extra['model'] = {'catalog_rules': len(model['catalog']), 'plans': len(model['plans']),
                          'option_sets': len(model['opts']), 'install_argument_sets': len(model['args']),
                          'runs': [f'MaxPlan={mp},catalog={cat},opts={on},times={tn}' for mp, cat, on, tn in mc_runs]}
    results: T.Dict[str, T.Any] = {}

    def mc() -> None:
        try:
            out = []
            for mp, cat, on, tn in mc_runs:
                out.append(((mp, cat, on, tn), run_tlc(SPECS / 'install', 'Install_MC', cfg_text=MC_CFG % (mp, cat, on, tn),
                                                   timeout=5400, allow_violation=False, workers=max(2, common.NCPU // 3))))
            results['mc'] = out
        except BaseException as e:  # noqa: BLE001
            results['err'] = e

    th = threading.Thread(target=mc)
    th.start()
    try:
        with ProcessPoolExecutor(max_workers=common.NCPU) as ex:
            run_batch(chk, ex, probe_cases(), 'probes')
            run_batch(chk, ex, model_cases(model, n_a, len_a, chk.seed), 'A')
            run_batch(chk, ex, [gen_project(chk.seed, k, len_b) for k in range(n_b)], 'B')
    finally:
        th.join()
    if 'err' in results:
        raise results['err']
    for (mp, cat, on, tn), res in results['mc']:
        chk.add_tlc(f'Install_MC[MaxPlan={mp},catalog={cat},opts={on},times={tn}]', res)
    chk.exhaustive = False
    chk.extra['histories'] = {'A_model_plans': n_a, 'B_random_projects': n_b}
    chk.assumptions += [
        ('run as root: install_mode owners / groups are 0, 1, 2, 65534 (by number or by name) and 4242 (no name); root ignores '
         'permission denials, so directories without owner write/search permission are not generated'
         if ROOT else
         'not run as root: the only owner / group a rule declares are the ids of the process itself (chown to them is allowed '
         'and still clears the set-id bits of a file); giving files away and EPERM handling are not exercised'),
        'names of owners / groups that do not exist ("ignoring..." message) and numeric ids written as strings are not generated',
        'nothing else is installed below an install_emptydir whose declared mode has the set-group-ID bit (entries made in such '
        'a directory inherit its group, so the outcome would depend on the undocumented order of the rules); sources carry no '
        'special bits; DESTDIR is not below a set-group-ID directory',
        'configure_file(install: true) is exercised in copy mode with one input (the installed file is its output in the build '
        'directory, re-stamped by the harness after setup so that --only-changed compares known time stamps)',
        'the target system root is virtualised: the prefix and absolute install dirs live below <work>/r so that a destination '
        'that is not re-rooted lands in the watched sentinel area instead of the real /usr or /etc',
        '"outside" = everything below the work directory (source dir, build dir except meson-logs/install-log.txt, HOME, cwd, '
        'the real prefix location, the decoy DESTDIR of the environment) - not the whole machine',
        'plans are conflict-free (no two rules install the same path; directories copied/forced by two rules agree): the '
        'documentation does not order the rules',
        'symbolic links as sources only to regular files (a sibling installed next to the link, or a file planted outside DESTDIR); '
        'plans that copy links as links are installed without --only-changed; no links to directories; no install scripts, no strip/rpath editing, no built targets '
        'other than one custom_target output written by the harness (there is no ninja)',
        'untagged rules are not placed below libdir with suffixes other than .a/.pc/.so/.dll together with installed-tests/systemtap '
        'path components (the documented tag guesses would overlap)',
        'install_headers is not given both install_dir and subdir; install_data not both rename and preserve_path',
        '--only-changed: time stamps are whole seconds set by the harness (sources: T0, changed ones T0+5000 or - new content - '
        'still T0; an installed file aged by the harness: T0-5000); the time an installed file gets is observed, not judged',
        'names ending in a blank are only generated as final components of renamed data files and of files inside '
        'install_subdir trees (meson itself rejects source names ending in a space); names containing a newline only in a fixed probe',
    ]


def replay(chk: Check, data: T.Dict[str, T.Any]) -> None:
    case = data['detail'].get('case')
    if not case:
        raise MachineryError('replay file has no recorded case')
    tr = run_case(case)
    judge(chk, [tr], {case['id']: case}, 'replay')


if __name__ == '__main__':
    sys.exit(common.run_check(main, PROP, replay=replay))
