"""C12 - `meson test` runs each test once, isolates serial tests and reports truthfully.

1. TLC model-checks specs/mtest/TestSched_MC (every interleaving of the main loop and the runner
   tasks of every small instance: AtMostOnce, ExactlyOnceWhenNotCut, SerialAlone, JobBound,
   TalliesEqualClassification, ExitNonZeroIffBad, ...) and TestSelect_MC (suite selection laws,
   SlicesPartition).
2. (B) code -> spec: real `meson test` CLI runs on generated `--backend=none` projects whose tests
   are one script that logs its own start/end to an O_APPEND file; the order of that file, the
   order and content of meson-logs/testlog.json, the printed totals and the exit status form one
   trace, accepted iff TraceTestSched (TLC) finds a behaviour of TestSched compatible with it.
   `meson test --list` outputs are judged by TraceTestSelect.
   The same real scheduling coroutine is also driven in-process under a virtual-time event loop
   with fake subprocesses (harness/mtest_vloop.py) for thousands of exact schedules.
3. (A) spec -> code: `tlc -simulate` produces schedules of TestSched for seeded instances; the
   duration pattern of each schedule is replayed through the real code (virtual loop and CLI) and
   the resulting traces are judged like (B).
"""
from __future__ import annotations

import argparse
import contextlib
import copy
import io
import json
import os
import pickle
import random
import re
import shutil
import subprocess
import sys
import tempfile
import time
import typing as T
from concurrent.futures import ProcessPoolExecutor, ThreadPoolExecutor
from pathlib import Path

from . import common
from .common import Check, MachineryError, SPECS, run_tlc, scratch

PROP = 'C12'
FAM = SPECS / 'mtest'

HANG_MS = 8000          # a test that is meant to exceed its limit sleeps this long (it is killed long before)
TALLY_KEYS = {'Ok': 'ok', 'Expected Fail': 'xfail', 'Fail': 'fail', 'Unexpected Pass': 'upass',
              'Skipped': 'skip', 'Timeout': 'timeout'}

TEST_SCRIPT = r'''
import json, os, signal, sys, time
name = sys.argv[1][4:]
it = os.environ.get('MESON_TEST_ITERATION', '1')
fd = os.open(os.environ['C12_LOG'], os.O_WRONLY | os.O_APPEND | os.O_CREAT, 0o644)
state = {'ended': False}
def w(k):
    os.write(fd, ('%s %s %s %d\n' % (k, name, it, time.monotonic_ns())).encode())
def term(sig, frm):
    if not state['ended']:
        state['ended'] = True
        w('K')
    os._exit(143)
signal.signal(signal.SIGTERM, term)
w('S')
with open(os.environ['C12_PLAN']) as f:
    dur, code = json.load(f)[name][it]
time.sleep(dur / 1000.0)
state['ended'] = True
w('E')
if code < 0:
    os.kill(os.getpid(), -code)
    time.sleep(5)
os._exit(code)
'''


# ---------------------------------------------------------------------------
# generation of abstract test sets, selections and run options

NAME_POOL = ['alpha', 'alpine', 'al', 'beta', 'bet', 'betamax', 'gamma', 'delta', 't0', 't1', 't10']


def gen_tests(rnd: random.Random, n: int) -> T.List[T.Dict[str, T.Any]]:
    tests = []
    names = rnd.sample(NAME_POOL, n)
    for i in range(n):
        tests.append({
            'name': names[i],
            'par': rnd.random() < 0.65,
            'prio': rnd.choice([0, 0, 0, 0, 5, -3, 10, 5]),
            'sf': rnd.random() < 0.25,
            'sfkw': rnd.choice(['should_fail', 'expected_fail']),
            # declared timeout: None = not given (30 s), 1 = a limit that --timeout-multiplier makes short,
            # 0 / -2 = no limit
            'decl': rnd.choice([None, None, 300, 300, 1, 1, 0, -2]),
            'suites': sorted(rnd.sample(['a', 'b', 'c'], rnd.choice([0, 1, 1, 2]))),
        })
    return tests


def sel(a: str, b: str, colon: bool) -> T.Dict[str, T.Any]:
    return {'a': a, 'b': b, 'colon': colon}


def sel_text(s: T.Dict[str, T.Any]) -> str:
    return s['a'] + (':' + s['b'] if s['colon'] else '')


def gen_selector(rnd: random.Random) -> T.Dict[str, T.Any]:
    x = rnd.choice(['a', 'b', 'c'])
    return rnd.choice([sel(x, '', False), sel(x, '', False), sel('p', x, True), sel('', x, True),
                       sel('p', '', False), sel('p', '', True), sel('zz', '', False), sel('zz', x, True)])


def gen_name_args(rnd: random.Random, names: T.List[str], unmatched: bool) -> T.List[str]:
    """Positional test-name arguments: plain names, globs, `p:` / `p:name` forms; overlapping on purpose
    (a name next to a pattern that matches it, the same name twice); optionally arguments matching nothing."""
    def one() -> str:
        nm = rnd.choice(names) if names else 'alpha'
        k = rnd.randrange(11)
        if k <= 2:
            return nm
        if k == 3:
            return nm[:rnd.randint(1, len(nm))] + '*'
        if k == 4:
            return rnd.choice(['a*', 'b*', 't*', 'al*', 'bet*', '*a', '*', '?????', 't?', '*l*'])
        if k == 5:
            return 'p:' + nm
        if k == 6:
            return rnd.choice(['p:', 'p*:', '*:' + nm, 'p:' + nm[:1] + '*', '?:' + nm])
        if k == 7:
            return nm[:-1] + '?'
        if k == 8 and unmatched:
            return rnd.choice(['zz', 'q:', 'q:' + nm, 'zz*', nm + 'x', 'p:zz'])
        return nm
    args = [one() for _ in range(rnd.choice([1, 1, 2, 2, 3]))]
    r = rnd.random()
    if r < 0.25:
        args.append(args[0])                                   # the same argument twice
    elif r < 0.5 and names:
        nm = rnd.choice(names)
        args += [nm, nm[:rnd.randint(1, len(nm))] + '*']        # a name and a pattern matching it
    rnd.shuffle(args)
    return args


def gen_selection(rnd: random.Random, names: T.Optional[T.List[str]] = None, unmatched: bool = False,
                  p_args: float = 0.45) -> T.Dict[str, T.Any]:
    inc = [gen_selector(rnd) for _ in range(rnd.choice([0, 0, 1, 1, 2]))]
    exc = [gen_selector(rnd) for _ in range(rnd.choice([0, 0, 0, 1]))]
    args: T.List[str] = []
    if names is not None and rnd.random() < p_args:
        args = gen_name_args(rnd, names, unmatched)
        if rnd.random() < 0.6:
            inc, exc = [], []
    return {'inc': inc, 'exc': exc, 'slice': None, 'args': args}


def query_of(s: T.Dict[str, T.Any], n: int, out: T.List[T.List[str]]) -> T.Dict[str, T.Any]:
    return {'inc': s['inc'], 'exc': s['exc'], 'args': [list(a) for a in s.get('args', [])], 'n': n, 'out': out}


def defs_of(tests: T.List[T.Dict[str, T.Any]]) -> T.List[T.Dict[str, T.Any]]:
    return [{'name': t['name'], 'prj': 'p', 'prio': t['prio'], 'suites': t['suites'], 'nc': list(t['name']), 'pc': ['p']}
            for t in tests]


NONE_SEL: T.Dict[str, T.Any] = {'inc': [], 'exc': [], 'slice': None, 'args': []}


def selection_args(s: T.Dict[str, T.Any]) -> T.List[str]:
    out: T.List[str] = []
    for x in s['inc']:
        out += ['--suite', sel_text(x)]
    for x in s['exc']:
        out += ['--no-suite', sel_text(x)]
    if s.get('slice'):
        out += ['--slice', '%d/%d' % tuple(s['slice'])]
    out += list(s.get('args', []))
    return out


def plan_limit_ms(decl: T.Optional[int], mult: int) -> int:
    """Only used to *choose durations* far away from the limit; the verdict on whether a run times out is
    TestSched!TimesOut/LimitMs, and TraceTestSched refuses inputs whose duration is near the limit."""
    d = 30 if decl is None else decl
    if d <= 0:
        return -1
    if mult == -1:
        return d * 1000
    if mult <= 0:
        return -1
    return d * mult


EXITS = [0] * 10 + [1] * 4 + [77] * 2 + [99] * 2 + [2, 3, 255, -9, -10]


def gen_plan(rnd: random.Random, tests: T.List[T.Dict[str, T.Any]], reps: int, mult: int,
             durs: T.Optional[T.Dict[T.Tuple[str, int], int]] = None,
             exits: T.Optional[T.Dict[T.Tuple[str, int], int]] = None) -> T.Dict[str, T.Dict[str, T.List[int]]]:
    plan: T.Dict[str, T.Dict[str, T.List[int]]] = {}
    base = rnd.choice([40, 80, 120])
    for t in tests:
        plan[t['name']] = {}
        flaky = rnd.random() < 0.5
        code0 = rnd.choice(EXITS)
        for it in range(1, reps + 1):
            lim = plan_limit_ms(t['decl'], mult)
            if 0 <= lim < 5000:
                dur = HANG_MS
            elif durs is not None and (t['name'], it) in durs:
                dur = durs[(t['name'], it)]
            else:
                dur = base * rnd.choice([0, 1, 1, 2, 3, 4]) + rnd.randint(5, 30)
            code = rnd.choice(EXITS) if flaky else code0
            if exits is not None and (t['name'], it) in exits:
                code = exits[(t['name'], it)]
            plan[t['name']][str(it)] = [dur, code]
    return plan


def gen_runopts(rnd: random.Random, tests: T.List[T.Dict[str, T.Any]]) -> T.Dict[str, T.Any]:
    has_short = any(t['decl'] == 1 for t in tests)
    mult = rnd.choice([300, 500, 300, 500, 0, -1000]) if has_short else rnd.choice([-1, -1, 500, 2000, 0])
    return {
        'J': rnd.choice([1, 2, 2, 3, 3, 4]),
        'R': rnd.choice([1, 1, 1, 2, 2, 3]),
        'M': rnd.choice([0, 0, 0, 1, 1, 2]),
        'mult': mult,
    }


def runopt_args(o: T.Dict[str, T.Any]) -> T.List[str]:
    a = ['--num-processes', str(o['J'])]
    if o['R'] != 1:
        a += ['--repeat', str(o['R'])]
    if o['M']:
        a += ['--maxfail', str(o['M'])]
    if o['mult'] != -1:
        a += ['--timeout-multiplier=%s' % (o['mult'] / 1000.0)]
    return a


# ---------------------------------------------------------------------------
# real CLI

def meson_cmd() -> T.List[str]:
    return [common.PYTHON, str(common.REPO / 'meson.py')]


def write_project(src: Path, tests: T.List[T.Dict[str, T.Any]]) -> None:
    src.mkdir(parents=True, exist_ok=True)
    (src / 't.py').write_text(TEST_SCRIPT)
    lines = ["project('p')", f"py = find_program('{common.PYTHON}')", "s = files('t.py')"]
    for t in tests:
        kw = [f"args: ['-S', s, 'c12:{t['name']}']"]
        if not t['par']:
            kw.append('is_parallel: false')
        if t['prio'] != 0:
            kw.append(f"priority: {t['prio']}")
        if t['sf']:
            kw.append(f"{t['sfkw']}: true")
        if t['decl'] is not None:
            kw.append(f"timeout: {t['decl']}")
        if t['suites']:
            kw.append('suite: [' + ', '.join(f"'{x}'" for x in t['suites']) + ']')
        lines.append(f"test('{t['name']}', py, {', '.join(kw)})")
    (src / 'meson.build').write_text('\n'.join(lines) + '\n')


def run_proc(cmd: T.List[str], env: T.Optional[T.Dict[str, str]] = None, timeout: int = 300,
             cwd: T.Optional[Path] = None) -> subprocess.CompletedProcess:
    e = dict(os.environ)
    e.pop('MESON_TESTTHREADS', None)
    e.pop('MESON_NUM_PROCESSES', None)
    if env:
        e.update(env)
    try:
        return subprocess.run(cmd, env=e, cwd=cwd, stdout=subprocess.PIPE, stderr=subprocess.PIPE, text=True,
                              errors='replace', timeout=timeout)
    except subprocess.TimeoutExpired as ex:
        raise MachineryError(f'command timed out after {timeout}s: {" ".join(cmd)}') from ex


def setup_project(root: Path, tests: T.List[T.Dict[str, T.Any]]) -> Path:
    write_project(root / 'src', tests)
    p = run_proc(meson_cmd() + ['setup', '--backend=none', str(root / 'b'), str(root / 'src')])
    if p.returncode != 0:
        raise MachineryError('meson setup failed:\n' + p.stdout[-1500:] + p.stderr[-1500:])
    return root / 'b'


def list_tests(bdir: Path, selection: T.Dict[str, T.Any]) -> T.List[str]:
    p = run_proc(meson_cmd() + ['test', '-C', str(bdir), '--list'] + selection_args(selection))
    names = []
    for line in p.stdout.splitlines():
        m = re.search(r'(?:^|\s)p:(\S+)\s*$', line)
        if m:
            names.append(m.group(1))
    if p.returncode not in (0, 1):
        raise MachineryError(f'meson test --list failed rc={p.returncode}:\n' + p.stdout[-800:] + p.stderr[-800:])
    return names


def parse_tally(out: str) -> T.Dict[str, int]:
    tally = {v: 0 for v in TALLY_KEYS.values()}
    tally['ignored'] = 0
    for line in out.splitlines():
        m = re.match(r'^(Ok|Expected Fail|Fail|Unexpected Pass|Skipped|Ignored|Timeout):\s+(\d+)\s*$', line)
        if m:
            key = TALLY_KEYS.get(m.group(1), 'ignored')
            tally[key] = int(m.group(2))
    return tally


def make_case(cid: str, kind: str, tests: T.List[T.Dict[str, T.Any]], names: T.List[str], opts: T.Dict[str, T.Any],
              plan: T.Dict[str, T.Dict[str, T.List[int]]], events: T.List[T.Tuple[str, str, int]],
              recs: T.List[T.Tuple[str, int, str, int]], tally: T.Dict[str, int], rc: int) -> T.Dict[str, T.Any]:
    """Project one execution to the trace format of TraceTestSched."""
    by = {t['name']: t for t in tests}
    names = list(dict.fromkeys(names))
    n = len(names)
    pos = {nm: i for i, nm in enumerate(names)}

    def runner(nm: str, it: int) -> int:
        if nm not in pos or not 1 <= it <= opts['R']:
            return 0
        return (it - 1) * n + pos[nm] + 1

    run = []
    for it in range(1, opts['R'] + 1):
        for nm in names:
            t = by[nm]
            dur, code = plan[nm][str(it)]
            run.append({'par': t['par'], 'sf': t['sf'], 'exit': code,
                        'decl': 30 if t['decl'] is None else t['decl'], 'dur': dur})
    ev = [{'k': 'S' if k == 'S' else 'E', 'r': runner(nm, it)} for (k, nm, it) in events]
    rec = [{'r': runner(nm, it), 'res': res, 'rc': code} for (nm, it, res, code) in recs]
    tl = {k: tally.get(k, 0) for k in TALLY_KEYS.values()}
    return {'id': cid, 'kind': kind, 'exact': kind.startswith('virtual'), 'N': n, 'R': opts['R'], 'J': opts['J'],
            'M': opts['M'], 'mult': opts['mult'], 'run': run, 'ev': ev, 'rec': rec, 'tally': tl, 'rc': rc, 'ignored': tally.get('ignored', 0)}


def cli_run(bdir: Path, cid: str, tests: T.List[T.Dict[str, T.Any]], names: T.List[str],
            selection: T.Dict[str, T.Any], opts: T.Dict[str, T.Any],
            plan: T.Dict[str, T.Dict[str, T.List[int]]]) -> T.Dict[str, T.Any]:
    """One real `meson test` run -> trace case."""
    planf = bdir / 'c12-plan.json'
    logf = bdir / 'c12-events.log'
    planf.write_text(json.dumps(plan))
    if logf.exists():
        logf.unlink()
    jlog = bdir / 'meson-logs' / 'testlog.json'
    if jlog.exists():
        jlog.unlink()
    p = run_proc(meson_cmd() + ['test', '-C', str(bdir)] + runopt_args(opts) + selection_args(selection),
                 env={'C12_PLAN': str(planf), 'C12_LOG': str(logf)}, timeout=600)
    events = []
    if logf.exists():
        for line in logf.read_text().splitlines():
            f = line.split()
            if len(f) == 4:
                events.append((f[0], f[1], int(f[2])))
    recs = []
    if jlog.exists():
        for line in jlog.read_text().splitlines():
            if not line.strip():
                continue
            d = json.loads(line)
            nm = ''
            for a in d.get('command') or []:
                if isinstance(a, str) and a.startswith('c12:'):
                    nm = a[4:]
            it = int((d.get('env') or {}).get('MESON_TEST_ITERATION', '0') or 0)
            recs.append((nm, it, str(d.get('result')), int(d.get('returncode') if d.get('returncode') is not None else -999)))
    case = make_case(cid, 'cli', tests, names, opts, plan, events, recs, parse_tally(p.stdout), p.returncode)
    case['repro'] = {'tests': tests, 'selection': selection, 'opts': opts, 'plan': plan, 'names': names}
    if p.returncode not in (0, 1):
        case['stderr'] = (p.stdout[-1500:] + p.stderr[-1500:])
    return case


def select_queries(rnd: random.Random, nq: int) -> T.List[T.Dict[str, T.Any]]:
    return [gen_selection(rnd) for _ in range(nq)]


def _cli_project_job(args: T.Tuple[str, int, int, int, T.Optional[T.List[T.Dict[str, T.Any]]]]) -> T.Dict[str, T.Any]:
    """One generated project: setup, --list queries, several runs.  Runs in a worker thread."""
    label, sd, nruns, nsel, patterns = args
    rnd = random.Random(sd)
    out: T.Dict[str, T.Any] = {'sched': [], 'select': None}
    with scratch('c12-') as root:
        if patterns:
            tests = patterns[0]['tests']
        else:
            tests = gen_tests(rnd, rnd.choice([3, 4, 4, 5, 5, 6]))
        bdir = setup_project(root, tests)
        none_sel = dict(NONE_SEL)
        base = list_tests(bdir, none_sel)
        defs = defs_of(tests)
        tnames = [t['name'] for t in tests]
        queries = []
        listed: T.Dict[str, T.List[str]] = {json.dumps(none_sel, sort_keys=True): base}

        def listed_for(s: T.Dict[str, T.Any]) -> T.List[str]:
            key = json.dumps(s, sort_keys=True)
            if key not in listed:
                listed[key] = list_tests(bdir, s)
            return listed[key]

        for q in range(nsel):
            s = gen_selection(rnd, tnames, unmatched=True, p_args=0.6)
            full = listed_for(s)
            queries.append(query_of(s, 0, [full]))
            if full and q % 2 == 0:
                n = rnd.randint(1, len(set(full)))
                outs = [listed_for(dict(s, slice=[i, n])) for i in range(1, n + 1)]
                queries.append(query_of(s, n, outs))
        out['select'] = {'id': label, 'defs': defs, 'base': base, 'queries': queries, 'kind': 'cli'}
        for k in range(nruns):
            if patterns:
                pat = patterns[k % len(patterns)]
                opts = pat['opts']
                selection = none_sel
                names = listed_for(selection)
                plan = gen_plan(rnd, tests, opts['R'], opts['mult'], durs=pat['durs'], exits=pat['exits'])
            else:
                opts = gen_runopts(rnd, tests)
                selection = none_sel
                if rnd.random() < 0.45:
                    selection = gen_selection(rnd, tnames, unmatched=False, p_args=0.6)
                    full = listed_for(selection)
                    queries.append(query_of(selection, 0, [full]))
                    if full and rnd.random() < 0.4:
                        n = rnd.randint(1, len(set(full)))
                        selection = dict(selection, slice=[rnd.randint(1, n), n])
                names = listed_for(selection)
                if not names:
                    selection = none_sel
                    names = base
                if len(names) * opts['R'] > 10:
                    opts['R'] = max(1, 10 // len(names))
                plan = gen_plan(rnd, tests, opts['R'], opts['mult'])
            case = cli_run(bdir, f'{label}/{k}', tests, names, selection, opts, plan)
            if patterns:
                case['kind'] = 'cli-A'
                case['predicted'] = patterns[k % len(patterns)].get('order')
            out['sched'].append(case)
    return out


# ---------------------------------------------------------------------------
# virtual-time in-process runs of the real scheduler

_V: T.Dict[str, T.Any] = {}


def _virtual_setup() -> None:
    """Per worker process: one real build directory (configured by the real CLI) that provides build.dat and
    a template TestSerialisation."""
    if _V:
        return
    common.use_repo_meson()
    root = Path(tempfile.mkdtemp(prefix='c12v-', dir=os.environ.get('VERIF_TMPDIR') or os.environ.get('TMPDIR') or '/tmp'))
    import atexit
    atexit.register(shutil.rmtree, str(root), True)
    tmpl = [{'name': 'tmpl', 'par': True, 'prio': 0, 'sf': False, 'sfkw': 'should_fail', 'decl': None, 'suites': ['a']}]
    bdir = setup_project(root, tmpl)
    dat = bdir / 'meson-private' / 'meson_test_setup.dat'
    with dat.open('rb') as f:
        objs = pickle.load(f)
    if len(objs) != 1:
        raise MachineryError('template project has %d tests' % len(objs))
    _V.update(root=root, bdir=bdir, dat=dat, template=objs[0])


def _fabricate(tests: T.List[T.Dict[str, T.Any]]) -> T.List[T.Any]:
    """TestSerialisation objects for an abstract test list (already in list order)."""
    out = []
    for t in tests:
        o = copy.copy(_V['template'])
        o.name = t['name']
        o.is_parallel = t['par']
        o.expected_fail = t['sf']
        o.timeout = 30 if t['decl'] is None else t['decl']
        o.priority = t['prio']
        o.suite = [f'p:{x}' for x in t['suites']] or ['p']
        o.cmd_args = ['-S', 'script', 'c12:' + t['name']]
        out.append(o)
    return out


def _parse_opts(mt: T.Any, argv: T.List[str]) -> argparse.Namespace:
    parser = argparse.ArgumentParser(prog='meson test')
    mt.add_arguments(parser)
    return parser.parse_args(argv)


def _ask(mt: T.Any, lo: argparse.Namespace) -> T.List[str]:
    """The list the real code selects (TestHarness.get_tests); [] when it refuses the arguments."""
    lo.no_rebuild = True
    with contextlib.redirect_stdout(io.StringIO()), contextlib.redirect_stderr(io.StringIO()):   # "redundant name" warnings
        with mt.TestHarness(lo) as th:
            try:
                return [t.name for t in th.get_tests(errorfile=io.StringIO())]
            except Exception as e:
                if type(e).__name__ != 'MesonException':
                    raise
                return []


def virtual_run(cid: str, tests: T.List[T.Dict[str, T.Any]], selection: T.Dict[str, T.Any], opts: T.Dict[str, T.Any],
                plan: T.Dict[str, T.Dict[str, T.List[int]]], lat: T.Dict[str, int]) -> T.Dict[str, T.Any]:
    """Drive mtest.run() on a fabricated test list under the virtual loop -> trace case.
    plan durations are virtual milliseconds; lat: per test spawn latency in virtual ms."""
    from . import mtest_vloop
    from mesonbuild import mtest as mt
    _virtual_setup()
    bdir: Path = _V['bdir']
    with _V['dat'].open('wb') as f:
        pickle.dump(_fabricate(tests), f)
    argv = ['-C', str(bdir)] + runopt_args(opts) + selection_args(selection)
    # the list as the real code selects it
    lo = _parse_opts(mt, argv + ['--list'])
    lo.no_rebuild = True
    names = _ask(mt, lo)
    if not names:
        return {'id': cid, 'skip': 'empty selection'}
    vplan = {}
    for nm in names:
        for it, (dur, code) in plan[nm].items():
            vplan[(nm, int(it))] = (dur / 1000.0, code, lat.get(nm, 0) / 1000.0)
    world = mtest_vloop.World(vplan)
    jlog = bdir / 'meson-logs' / 'testlog.json'
    if jlog.exists():
        jlog.unlink()
    buf = io.StringIO()
    options = _parse_opts(mt, argv)
    cwd = os.getcwd()
    try:
        with mtest_vloop.installed(world), contextlib.redirect_stdout(buf):
            rc = mt.run(options)
    except mtest_vloop.VirtualDeadlock as e:
        return {'id': cid, 'kind': 'virtual', 'exact': True, 'hung': str(e), 'N': len(names), 'R': opts['R'], 'J': opts['J'], 'M': opts['M'],
                'mult': opts['mult'], 'run': [], 'ev': [], 'rec': [], 'tally': {}, 'rc': -1,
                'repro': {'tests': tests, 'selection': selection, 'opts': opts, 'plan': plan, 'lat': lat, 'names': names}}
    finally:
        os.chdir(cwd)
    if world.unknown:
        raise MachineryError('virtual run spawned a command the plan does not know: %r' % world.unknown[:2])
    recs = []
    if jlog.exists():
        for line in jlog.read_text().splitlines():
            if not line.strip():
                continue
            d = json.loads(line)
            nm = ''
            for a in d.get('command') or []:
                if isinstance(a, str) and a.startswith('c12:'):
                    nm = a[4:]
            it = int((d.get('env') or {}).get('MESON_TEST_ITERATION', '0') or 0)
            recs.append((nm, it, str(d.get('result')), int(d.get('returncode') if d.get('returncode') is not None else -999)))
    case = make_case(cid, 'virtual', tests, names, opts, plan, world.events, recs, parse_tally(buf.getvalue()), int(rc))
    case['repro'] = {'tests': tests, 'selection': selection, 'opts': opts, 'plan': plan, 'lat': lat, 'names': names}
    return case


def gen_vplan(rnd: random.Random, tests: T.List[T.Dict[str, T.Any]], reps: int, mult: int) -> T.Dict[str, T.Dict[str, T.List[int]]]:
    """Virtual durations: exact, so they may sit right next to the limit (never on it)."""
    plan: T.Dict[str, T.Dict[str, T.List[int]]] = {}
    unit = rnd.choice([10, 50, 100])
    for t in tests:
        plan[t['name']] = {}
        flaky = rnd.random() < 0.5
        code0 = rnd.choice(EXITS)
        for it in range(1, reps + 1):
            lim = plan_limit_ms(t['decl'], mult)
            dur = unit * rnd.randint(0, 6) + rnd.choice([1, 2, 3, 5, 7])
            if lim >= 0 and rnd.random() < 0.6:
                dur = lim + rnd.choice([-7, -3, 3, 7, 50000]) if lim > 10 else lim + 3
            if dur == lim:
                dur += 1
            plan[t['name']][str(it)] = [max(1, dur), rnd.choice(EXITS) if flaky else code0]
    return plan


def _virtual_job(args: T.Tuple[str, int, int]) -> T.Dict[str, T.Any]:
    label, sd, count = args
    common.use_repo_meson()
    _virtual_setup()
    from mesonbuild import mtest as mt
    out: T.Dict[str, T.Any] = {'sched': [], 'select': []}
    for j in range(count):
        rnd = random.Random(sd * 1000003 + j)
        tests = gen_tests(rnd, rnd.choice([2, 3, 4, 4, 5, 6]))
        tests.sort(key=lambda t: -t['prio'])       # fabricated lists are written in list order
        opts = gen_runopts(rnd, tests)
        if rnd.random() < 0.3:
            opts['mult'] = rnd.choice([10, 100, 300])
        selection = dict(NONE_SEL)
        if rnd.random() < 0.3:
            selection = gen_selection(rnd, [t['name'] for t in tests], unmatched=False, p_args=0.7)
        if len(tests) * opts['R'] > 10:
            opts['R'] = max(1, 10 // len(tests))
        plan = gen_vplan(rnd, tests, opts['R'], opts['mult'])
        lat = {t['name']: rnd.choice([0, 0, 0, 1, 2, 5]) for t in tests}
        case = virtual_run(f'{label}/{j}', tests, selection, opts, plan, lat)
        if 'skip' not in case:
            out['sched'].append(case)
        # selection queries on the same fabricated list, straight from TestHarness.get_tests
        if j % 4 == 0:
            out['select'].append(virtual_select(mt, f'{label}/s{j}', tests, rnd))
    return out


def virtual_select(mt: T.Any, cid: str, tests: T.List[T.Dict[str, T.Any]], rnd: random.Random) -> T.Dict[str, T.Any]:
    bdir: Path = _V['bdir']
    with _V['dat'].open('wb') as f:
        pickle.dump(_fabricate(tests), f)

    def ask(s: T.Dict[str, T.Any]) -> T.List[str]:
        return _ask(mt, _parse_opts(mt, ['-C', str(bdir), '--list'] + selection_args(s)))

    base = ask(NONE_SEL)
    queries = []
    tnames = [t['name'] for t in tests]
    for q in range(6):
        s = gen_selection(rnd, tnames, unmatched=True, p_args=0.6)
        full = ask(s)
        queries.append(query_of(s, 0, [full]))
        if full:
            n = rnd.randint(1, len(set(full)))
            queries.append(query_of(s, n, [ask(dict(s, slice=[i, n])) for i in range(1, n + 1)]))
    defs = defs_of(tests)
    return {'id': cid, 'defs': defs, 'base': base, 'queries': queries, 'kind': 'virtual'}


def _virtual_pattern_job(args: T.Tuple[str, T.List[T.Dict[str, T.Any]]]) -> T.List[T.Dict[str, T.Any]]:
    label, patterns = args
    common.use_repo_meson()
    _virtual_setup()
    out = []
    for j, pat in enumerate(patterns):
        tests = pat['tests']
        plan = {t['name']: {} for t in tests}
        for (nm, it), d in pat['durs'].items():
            plan[nm][str(it)] = [d, pat['exits'][(nm, it)]]
        case = virtual_run(f'{label}/{j}', tests, dict(NONE_SEL), pat['opts'], plan, {})
        case['kind'] = 'virtual-A'
        case['predicted'] = pat.get('order')
        out.append(case)
    return out


# ---------------------------------------------------------------------------
# (A) schedules simulated by TLC -> duration patterns

SIM_KINDS = {'ok': (False, 0, False), 'fail': (False, 1, False), 'upass': (True, 0, False), 'xfail': (True, 1, False),
             'skip': (False, 77, False), 'error': (False, 99, False), 'errorsf': (True, 99, False),
             'timeout': (False, 0, True), 'sig': (False, -9, False)}


def sim_instances(rnd: random.Random, count: int) -> T.List[T.Dict[str, T.Any]]:
    """Seeded abstract instances (cfg records of TestSched) for TLC to simulate."""
    out = []
    for _ in range(count):
        n = rnd.choice([3, 4, 4, 5])
        reps = rnd.choice([1, 1, 2])
        if n * reps > 8:
            reps = 1
        first = []
        for _i in range(n):
            kind = rnd.choice(['ok', 'ok', 'ok', 'fail', 'upass', 'xfail', 'skip', 'error', 'timeout', 'sig'])
            sf, code, to = SIM_KINDS[kind]
            first.append({'par': rnd.random() < 0.6, 'sf': sf, 'exit': code, 'to': to})
        run = list(first)
        for _it in range(2, reps + 1):
            for t in first:
                r = dict(t)
                if not t['to'] and rnd.random() < 0.5:     # flaky: another exit status in a later iteration
                    r['exit'] = rnd.choice([0, 1, 99, 77])
                run.append(r)
        out.append({'N': n, 'R': reps, 'J': rnd.choice([1, 2, 2, 3, 3]), 'M': rnd.choice([0, 0, 1, 2]), 'run': run})
    return out


def patterns_from_sim(chk: Check, n_inst: int, per_inst: int, unit: int) -> T.List[T.Dict[str, T.Any]]:
    rnd = random.Random(chk.seed * 7919 + 17)
    insts = sim_instances(rnd, n_inst)
    with scratch('c12-sim-') as d:
        sf = d / 'sim.json'
        sf.write_text(json.dumps(insts))
        res = run_tlc(FAM, 'TestSchedSim', simulate=f'num={n_inst * per_inst * 3}', depth=200, tlc_seed=chk.seed + 1,
                      workers=1, env={'SIM_FILE': str(sf)}, timeout=600)
    if res.error or res.invariant_violated:
        raise MachineryError('TestSchedSim failed:\n' + res.stdout[-1500:])
    chk.add_tlc('TestSchedSim[simulate]', res, model=False)
    seen = set()
    pats = []
    for beh in res.json_lines():
        key = json.dumps(beh, sort_keys=True)
        if key in seen:
            continue
        seen.add(key)
        cfg = beh['cfg']
        n, reps = cfg['N'], cfg['R']
        hist = beh['hist']
        # one time unit per event of the simulated schedule; a runner's duration spans its Start..Finish
        at: T.Dict[T.Tuple[str, int], int] = {}
        for i, e in enumerate(hist):
            at[(e['k'], e['r'])] = i
        tests = []
        for i in range(n):
            r0 = cfg['run'][i]
            any_to = any(cfg['run'][i + n * k]['to'] for k in range(reps))
            all_to = all(cfg['run'][i + n * k]['to'] for k in range(reps))
            if any_to != all_to:
                tests = []
                break
            tests.append({'name': f't{i}', 'par': r0['par'], 'prio': 0, 'sf': r0['sf'], 'sfkw': 'expected_fail',
                          'decl': 1 if any_to else 300, 'suites': []})
        if not tests:
            continue
        durs: T.Dict[T.Tuple[str, int], int] = {}
        exits: T.Dict[T.Tuple[str, int], int] = {}
        for r in range(1, n * reps + 1):
            nm, it = f't{(r - 1) % n}', (r - 1) // n + 1
            rr = cfg['run'][r - 1]
            exits[(nm, it)] = rr['exit']
            if rr['to']:
                durs[(nm, it)] = HANG_MS
            elif ('S', r) in at and ('F', r) in at:
                durs[(nm, it)] = max(1, (at[('F', r)] - at[('S', r)]) * unit - unit // 2)
            else:
                durs[(nm, it)] = unit
        order = [[e['k'], e['r']] for e in hist if e['k'] in ('S', 'F', 'I')]
        pats.append({'tests': tests, 'opts': {'J': cfg['J'], 'R': reps, 'M': cfg['M'], 'mult': 300},
                     'durs': durs, 'exits': exits, 'order': order})
    return pats


# ---------------------------------------------------------------------------
# judging with TLC

TRACE_FIELDS = ('id', 'N', 'R', 'J', 'M', 'mult', 'run', 'ev', 'rec', 'tally', 'rc', 'exact')


def sched_signature(c: T.Dict[str, T.Any], clause: str, hint: str) -> str:
    runs = ';'.join(f"{'p' if r['par'] else 's'}{'x' if r['sf'] else ''}{r['exit']}{'T' if r.get('dur', 0) >= HANG_MS else ''}"
                    for r in c.get('run', []))
    recs = ','.join(f"{r['r']}{r['res']}" for r in c.get('rec', []))
    return f"{clause}/{hint}|{c.get('kind')}|N{c.get('N')}R{c.get('R')}J{c.get('J')}M{c.get('M')}m{c.get('mult')}|{runs}|{recs}"


def judge_sched(chk: Check, cases: T.List[T.Dict[str, T.Any]], label: str) -> None:
    if not cases:
        return
    by_id = {c['id']: c for c in cases}
    if len(by_id) != len(cases):
        raise MachineryError('duplicate case ids')
    for c in cases:
        if c.get('hung'):
            chk.violation(sched_signature(c, 'Terminates', 'virtual-deadlock'),
                          {'what': 'the scheduler blocked forever under the virtual loop', 'repro': c.get('repro'), 'why': c['hung']})
        if c.get('ignored'):
            raise MachineryError('unexpected Ignored tally in ' + c['id'])
    cases = [c for c in cases if not c.get('hung')]
    verdicts: T.Dict[str, T.Dict[str, T.Any]] = {}
    for part_no, part in enumerate(common.chunks(cases, 4000)):
        with scratch('c12-j-') as d:
            tf = d / 'cases.json'
            tf.write_text(json.dumps([{k: c[k] for k in TRACE_FIELDS} for c in part]))
            res = run_tlc(FAM, 'TraceTestSched', env={'TRACE_FILE': str(tf), 'DIAG': '0'}, timeout=3000, heap='4g')
            if not res.clean:
                raise MachineryError('TraceTestSched did not complete cleanly:\n' + res.stdout[-2000:])
            m = re.search(r'Finished computing initial states: (\d+) distinct state', res.stdout)
            if not m or int(m.group(1)) != len(part):
                raise MachineryError(f'TraceTestSched started {m.group(1) if m else "?"} of {len(part)} cases')
            chk.add_tlc(f'TraceTestSched[{label}#{part_no}]', res, model=False)
            for v in res.json_lines():
                if isinstance(v, dict) and v.get('id') in by_id and v.get('clause') != 'progress':
                    old = verdicts.get(v['id'])
                    if old is None or old['clause'] == 'ok':
                        verdicts[v['id']] = v
            rejected = [c for c in part if c['id'] not in verdicts]
            if rejected:
                # single worker, with progress lines: final word on acceptance + the longest matched prefix
                tf.write_text(json.dumps([{k: c[k] for k in TRACE_FIELDS} for c in rejected]))
                res1 = run_tlc(FAM, 'TraceTestSched', env={'TRACE_FILE': str(tf), 'DIAG': '1'}, timeout=3000, workers=1, heap='4g')
                if not res1.clean:
                    raise MachineryError('TraceTestSched (diagnosis) did not complete cleanly:\n' + res1.stdout[-2000:])
                best: T.Dict[str, T.Tuple[int, int]] = {}
                for v in res1.json_lines():
                    if not isinstance(v, dict) or v.get('id') not in by_id:
                        continue
                    if v.get('clause') == 'progress':
                        b = best.get(v['id'], (1, 1))
                        if v['ei'] + v['ri'] > b[0] + b[1]:
                            best[v['id']] = (v['ei'], v['ri'])
                    else:
                        old = verdicts.get(v['id'])
                        if old is None or old['clause'] == 'ok':
                            verdicts[v['id']] = v
                still = [c for c in rejected if c['id'] not in verdicts]
                if still:
                    tf.write_text(json.dumps([{k: c[k] for k in TRACE_FIELDS} for c in still]))
                    res2 = run_tlc(FAM, 'TraceTestSched', cfg='TraceTestSchedHint.cfg', env={'TRACE_FILE': str(tf), 'DIAG': '0'},
                                   timeout=3000, workers=1)
                    if not res2.clean or res2.distinct != 2 * len(still):
                        raise MachineryError('TraceTestSched hints did not complete cleanly:\n' + res2.stdout[-2000:])
                    hints = {v['id']: v['hint'] for v in res2.json_lines() if isinstance(v, dict) and v.get('clause') == 'hint'}
                    for c in still:
                        ei, ri = best.get(c['id'], (1, 1))
                        verdicts[c['id']] = {'id': c['id'], 'clause': 'NoBehaviourOfSpec', 'hint': hints.get(c['id'], '?'),
                                             'matched_child_events': ei - 1, 'matched_results': ri - 1,
                                             'next_child_event': c['ev'][ei - 1] if ei - 1 < len(c['ev']) else None,
                                             'next_result': c['rec'][ri - 1] if ri - 1 < len(c['rec']) else None}
    chk.traces += len(cases)
    for c in cases:
        v = verdicts[c['id']]
        if v['clause'] == 'ok':
            continue
        hint = v.get('hint', '')
        if hint == 'RacyInput':
            raise MachineryError('generated a run whose duration is too close to its time limit: ' + c['id'])
        if c.get('rc') not in (0, 1) and c['kind'].startswith('cli'):
            # meson itself crashed / refused: report as such (still a violation of "reports truthfully")
            hint = hint + '+exit%s' % c.get('rc')
        chk.violation(sched_signature(c, v['clause'], hint),
                      {'verdict': v, 'case': {k: c.get(k) for k in TRACE_FIELDS}, 'kind': c['kind'],
                       'repro': c.get('repro'), 'stderr': c.get('stderr')})


def judge_select(chk: Check, cases: T.List[T.Dict[str, T.Any]], label: str) -> None:
    if not cases:
        return
    by_id = {c['id']: c for c in cases}
    with scratch('c12-s-') as d:
        tf = d / 'cases.json'
        tf.write_text(json.dumps([{k: c[k] for k in ('id', 'defs', 'base', 'queries')} for c in cases]))
        res = run_tlc(FAM, 'TraceTestSelect', env={'TRACE_FILE': str(tf)}, timeout=1800)
        bad = res.json_lines()
        if not res.clean:
            raise MachineryError('TraceTestSelect did not complete cleanly:\n' + res.stdout[-1500:])
        if res.distinct != 2 * len(cases):
            raise MachineryError(f'TraceTestSelect judged {res.distinct // 2} of {len(cases)} cases')
        if bad:
            res1 = run_tlc(FAM, 'TraceTestSelect', env={'TRACE_FILE': str(tf)}, timeout=1800, workers=1)
            bad = res1.json_lines()
    chk.add_tlc(f'TraceTestSelect[{label}]', res, model=False)
    chk.traces += len(cases)
    chk.evaluations += sum(len(c['queries']) for c in cases)
    for v in bad:
        c = by_id.get(v.get('id'), {})
        q = c.get('queries', [])[v['query'] - 1] if v.get('query') else None
        sig = f"{v.get('clause')}|{c.get('kind')}|" + json.dumps(
            {'defs': [[d['name'], d['prio'], d['suites']] for d in c.get('defs', [])],
             'q': None if q is None else [[sel_text(s) for s in q['inc']], [sel_text(s) for s in q['exc']],
                                           [''.join(a) for a in q.get('args', [])], q['n']]},
            sort_keys=True)
        chk.violation(sig, {'verdict': v, 'case': c, 'query': q})


# ---------------------------------------------------------------------------

MC_CFG = '''SPECIFICATION Spec
CONSTANTS
  Shapes = %(shapes)s
  Kinds = %(kinds)s
  Js = {1, 2, 3}
  Ms = {0, 1, 2}
  Flaky = %(flaky)s
INVARIANTS
  TypeOK
  AtMostOnce
  StartsInListOrder
  JobBound
  SerialAlone
  ResultsOnlyOfStarted
  ResultsTruthful
  InterruptOnlyAfterCut
  TalliesEqualClassification
  ExactlyOnceWhenNotCut
  NotCutWithoutCause
  CutWhenMaxfailReached
  ExitNonZeroIffBad
  AllAccountedWhenDone
PROPERTIES
  Progress
  NoStartAfterCut
  CfgConstant
'''

SELECT_CFG = '''SPECIFICATION Spec
CONSTANTS MaxN = %d
INVARIANTS
  SelectionIsSubsequence
  SelectionExact
  ExcludeWins
  IncludeIsUnion
  NoFilterKeepsAll
  SlicesPartition
  SlicesBalanced
CHECK_DEADLOCK FALSE
'''


SELECT_ARGS_CFG = '''SPECIFICATION Spec
CONSTANTS MaxN = %d
INVARIANTS
  EachSelectedOnce
  ExactlyTheMatched
  ArgsAreUnion
  RepeatedArgsIdempotent
  ArgOrderIrrelevant
  NoArgsKeepsAll
  UnmatchedMeansSmaller
CHECK_DEADLOCK FALSE
'''


def model_check(quick: bool) -> T.List[T.Tuple[str, T.Any]]:
    """TLC on the specifications alone (runs in a thread next to the drivers)."""
    runs = [('31+22/4kinds/flaky', '{31, 22}', '{"ok", "fail", "upass", "timeout"}', 'TRUE')]
    if not quick:
        runs = [
            ('31+22/7kinds/flaky', '{31, 22}', '{"ok", "fail", "upass", "xfail", "timeout", "skip", "error"}', 'TRUE'),
            ('41/4kinds', '{41}', '{"ok", "fail", "upass", "timeout"}', 'FALSE'),
            ('32/3kinds', '{32}', '{"ok", "fail", "timeout"}', 'FALSE'),
            ('32/2kinds/flaky', '{32}', '{"ok", "fail"}', 'TRUE'),
            ('42/2kinds', '{42}', '{"ok", "fail"}', 'FALSE'),
        ]
    out: T.List[T.Tuple[str, T.Any]] = []
    for name, shapes, kinds, flaky in runs:
        res = run_tlc(FAM, 'TestSched_MC', cfg_text=MC_CFG % {'shapes': shapes, 'kinds': kinds, 'flaky': flaky},
                      timeout=3000, allow_violation=False, heap='4g', coverage=name == '32/3kinds')
        out.append((f'TestSched_MC[{name}]', res))
    res = run_tlc(FAM, 'TestSelect_MC', cfg_text=SELECT_CFG % (2 if quick else 3), timeout=3000, allow_violation=False)
    out.append(('TestSelect_MC', res))
    res = run_tlc(FAM, 'TestSelectArgs_MC', cfg_text=SELECT_ARGS_CFG % (2 if quick else 3), timeout=3000, allow_violation=False)
    out.append(('TestSelectArgs_MC', res))
    return out


def account(chk: Check, cases: T.List[T.Dict[str, T.Any]]) -> None:
    for c in cases:
        if c.get('hung'):
            continue
        chk.evaluations += 1
        # non-trivial: some observed overlap of two test programs, or a serial test next to others, or a cut/timeout
        open_ = set()
        overlap = False
        for e in c['ev']:
            if e['k'] == 'S':
                open_.add(e['r'])
                overlap = overlap or len(open_) > 1
            else:
                open_.discard(e['r'])
        serial = any(not r['par'] for r in c['run']) and len(c['run']) > 1
        special = any(r['res'] in ('TIMEOUT', 'INTERRUPT') for r in c['rec']) or len(c['rec']) < len(c['run'])
        if (overlap and serial) or special:
            chk.nontriv(json.dumps([c['N'], c['R'], c['J'], c['M'], c['ev'], [(r['r'], r['res']) for r in c['rec']]]))
    for c in cases[:: max(1, len(cases) // 2)][:2]:
        chk.sample({k: c.get(k) for k in ('id', 'kind', 'N', 'R', 'J', 'M', 'mult', 'run', 'ev', 'rec', 'tally', 'rc')}, limit=8)


def reproduced(cases: T.List[T.Dict[str, T.Any]]) -> T.Tuple[int, int]:
    """How many replayed simulated schedules showed the simulated order of results (statistics only)."""
    same = total = 0
    for c in cases:
        pred = c.get('predicted')
        if not pred:
            continue
        total += 1
        want = [r for k, r in pred if k in ('F', 'I')]
        got = [r['r'] for r in c['rec']]
        same += int(want == got)
    return same, total


def main(chk: Check) -> None:
    quick = chk.tier == 'quick'
    chk.rule = ('one case = one execution of the real scheduler (CLI run of `meson test`, or mtest.run under the virtual-time '
                'loop) on a seeded test set (2-6 tests: parallel/serial, priorities, should_fail, time limits, suites) with seeded '
                '-j/--repeat/--maxfail/--timeout-multiplier/--suite/--slice and per-run durations and exit codes; non-trivial = '
                'the test programs observed an overlap in a run that also has a serial test, or the run contains a TIMEOUT, '
                'an INTERRUPT or an omitted test (distinct event/result sequences)')
    n_proj = 12 if quick else 64
    runs_per = 6 if quick else 8
    n_sel = 3 if quick else 5
    n_virtual = 500 if quick else 8000
    n_sim_inst = 6 if quick else 40
    sim_per = 2 if quick else 3

    # (A) schedules from the spec
    pats = patterns_from_sim(chk, n_sim_inst, sim_per, unit=120)
    chk.extra['simulated_schedules'] = len(pats)
    by_tests: T.Dict[str, T.List[T.Dict[str, T.Any]]] = {}
    for p in pats:
        by_tests.setdefault(json.dumps(p['tests'], sort_keys=True), []).append(p)
    groups = list(by_tests.values())
    cli_pat_groups = groups[: (4 if quick else 30)]

    sched_cases: T.List[T.Dict[str, T.Any]] = []
    select_cases: T.List[T.Dict[str, T.Any]] = []
    t1 = time.time()
    vjobs = []
    per = max(1, n_virtual // (common.NCPU * 2))
    for k in range(0, n_virtual, per):
        vjobs.append((f'V{k}', chk.seed * 100003 + k, min(per, n_virtual - k)))
    vpat_jobs = [(f'VA{g}', grp) for g, grp in enumerate(groups)]
    cli_jobs = [(f'P{k}', chk.seed * 65537 + k, runs_per, n_sel, None) for k in range(n_proj)]
    cli_jobs += [(f'PA{g}', chk.seed * 65537 + 100000 + g, min(len(grp), 3), 1, grp[:3]) for g, grp in enumerate(cli_pat_groups)]
    # CLI runs mostly sleep: more threads than cores is fine, but stay polite to the other users of the machine
    # the process pool forks all its workers at the first submit: do that before any thread exists
    with ProcessPoolExecutor(max_workers=max(2, common.NCPU // 2)) as pex:
        v_f = [pex.submit(_virtual_job, j) for j in vjobs]
        vp_f = [pex.submit(_virtual_pattern_job, j) for j in vpat_jobs]
        # model checking of the specs runs next to the drivers (the CLI runs mostly sleep)
        with ThreadPoolExecutor(max_workers=1) as mex, ThreadPoolExecutor(max_workers=common.NCPU) as tex:
            tm = time.time()
            mc_f = mex.submit(model_check, quick)
            cli_f = [tex.submit(_cli_project_job, j) for j in cli_jobs]
            for f in cli_f:
                r = f.result()
                sched_cases += r['sched']
                if r['select']:
                    select_cases.append(r['select'])
            for f in v_f:
                r = f.result()
                sched_cases += r['sched']
                select_cases += r['select']
            for f in vp_f:
                sched_cases += f.result()
            chk.extra['drive_wall_s'] = round(time.time() - t1, 1)
            for name, res in mc_f.result():
                chk.add_tlc(name, res)
                if res.coverage():
                    chk.extra['action_coverage'] = res.coverage()
            chk.extra['model_check_wall_s'] = round(time.time() - tm, 1)
    kinds: T.Dict[str, int] = {}
    for c in sched_cases:
        kinds[c['kind']] = kinds.get(c['kind'], 0) + 1
    chk.extra['executions_by_kind'] = kinds
    same, total = reproduced(sched_cases)
    chk.extra['simulated_schedules_reproduced'] = f'{same}/{total}'
    account(chk, sched_cases)
    t2 = time.time()
    judge_sched(chk, sched_cases, 'all')
    judge_select(chk, select_cases, 'all')
    chk.extra['judge_wall_s'] = round(time.time() - t2, 1)
    chk.exhaustive = False
    chk.assumptions += [
        'single project, no subprojects: the bare --suite NAME form is only exercised where project and suite readings agree',
        'protocol exitcode only (TAP verdicts are C18); expected_exitcode, --wrapper, --gdb/--interactive, --setup, benchmarks, '
        'and --exclude are not generated; positional test names use plain names, * and ? globs and the p: / p:name forms '
        '(no [..] classes, no :name form); an argument matching no candidate test may make the command refuse and '
        'list/run nothing (documentation silent) - such arguments are generated for --list queries only',
        'time limits: CLI runs use durations at least 7 s away from the effective limit (TraceTestSched names a RacyInput '
        'otherwise); the exact boundary is explored only under the virtual-time loop',
        'concurrency claims use only the order of the O_APPEND log written by the test programs (child interval inside the '
        'true running interval); the start order of tests that run concurrently is therefore not observable in CLI runs',
        '--maxfail: a cut is required once M runs FAILed/ERRORed and permitted once M runs were bad in any way; an interrupted '
        'test may be logged as INTERRUPT or not at all; --repeat: stopping after a bad result is permitted, never required',
        '--slice: any partition of the selection into n ordered sub-lists is accepted (the documentation promises no more); '
        'n larger than the number of selected tests is not generated',
        'virtual-time runs replace asyncio.create_subprocess_exec, os.killpg and the event-loop clock from outside; '
        'the fabricated meson_test_setup.dat bypasses priority sorting (covered by the CLI runs)',
    ]


def replay(chk: Check, data: T.Dict[str, T.Any]) -> None:
    det = data['detail']
    if 'query' in det and 'case' in det and 'defs' in det['case']:
        # selection: re-ask the current code
        c = det['case']
        tests = [{'name': d['name'], 'par': True, 'prio': d['prio'], 'sf': False, 'sfkw': 'should_fail', 'decl': None,
                  'suites': d['suites']} for d in c['defs']]

        def sel_of(q: T.Dict[str, T.Any]) -> T.Dict[str, T.Any]:
            return {'inc': q['inc'], 'exc': q['exc'], 'slice': None, 'args': [''.join(a) for a in q.get('args', [])]}

        def reask(ask: T.Callable[[T.Dict[str, T.Any]], T.List[str]]) -> T.Dict[str, T.Any]:
            nc = {'id': 'replay', 'kind': c.get('kind'), 'defs': defs_of(tests), 'base': ask(NONE_SEL), 'queries': []}
            for q in c['queries']:
                sq = sel_of(q)
                outs = [ask(sq)] if q['n'] == 0 else [ask(dict(sq, slice=[i, q['n']])) for i in range(1, q['n'] + 1)]
                nc['queries'].append(query_of(sq, q['n'], outs))
            return nc

        if c.get('kind') == 'virtual':
            common.use_repo_meson()
            _virtual_setup()
            from mesonbuild import mtest as mt
            base_order = {n: i for i, n in enumerate(c['base'])}
            tests.sort(key=lambda t: base_order.get(t['name'], 0))
            with _V['dat'].open('wb') as f:
                pickle.dump(_fabricate(tests), f)
            judge_select(chk, [reask(lambda sq: _ask(mt, _parse_opts(mt, ['-C', str(_V['bdir']), '--list'] + selection_args(sq))))],
                         'replay')
        else:
            with scratch('c12-r-') as root:
                bdir = setup_project(root, tests)
                judge_select(chk, [reask(lambda sq: list_tests(bdir, sq))], 'replay')
        return
    rp = det.get('repro')
    if not rp:
        raise MachineryError('replay file has no reproduction data')
    if det.get('kind', '').startswith('virtual'):
        common.use_repo_meson()
        case = virtual_run('replay', rp['tests'], rp['selection'], rp['opts'], rp['plan'], rp.get('lat', {}))
        judge_sched(chk, [case], 'replay')
    else:
        with scratch('c12-r-') as root:
            bdir = setup_project(root, rp['tests'])
            names = list_tests(bdir, rp['selection'])
            case = cli_run(bdir, 'replay', rp['tests'], names, rp['selection'], rp['opts'], rp['plan'])
            judge_sched(chk, [case], 'replay')


if __name__ == '__main__':
    sys.exit(common.run_check(main, PROP, replay=replay))
