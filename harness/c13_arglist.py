"""C13 - compiler argument lists honour the append/override/dedup contract.

1. TLC model-checks specs/arglist: ``ArgList_MC`` (the eager rule book satisfies the
   three laws of the statement for every list x batch), ``ArgListLazy_MC`` (the lazy
   container + pre/post queues + flush design refines the eager meaning under the
   mapping Flush, for every operation sequence of the bounded space; exports the space).
2. (A) every operation sequence of that space (read back from the TLC run) is executed
   on real ``CLikeCompilerArgs`` objects built with a stub compiler; what each call
   returned and the final content of every live object are judged by ``TraceArgList``
   (TLC, eager rule book).  Objects are observed only at the end of a sequence (every
   prefix is a sequence of its own), so pending queues are never disturbed by the observer.
3. (B) seeded random histories (up to 40 operations, 4 objects, batches up to 6) over a
   larger table of concrete arguments, judged by the same trace spec.
4. (C) compile/link command lines of generated C projects with duplicated settings at
   global / project / target / dependency level (``meson setup`` with the ninja stub):
   the documented assembly order is replayed as a history and judged by the same spec.
"""
from __future__ import annotations

import itertools
import json
import random
import sys
import typing as T
from concurrent.futures import ProcessPoolExecutor

from . import common
from .common import Check, MachineryError, SPECS, run_tlc, scratch

PROP = 'C13'

DEFAULT_DIRS = ['/usr/include', '/usr/local/include', '/verif-no-such-dir/include']
START, END = '-Wl,--start-group', '-Wl,--end-group'

# ---------------------------------------------------------------------------
# rendering: abstract argument kind -> concrete spellings (from the statement, the class
# documentation and unittests/internaltests.py).  Every template yields a different text for
# a different id; templates of different kinds never collide.

Kind = T.Tuple[int, str, int, int, int]          # p, d, g, s, ab

SPELL: T.Dict[Kind, T.List[str]] = {
    (1, 'over', 0, 0, 0): ['-Iinc{i}', '-Llib{i}', '-I/abs/inc{i}', '-L/abs/lib{i}', '-I../x{i}', '-I.{i}'],
    (0, 'over', 0, 0, 0): ['-DFOO{i}', '-DFOO{i}=1', '-UFOO{i}', '-isystemsys{i}', '-isystem/opt/sys{i}', '-D_X{i}="a b"'],
    (0, 'unique', 1, 0, 0): ['-lfoo{i}', 'libfoo{i}.a', 'sub/libfoo{i}.so', '-Wl,-lfoo{i}', 'libfoo{i}.so.1.2.3',
                             'x/libfoo{i}.so.4', 'foo{i}.a'],
    (0, 'unique', 1, 0, 1): ['/opt/l/libbar{i}.a', '/opt/l/libbar{i}.so', '/opt/l/libbar{i}.so.2'],
    (0, 'unique', 0, 0, 0): ['-Wl,-rpath,/r{i}', 'foo{i}.dll', 'foo{i}.lib', 'libfoo{i}.dylib', '-Wl,-rpath-link,/r{i}',
                             '-Wl,sub/libw{i}.so', '@FIXEDU'],
    (0, 'unique', 0, 0, 1): ['/opt/b/foo{i}.dll', '/opt/b/foo{i}.lib', '/opt/b/libfoo{i}.dylib'],
    (0, 'none', 0, 0, 0): ['-O{i}', '-Wopt{i}', 'obj{i}.o', 'src{i}.c', '-fopt{i}', '-Wl,--opt{i}', '@FIXEDN'],
    (0, 'none', 1, 0, 0): ['foo{i}.so.1', '@FIXEDL'],
    (1, 'none', 0, 0, 0): ['@FIXEDP'],
    (0, 'none', 0, 0, 1): ['/opt/o/obj{i}.o', '/opt/src{i}.c'],
    (0, 'over', 0, 1, 0): ['-isystem{D}', '-isystem={D}'],
    (0, 'none', 0, 2, 0): ['-isystem'],
    (0, 'none', 0, 3, 1): ['{D}'],
}
FIXED = {
    '@FIXEDU': ['-pthread', '-pipe', '-c', '-S', '-E', '-Wl,--export-dynamic'],
    '@FIXEDN': ['-D', '-U', '-Wl,-rpath,', '-Wl,-rpath-link,', '-include', '-MD'],
    '@FIXEDL': ['-l', '-Wl,-l'],
    '@FIXEDP': ['-I', '-L'],
}


def kind_of(a: T.Dict[str, T.Any]) -> Kind:
    return (a['p'], a['d'], a['g'], a['s'], a['ab'])


def spell(a: T.Dict[str, T.Any], variant: int) -> str:
    forms = SPELL[kind_of(a)]
    t = forms[variant % len(forms)]
    i = a['id']
    if t in FIXED:
        f = FIXED[t]
        return f[i % len(f)]
    return t.format(i=i, D=DEFAULT_DIRS[i % len(DEFAULT_DIRS)])


def max_id(kind: Kind) -> int:
    """ids 0..max_id-1 give distinct texts for every variant of the kind."""
    m = 99
    for t in SPELL[kind]:
        if t in FIXED:
            m = min(m, len(FIXED[t]))
        elif '{D}' in t:
            m = min(m, len(DEFAULT_DIRS))
    return m


def rec(kind: Kind, i: int) -> T.Dict[str, T.Any]:
    return {'p': kind[0], 'd': kind[1], 'g': kind[2], 's': kind[3], 'ab': kind[4], 'm': 0, 'id': i}


MARKERS = [{'p': 0, 'd': 'none', 'g': 0, 's': 0, 'ab': 0, 'm': 1, 'id': 0},
           {'p': 0, 'd': 'none', 'g': 0, 's': 0, 'ab': 0, 'm': 2, 'id': 0}]


def letters(a: T.Dict[str, T.Any]) -> str:
    if a.get('m'):
        return {1: '<start>', 2: '<end>'}.get(a['m'], '<alien>')
    return f"{'P' if a['p'] else 'A'}{a['d'][0]}{'g' if a['g'] else ''}{'s%d' % a['s'] if a['s'] else ''}" \
           f"{'/' if a['ab'] else ''}{a['id']}"


# ---------------------------------------------------------------------------
# driving the real class

_STUBS: T.Dict[bool, T.Any] = {}


def stub_compiler(gnu: bool) -> T.Any:
    """A Compiler object that is never executed: only what CompilerArgs touches."""
    if gnu in _STUBS:
        return _STUBS[gnu]
    from mesonbuild.compilers import compilers
    from mesonbuild.linkers.linkers import GnuLikeDynamicLinkerMixin

    class StubLinker:
        pass

    class StubGnuLinker(GnuLikeDynamicLinkerMixin):
        def __init__(self) -> None:   # the real constructor wants an executable
            pass

    class StubCompiler(compilers.Compiler):
        language = 'c'
        id = 'stub'

        def __init__(self, linker: T.Any) -> None:
            self.linker = linker

        def get_default_include_dirs(self) -> T.List[str]:
            return list(DEFAULT_DIRS)

        def unix_args_to_native(self, args: T.List[str]) -> T.List[str]:
            return args.copy()

        def __repr__(self) -> str:
            return '<stub compiler>'

    StubCompiler.__abstractmethods__ = frozenset()
    _STUBS[gnu] = StubCompiler(StubGnuLinker() if gnu else StubLinker())
    return _STUBS[gnu]


def execute(case: T.Dict[str, T.Any], alpha: T.List[T.Dict[str, T.Any]]) -> T.Dict[str, T.Any]:
    """Run one history on real objects.  ``case`` has ops (arguments as 1-based indices into alpha), gnu, fin,
    vseed.  Adds text (concrete calls), rets, obs."""
    from mesonbuild.compilers.mixins.clike import CLikeCompilerArgs as CA
    rnd = random.Random(case['vseed'])
    variant = [rnd.randrange(64) for _ in alpha]
    text = [spell(a, variant[j]) if not a['m'] else (START if a['m'] == 1 else END) for j, a in enumerate(alpha)]
    back = {t: j + 1 for j, t in enumerate(text)}
    if len(back) != len(text):
        raise MachineryError('rendering is not injective: ' + repr(text))

    def idx(xs: T.Any) -> T.List[int]:
        return [back.get(x, 0) for x in xs]

    comp = stub_compiler(bool(case['gnu']))
    objs = [CA(comp)]
    rets: T.List[T.List[int]] = []
    calls: T.List[str] = []
    for op in case['ops']:
        k = op['k']
        b = [text[j - 1] for j in op['b']]
        o = objs[op['o'] - 1]
        v = rnd.randrange(6)
        ret: T.List[int] = []
        try:
            if k == 'iadd':
                if len(b) == 1 and v == 0:
                    o.append(b[0]); calls.append(f'o{op["o"]}.append({b[0]!r})')
                elif v == 1:
                    o.extend(b); calls.append(f'o{op["o"]}.extend({b!r})')
                elif v == 2:
                    o.extend(x for x in b); calls.append(f'o{op["o"]}.extend(generator {b!r})')
                elif v == 3:
                    o += tuple(b); calls.append(f'o{op["o"]} += tuple {b!r}')
                elif v == 4:
                    o += CA(comp, b); calls.append(f'o{op["o"]} += CLikeCompilerArgs({b!r})')
                else:
                    o += b; calls.append(f'o{op["o"]} += {b!r}')
            elif k == 'xdirect':
                if v < 3:
                    o.extend_direct(b); calls.append(f'o{op["o"]}.extend_direct({b!r})')
                else:
                    for x in b:
                        o.append_direct(x)
                    calls.append(f'o{op["o"]}.append_direct each of {b!r}')
            elif k == 'insert':
                o.insert(op['i'], b[0]); calls.append(f'o{op["o"]}.insert({op["i"]}, {b[0]!r})')
            elif k == 'remove':
                calls.append(f'o{op["o"]}.remove({b[0]!r})')
                try:
                    o.remove(b[0])
                    ret = [1]
                except ValueError:
                    ret = [0]
            elif k == 'new':
                if v == 0:
                    objs.append(CA(comp, CA(comp, b))); calls.append(f'CLikeCompilerArgs(c, CLikeCompilerArgs(c, {b!r}))')
                elif v == 1:
                    objs.append(CA(comp, tuple(b))); calls.append(f'CLikeCompilerArgs(c, tuple {b!r})')
                else:
                    objs.append(CA(comp, b)); calls.append(f'CLikeCompilerArgs(c, {b!r})')
            elif k == 'copy':
                objs.append(o.copy()); calls.append(f'o{op["o"]}.copy()')
            elif k == 'add':
                objs.append(o + (b if v < 4 else tuple(b))); calls.append(f'o{op["o"]} + {b!r}')
            elif k == 'radd':
                objs.append(b + o); calls.append(f'{b!r} + o{op["o"]}')
            elif k == 'read':
                if v == 0:
                    got = [x for x in o]; calls.append(f'[x for x in o{op["o"]}]')
                elif v == 1:
                    got = o[:]; calls.append(f'o{op["o"]}[:]')
                elif v == 2:
                    _ = (o == ['zzz']); got = list(o); calls.append(f'o{op["o"]} == [..]; list(o{op["o"]})')
                elif v == 3:
                    _ = repr(o); got = list(o); calls.append(f'repr(o{op["o"]}); list(o{op["o"]})')
                else:
                    got = list(o); calls.append(f'list(o{op["o"]})')
                ret = idx(got)
            elif k == 'rev':
                calls.append(f'list(reversed(o{op["o"]}))')
                ret = idx(list(reversed(o)))
            elif k == 'native':
                calls.append(f'o{op["o"]}.to_native(copy=True)')
                ret = idx(o.to_native(copy=True))
            elif k == 'len':
                calls.append(f'len(o{op["o"]})')
                ret = [len(o)]
            else:
                raise MachineryError('unknown operation ' + k)
        except MachineryError:
            raise
        except Exception as e:  # the statement knows no failing operation
            calls[-1:] = [(calls[-1] if calls else k) + f'  -> raised {type(e).__name__}: {e}']
            ret = [-1]
        rets.append(ret)
    obs = []
    for o in objs:
        try:
            if case['fin'] == 0:
                l1 = idx(list(o))
                n = idx(o.to_native(copy=True))
                l2 = idx(list(o))
                obs.append({'l': l1, 'n': n, 'l2': l2})
            else:
                obs.append({'l': [], 'n': idx(o.to_native()), 'l2': []})
        except Exception:
            obs.append({'l': [-1], 'n': [-1], 'l2': [-1]})
    case['rets'] = rets
    case['obs'] = obs
    case['calls'] = calls
    case['text'] = text
    return case


# ---------------------------------------------------------------------------
# (A) exhaustive enumeration of the model's operation space

def _seqs(ops: T.List[T.List[T.Dict[str, T.Any]]], depth: int, prefix: T.List[int], nobj: int) -> T.Iterator[T.List[int]]:
    """all index sequences of exactly `depth` more operations; ops[n-1] = operations with n live objects."""
    if depth == 0:
        yield prefix
        return
    table = ops[nobj - 1]
    for j, op in enumerate(table):
        n2 = nobj + (1 if op['k'] in ('new', 'copy', 'add', 'radd') else 0)
        yield from _seqs(ops, depth - 1, prefix + [j], n2)


def _worker_enum(args: T.Tuple[str, T.Dict[str, T.Any], int, T.List[int], int, int]) -> T.List[T.Dict[str, T.Any]]:
    label, space, depth, first, gnu, sd = args
    common.use_repo_meson()
    alpha = space['alpha'] + MARKERS
    ops = space['ops']
    out = []
    nobj = 1
    for j in first:
        if ops[nobj - 1][j]['k'] in ('new', 'copy', 'add', 'radd'):
            nobj += 1
    for s in _seqs(ops, depth - len(first), list(first), nobj):
        n = 1
        oplist = []
        for j in s:
            op = ops[n - 1][j]
            oplist.append(op)
            if op['k'] in ('new', 'copy', 'add', 'radd'):
                n += 1
        h = 0
        for j in s:
            h = (h * 1009 + j + 1) % 2147483647
        case = {'id': f'{label}:' + '.'.join(map(str, s)), 'ops': oplist, 'gnu': gnu, 'fin': (h + sd) % 2,
                'vseed': sd * 1000003 + h}
        out.append(execute(case, alpha))
    return out


# ---------------------------------------------------------------------------
# (B) random histories over a larger argument table

def big_alpha() -> T.List[T.Dict[str, T.Any]]:
    alpha = []
    for kind in SPELL:
        for i in range(min(3, max_id(kind))):
            alpha.append(rec(kind, i))
    return alpha


def _rand_case(rnd: random.Random, alpha: T.List[T.Dict[str, T.Any]], j: int) -> T.Dict[str, T.Any]:
    n = len(alpha)
    # a history concentrates on a few arguments so that repeats are frequent
    pool = [rnd.randrange(1, n + 1) for _ in range(rnd.randint(3, 12))]

    def batch(lo: int = 0) -> T.List[int]:
        return [rnd.choice(pool) for _ in range(rnd.randint(lo, rnd.choice([1, 2, 3, 6])))]

    ops = []
    nobj = 1
    for _ in range(rnd.randint(2, 40)):
        r = rnd.random()
        o = rnd.randint(1, nobj)
        if r < 0.45:
            ops.append({'k': 'iadd', 'o': o, 'b': batch(), 'i': 0})
        elif r < 0.55:
            ops.append({'k': 'xdirect', 'o': o, 'b': batch(), 'i': 0})
        elif r < 0.60:
            ops.append({'k': 'insert', 'o': o, 'b': batch(1)[:1], 'i': rnd.choice([0, 0, 1, 2, -1, -2, 99]), })
        elif r < 0.63:
            ops.append({'k': 'remove', 'o': o, 'b': batch(1)[:1], 'i': 0})
        elif r < 0.75:
            ops.append({'k': rnd.choice(['read', 'read', 'read', 'rev', 'len', 'native']), 'o': o, 'b': [], 'i': 0})
        elif nobj < 4:
            k = rnd.choice(['copy', 'copy', 'add', 'radd', 'new'])
            ops.append({'k': k, 'o': o if k != 'new' else 1, 'b': batch() if k != 'copy' else [], 'i': 0})
            nobj += 1
        else:
            ops.append({'k': 'iadd', 'o': o, 'b': batch(), 'i': 0})
    return {'id': f'B:{j}', 'ops': ops, 'gnu': rnd.randint(0, 1), 'fin': rnd.randint(0, 1), 'vseed': rnd.randrange(1 << 30)}


def _worker_rand(args: T.Tuple[int, int, int]) -> T.List[T.Dict[str, T.Any]]:
    lo, hi, sd = args
    common.use_repo_meson()
    alpha = big_alpha() + MARKERS
    out = []
    for j in range(lo, hi):
        rnd = random.Random(sd * 7919 + j)
        out.append(execute(_rand_case(rnd, alpha[:-2], j), alpha))
    return out


# ---------------------------------------------------------------------------
# judging

KEYS = ('id', 'ops', 'gnu', 'fin', 'rets', 'obs')
WHOLE = {'LenMoreThanEagerLength', 'ReversedRaised'}


def signature(c: T.Dict[str, T.Any], v: T.Dict[str, T.Any], alpha: T.List[T.Dict[str, T.Any]]) -> str:
    """clause + the abstract history up to the failing step (arguments by kind letters)."""
    if v['clause'] in WHOLE:
        return v['clause']
    upto = min(v.get('step') or len(c['ops']), len(c['ops']))
    hist = []
    for op in c['ops'][:upto]:
        hist.append(f"{op['k']}{op['o']}[" + ','.join(letters(alpha[j - 1]) for j in op['b']) + ']' +
                    (str(op['i']) if op['k'] == 'insert' else ''))
    return f"{v['clause']}@gnu{c['gnu']}fin{c['fin']}:" + ';'.join(hist)


def judge(chk: Check, cases: T.List[T.Dict[str, T.Any]], alpha: T.List[T.Dict[str, T.Any]], label: str) -> None:
    by_id = {c['id']: c for c in cases}
    with scratch('c13-') as d:
        tf = d / 'cases.json'
        with tf.open('w') as f:
            json.dump({'alpha': alpha, 'cases': [{k: c[k] for k in KEYS} for c in cases]}, f, separators=(',', ':'))
        res = run_tlc(SPECS / 'arglist', 'TraceArgList', env={'TRACE_FILE': str(tf)}, timeout=3000)
        bad = res.json_lines()
        if not res.clean:
            raise MachineryError('TraceArgList did not complete cleanly:\n' + res.stdout[-1500:])
        if res.distinct != 2 * len(cases):
            raise MachineryError(f'TraceArgList judged {res.distinct // 2} of {len(cases)} cases')
        if bad:
            # single-threaded re-run of the rejected cases only, so that report lines do not interleave
            ids = {v.get('id') for v in bad if isinstance(v, dict)}
            sub = [c for c in cases if c['id'] in ids] or cases
            with tf.open('w') as f:
                json.dump({'alpha': alpha, 'cases': [{k: c[k] for k in KEYS} for c in sub]}, f, separators=(',', ':'))
            res1 = run_tlc(SPECS / 'arglist', 'TraceArgList', env={'TRACE_FILE': str(tf)}, timeout=3000, workers=1)
            bad1 = res1.json_lines()
            if len(bad1) < len(ids):
                # interleaving hid an id in the parallel run: judge everything single-threaded
                with tf.open('w') as f:
                    json.dump({'alpha': alpha, 'cases': [{k: c[k] for k in KEYS} for c in cases]}, f, separators=(',', ':'))
                bad1 = run_tlc(SPECS / 'arglist', 'TraceArgList', env={'TRACE_FILE': str(tf)}, timeout=3000,
                               workers=1).json_lines()
            bad = bad1
    chk.add_tlc(f'TraceArgList[{label}]', res, model=False)
    chk.traces += len(cases)
    for v in bad:
        c = by_id.get(v['id'])
        if c is None:
            raise MachineryError('verdict for unknown case ' + repr(v))
        if v['clause'] == 'HarnessBadObject':
            raise MachineryError('harness generated an operation on a missing object: ' + repr(v))
        chk.violation(signature(c, v, alpha),
                      {'verdict': v, 'case': {k: c[k] for k in KEYS + ('vseed',)}, 'alpha': alpha, 'calls': c.get('calls'),
                       'text': c.get('text'),
                       'expected_text': [c['text'][j - 1] if 0 < j <= len(c['text']) else j for j in v.get('expected', [])]
                       if v['clause'] not in ('CallReturn', 'LenMoreThanEagerLength', 'ObjectCount') else v.get('expected'),
                       'got_text': [c['text'][j - 1] if 0 < j <= len(c['text']) else j for j in v.get('got', [])]
                       if v['clause'] not in ('CallReturn', 'LenMoreThanEagerLength', 'ObjectCount') else v.get('got')})


def _account(chk: Check, cases: T.List[T.Dict[str, T.Any]], alpha: T.List[T.Dict[str, T.Any]]) -> None:
    chk.evaluations += len(cases)
    for c in cases:
        # non-trivial: some += met an argument it had to override or drop (an argument of a de-dupable kind
        # occurs at least twice in the history) and at least one operation followed an unread +=
        seen: T.Set[int] = set()
        rep = False
        for op in c['ops']:
            for j in op['b']:
                if j in seen and alpha[j - 1]['d'] != 'none':
                    rep = True
                seen.add(j)
        if rep and len(c['ops']) >= 2:
            chk.nontriv(';'.join(f"{op['k']}{op['o']}{op['b']}{op['i']}" for op in c['ops']) + f"g{c['gnu']}")
    for c in cases[:: max(1, len(cases) // 2)][:2]:
        chk.sample({'id': c['id'], 'calls': c['calls'], 'returned': c['rets'], 'final': c['obs'], 'text': c['text']}, limit=8)


# ---------------------------------------------------------------------------

def mc_cfg(argsel: T.Iterable[int], onesel: T.Iterable[int], maxbatch: int, maxdepth: int, maxobjs: int,
           kinds: T.Iterable[str], gnu: bool, invariants: T.Iterable[str], extra: str = '') -> str:
    return ('SPECIFICATION Spec\nCONSTANTS\n ArgSel = {%s}\n OneSel = {%s}\n MaxBatch = %d\n MaxDepth = %d\n MaxObjs = %d\n'
            ' OpKinds = {%s}\n Gnu = %s\n%s%sCHECK_DEADLOCK FALSE\n' % (
                ', '.join(map(str, argsel)), ', '.join(map(str, onesel)), maxbatch, maxdepth, maxobjs,
                ', '.join('"%s"' % k for k in kinds), 'TRUE' if gnu else 'FALSE', extra,
                ''.join('INVARIANT %s\n' % i for i in invariants)))


ALL_KINDS = ['iadd', 'xdirect', 'insert', 'remove', 'read', 'rev', 'len', 'native', 'new', 'copy', 'add', 'radd']
LAWS = ['InvNothingInventedOrLost', 'InvNoDedupOrderAndMultiplicityKept', 'InvLaterSettingWins', 'InvReaddIdempotent',
        'InvDirectIsPlainAppend', 'InvNativeShape']
REFINE = ['LazyRefinesEager', 'QueuesWellFormed', 'FlushIdempotent']


def main(chk: Check) -> None:
    quick = chk.tier == 'quick'
    chk.rule = ('A: every operation sequence of the bounded spaces exported by the TLC refinement run (wide: 5 argument '
                'kinds, batches <= 2, all operations, 2 objects; deep: 4 kinds, batches <= 1, fewer operations; native: '
                'library/-isystem kinds), each with a seeded choice of spelling and call form; B: seeded random histories of '
                '2-40 operations on up to 4 objects over 36 concrete arguments. Non-trivial = an argument of a de-dupable '
                'kind is mentioned at least twice in a history of >= 2 operations (distinct abstract histories).')
    # 1. the eager rule book and its laws
    if quick:
        law_cfg = mc_cfg([1, 2, 3, 4, 5, 7], [1], 2, 1, 1, ['iadd'], True, LAWS, ' MaxList = 3\n')
    else:
        law_cfg = mc_cfg([1, 2, 3, 4, 5, 6, 7, 9, 10, 11], [1], 2, 1, 1, ['iadd'], True, LAWS, ' MaxList = 3\n')
    res = run_tlc(SPECS / 'arglist', 'ArgList_MC', cfg_text=law_cfg, timeout=3000, allow_violation=False)
    chk.add_tlc('ArgList_MC[laws]', res)

    # 2. refinement lazy => eager on the spaces that are then replayed on the implementation
    spaces = [
        # label, argsel, onesel, maxbatch, model depth, impl depth, maxobjs, kinds, gnu
        ('wide', [1, 2, 3, 4, 5], [1, 3, 5], 2, 3, 2 if quick else 3, 2, ALL_KINDS, True),
        ('deep', [1, 3, 4, 5], [3], 1, 5 if quick else 6, 4 if quick else 5, 2,
         ['iadd', 'xdirect', 'insert', 'read', 'len', 'copy', 'add'], False),
        ('native', [4, 6, 9, 10, 11, 12], [10], 2 if not quick else 1, 3, 3, 1, ['iadd', 'xdirect', 'insert', 'native'], True),
    ]
    with ProcessPoolExecutor(max_workers=common.NCPU) as ex:
        for label, argsel, onesel, mb, mdepth, idepth, mo, kinds, gnu in spaces:
            cfg = mc_cfg(argsel, onesel, mb, mdepth, mo, kinds, gnu, REFINE, 'POSTCONDITION EmitSpace\n')
            res = run_tlc(SPECS / 'arglist', 'ArgListLazy_MC', cfg_text=cfg, collect=['space.json'], timeout=3000,
                          allow_violation=False)
            chk.add_tlc(f'ArgListLazy_MC[{label},depth<={mdepth}]', res)
            space = json.loads(res.collected['space.json'])
            alpha = space['alpha'] + MARKERS
            chk.extra.setdefault('spaces', {})[label] = {
                'operations_with_n_objects': [len(x) for x in space['ops']], 'model_depth': mdepth, 'impl_depth': idepth}
            # (A) all sequences of length 0..idepth
            for depth in range(0, idepth + 1):
                if depth == 0:
                    prefixes: T.List[T.List[int]] = [[]]
                elif depth == 1:
                    prefixes = [[j] for j in range(len(space['ops'][0]))]
                else:
                    prefixes = []
                    for j, op in enumerate(space['ops'][0]):
                        n2 = 2 if op['k'] in ('new', 'copy', 'add', 'radd') else 1
                        n2 = min(n2, len(space['ops']))
                        prefixes += [[j, j2] for j2 in range(len(space['ops'][n2 - 1]))]
                jobs = [(f'A-{label}', space, depth, p, int(gnu), chk.seed) for p in prefixes]
                cases: T.List[T.Dict[str, T.Any]] = []
                part_no = 0
                for part in ex.map(_worker_enum, jobs, chunksize=max(1, len(jobs) // (common.NCPU * 8))):
                    cases.extend(part)
                    if len(cases) >= 120000:
                        _account(chk, cases, alpha)
                        judge(chk, cases, alpha, f'A-{label}-{depth}#{part_no}')
                        part_no += 1
                        cases = []
                if cases:
                    _account(chk, cases, alpha)
                    judge(chk, cases, alpha, f'A-{label}-{depth}#{part_no}')
        # (B) random histories
        n_rand = 4000 if quick else 120000
        step = max(1, n_rand // (common.NCPU * 4))
        alpha = big_alpha() + MARKERS
        cases = []
        for part in ex.map(_worker_rand, [(lo, min(n_rand, lo + step), chk.seed) for lo in range(0, n_rand, step)]):
            cases.extend(part)
            if len(cases) >= 40000:
                _account(chk, cases, alpha)
                judge(chk, cases, alpha, 'B')
                cases = []
        if cases:
            _account(chk, cases, alpha)
            judge(chk, cases, alpha, 'B')
    chk.extra['random_histories'] = n_rand
    chk.extra['concrete_argument_table'] = len(alpha) - 2
    # (C) real command lines
    from . import c13_projects
    c13_projects.run(chk, judge)
    chk.exhaustive = True
    chk.assumptions += [
        'arguments are classified by the documented tables only (-I/-L prepend+override; -D/-U/-isystem append+override; '
        '-l*, library files, -pthread/-pipe/-c/... once-only); other argument spellings are "never de-duplicated"',
        'to_native() without copy=True is only used as the last operation on an object (as meson does); whether it '
        'leaves the markers in the object is not part of the statement and is not observed',
        'the stub compiler translates nothing (unix_args_to_native is the identity) and reports three default include '
        'directories; MSVC-style translation is outside the statement',
        '__setitem__/__delitem__ with indices and slices are not generated (remove() covers deletion)',
    ]


def replay(chk: Check, data: T.Dict[str, T.Any]) -> None:
    common.use_repo_meson()
    det = data['detail']
    if 'case' not in det:
        from . import c13_projects
        c13_projects.replay(chk, det, judge)
        return
    case = dict(det['case'])
    case = execute(case, det['alpha'])
    judge(chk, [case], det['alpha'], 'replay')


if __name__ == '__main__':
    sys.exit(common.run_check(main, PROP, replay=replay))
