"""C13 - compiler argument lists honour the append/override/dedup contract.

0. TLC model-checks ``ArgListClassify_MC``: how a list class classifies an argument TEXT when
   several rules of its tables match at once (``-DSUFFIX=.so``: override-type prefix and library
   suffix; ``-Idir.a``; ``-L/x/liby.so.1``; ``-l:libfoo.a``; a bare ``-D``): precedence
   bare > override prefix > once-only name/prefix/suffix/pattern > rest, prepending by the prefix
   alone; laws over every class x shape.  The exported table (class, shape) -> kind gives the kind
   of every concrete text used below (``arglist_shapes``): texts matched by several rules are
   spellings of every kind in all parts, for all three list classes.
1. TLC model-checks specs/arglist: ``ArgList_MC`` (the eager rule book satisfies the
   three laws of the statement for every list x batch), ``ArgListLazy_MC`` (the lazy
   container + pre/post queues + flush design refines the eager meaning under the
   mapping Flush, for every operation sequence of the bounded space; exports the space).
2. (A) every operation sequence of that space (read back from the TLC run) is executed
   on real ``CLikeCompilerArgs`` objects built with a stub compiler; what each call
   returned and the final content of every live object are judged by ``TraceArgList``
   (TLC, eager rule book).  Objects are observed only at the end of a sequence (every
   prefix is a sequence of its own), so pending queues are never disturbed by the observer.
3. (B) seeded random histories (up to 40 operations, 4 objects, batches up to 6) over a
   larger table of concrete arguments, judged by the same trace spec.
4. (C) compile/link command lines of generated C projects with duplicated settings at
   global / project / target / dependency level (``meson setup`` with the ninja stub):
   the documented assembly order is replayed as a history and judged by the same spec.
"""
from __future__ import annotations

import itertools
import json
import random
import sys
import typing as T
from concurrent.futures import ProcessPoolExecutor

import os
import time

from . import common
from .common import Check, MachineryError, SPECS, run_tlc, scratch

PROP = 'C13'
_T0 = time.time()


def dbg(msg: str) -> None:
    if os.environ.get('VERIF_DEBUG'):
        print(f'[{time.time() - _T0:7.1f}s] {msg}', file=sys.stderr, flush=True)

from . import arglist_shapes
from .arglist_shapes import DEFAULT_DIRS

START, END = '-Wl,--start-group', '-Wl,--end-group'

# ---------------------------------------------------------------------------
# rendering: abstract argument kind -> concrete spellings.  The texts and their shapes are in arglist_shapes; which
# kind a shape is - also when several classification rules match it - is read from the rule book
# (ArgListClassify, exported by TLC).  Every template yields a different text for a different id; templates of
# different kinds never collide.

Kind = T.Tuple[int, str, int, int, int]          # p, d, g, s, ab


def kind_of(a: T.Dict[str, T.Any]) -> Kind:
    return (a['p'], a['d'], a['g'], a['s'], a['ab'])


def spell(a: T.Dict[str, T.Any], variant: int) -> str:
    forms = arglist_shapes.spell_table()[kind_of(a)]
    t = forms[variant % len(forms)]
    i = a['id']
    if isinstance(t, list):
        return t[i % len(t)]
    return t.format(i=i, D=DEFAULT_DIRS[i % len(DEFAULT_DIRS)])


def max_id(kind: Kind) -> int:
    """ids 0..max_id-1 give distinct texts for every variant of the kind."""
    m = 99
    for t in arglist_shapes.spell_table()[kind]:
        if isinstance(t, list):
            m = min(m, len(t))
        elif '{i}' in t:
            continue
        elif '{D}' in t:
            m = min(m, len(DEFAULT_DIRS))
        else:
            m = 1
    return m


def rec(kind: Kind, i: int) -> T.Dict[str, T.Any]:
    return {'p': kind[0], 'd': kind[1], 'g': kind[2], 's': kind[3], 'ab': kind[4], 'm': 0, 'id': i}


MARKERS = [{'p': 0, 'd': 'none', 'g': 0, 's': 0, 'ab': 0, 'm': 1, 'id': 0},
           {'p': 0, 'd': 'none', 'g': 0, 's': 0, 'ab': 0, 'm': 2, 'id': 0}]


def letters(a: T.Dict[str, T.Any]) -> str:
    if a.get('m'):
        return {1: '<start>', 2: '<end>'}.get(a['m'], '<alien>')
    return f"{'P' if a['p'] else 'A'}{a['d'][0]}{'g' if a['g'] else ''}{'s%d' % a['s'] if a['s'] else ''}" \
           f"{'/' if a['ab'] else ''}{a['id']}"


# ---------------------------------------------------------------------------
# driving the real class

_STUBS: T.Dict[bool, T.Any] = {}


def stub_compiler(gnu: bool) -> T.Any:
    """A Compiler object that is never executed: only what CompilerArgs touches."""
    if gnu in _STUBS:
        return _STUBS[gnu]
    from mesonbuild.compilers import compilers
    from mesonbuild.linkers.linkers import GnuLikeDynamicLinkerMixin

    class StubLinker:
        pass

    class StubGnuLinker(GnuLikeDynamicLinkerMixin):
        def __init__(self) -> None:   # the real constructor wants an executable
            pass

    class StubCompiler(compilers.Compiler):
        language = 'c'
        id = 'stub'

        def __init__(self, linker: T.Any) -> None:
            self.linker = linker

        def get_default_include_dirs(self) -> T.List[str]:
            return list(DEFAULT_DIRS)

        def unix_args_to_native(self, args: T.List[str]) -> T.List[str]:
            return args.copy()

        def __repr__(self) -> str:
            return '<stub compiler>'

    StubCompiler.__abstractmethods__ = frozenset()
    _STUBS[gnu] = StubCompiler(StubGnuLinker() if gnu else StubLinker())
    return _STUBS[gnu]


def execute(case: T.Dict[str, T.Any], alpha: T.List[T.Dict[str, T.Any]], verbose: bool = False) -> T.Dict[str, T.Any]:
    """Run one history on real objects.  ``case`` has ops (arguments as 1-based indices into alpha), g (gnu), f (fin),
    vseed.  Adds r (what every call returned) and o (final observation of every object); with ``verbose`` also the
    concrete calls and the argument texts."""
    from mesonbuild.compilers.mixins.clike import CLikeCompilerArgs as CA
    rnd = random.Random(case['vseed'])
    variant = [rnd.randrange(64) for _ in alpha]
    text = [spell(a, variant[j]) if not a['m'] else (START if a['m'] == 1 else END) for j, a in enumerate(alpha)]
    back = {t: j + 1 for j, t in enumerate(text)}
    if len(back) != len(text):
        raise MachineryError('rendering is not injective: ' + repr(text))

    def idx(xs: T.Any) -> T.List[int]:
        return [back.get(x, 0) for x in xs]

    comp = stub_compiler(bool(case['g']))
    objs = [CA(comp)]
    rets: T.List[T.List[int]] = []
    calls: T.List[str] = []
    for op in case['ops']:
        k = op['k']
        b = [text[j - 1] for j in op['b']]
        n = op['o']
        o = objs[n - 1]
        v = rnd.randrange(6)
        ret: T.List[int] = []
        call = k
        try:
            if k == 'iadd':
                if len(b) == 1 and v == 0:
                    call = f'o{n}.append({b[0]!r})'
                    o.append(b[0])
                elif v == 1:
                    call = f'o{n}.extend({b!r})'
                    o.extend(b)
                elif v == 2:
                    call = f'o{n}.extend(x for x in {b!r})'
                    o.extend(x for x in b)
                elif v == 3:
                    call = f'o{n} += tuple({b!r})'
                    o += tuple(b)
                elif v == 4:
                    call = f'o{n} += CLikeCompilerArgs(c, {b!r})'
                    o += CA(comp, b)
                else:
                    call = f'o{n} += {b!r}'
                    o += b
            elif k == 'xdirect':
                if v < 3:
                    call = f'o{n}.extend_direct({b!r})'
                    o.extend_direct(b)
                else:
                    call = f'for x in {b!r}: o{n}.append_direct(x)'
                    for x in b:
                        o.append_direct(x)
            elif k == 'insert':
                call = f'o{n}.insert({op["i"]}, {b[0]!r})'
                o.insert(op['i'], b[0])
            elif k == 'remove':
                call = f'o{n}.remove({b[0]!r})'
                try:
                    o.remove(b[0])
                    ret = [1]
                except ValueError:
                    ret = [0]
            elif k == 'new':
                if v == 0:
                    call = f'o{len(objs) + 1} = CLikeCompilerArgs(c, CLikeCompilerArgs(c, {b!r}))'
                    objs.append(CA(comp, CA(comp, b)))
                elif v == 1:
                    call = f'o{len(objs) + 1} = CLikeCompilerArgs(c, tuple({b!r}))'
                    objs.append(CA(comp, tuple(b)))
                else:
                    call = f'o{len(objs) + 1} = CLikeCompilerArgs(c, {b!r})'
                    objs.append(CA(comp, b))
            elif k == 'copy':
                call = f'o{len(objs) + 1} = o{n}.copy()'
                objs.append(o.copy())
            elif k == 'add':
                call = f'o{len(objs) + 1} = o{n} + {b!r}'
                objs.append(o + (b if v < 4 else tuple(b)))
            elif k == 'radd':
                call = f'o{len(objs) + 1} = {b!r} + o{n}'
                objs.append(b + o)
            elif k == 'read':
                if v == 0:
                    call = f'[x for x in o{n}]'
                    got = [x for x in o]
                elif v == 1:
                    call = f'o{n}[:]'
                    got = o[:]
                elif v == 2:
                    call = f'o{n} == ["zzz"]; list(o{n})'
                    _ = (o == ['zzz'])
                    got = list(o)
                elif v == 3:
                    call = f'repr(o{n}); list(o{n})'
                    _ = repr(o)
                    got = list(o)
                else:
                    call = f'list(o{n})'
                    got = list(o)
                ret = idx(got)
            elif k == 'rev':
                call = f'list(reversed(o{n}))'
                ret = idx(list(reversed(o)))
            elif k == 'native':
                call = f'o{n}.to_native(copy=True)'
                ret = idx(o.to_native(copy=True))
            elif k == 'len':
                call = f'len(o{n})'
                ret = [len(o)]
            else:
                raise MachineryError('unknown operation ' + k)
        except MachineryError:
            raise
        except Exception as e:  # the statement knows no failing operation
            call += f'  -> raised {type(e).__name__}: {e}'
            ret = [-1]
        rets.append(ret)
        if verbose:
            calls.append(call)
    obs = []
    for o in objs:
        try:
            if case['f'] == 0:
                l1 = idx(list(o))
                nat = idx(o.to_native(copy=True))
                obs.append([l1, nat, idx(list(o))])
            else:
                obs.append([[], idx(o.to_native()), []])
        except Exception:
            obs.append([[-1], [-1], [-1]])
    case['r'] = rets
    case['o'] = obs
    if verbose:
        case['calls'] = calls
        case['text'] = text
    return case


# ---------------------------------------------------------------------------
# (A) exhaustive enumeration of the model's operation space

CREATORS = ('new', 'copy', 'add', 'radd')


def _seqs(ops: T.List[T.List[T.Dict[str, T.Any]]], depth: int, prefix: T.List[int], nobj: int) -> T.Iterator[T.List[int]]:
    """all index sequences of exactly `depth` more operations; ops[n-1] = operations with n live objects."""
    if depth == 0:
        yield prefix
        return
    table = ops[nobj - 1]
    for j, op in enumerate(table):
        yield from _seqs(ops, depth - 1, prefix + [j], nobj + (1 if op['k'] in CREATORS else 0))


def path_ops(ops: T.List[T.List[T.Dict[str, T.Any]]], s: T.Sequence[int]) -> T.List[T.Dict[str, T.Any]]:
    n = 1
    out = []
    for j in s:
        op = ops[n - 1][j]
        out.append(op)
        if op['k'] in CREATORS:
            n += 1
    return out


def enum_case(space: T.Dict[str, T.Any], s: T.Sequence[int], gnu: int, sd: int) -> T.Dict[str, T.Any]:
    h = 0
    for j in s:
        h = (h * 1009 + j + 1) % 2147483647
    return {'s': [j + 1 for j in s], 'ops': path_ops(space['ops'], s), 'g': gnu, 'f': (h + sd) % 2, 'vseed': sd * 1000003 + h}


def _worker_enum(args: T.Tuple[T.Dict[str, T.Any], int, T.List[int], int, int]) -> T.List[T.Dict[str, T.Any]]:
    space, depth, first, gnu, sd = args
    common.use_repo_meson()
    alpha = space['alpha'] + MARKERS
    ops = space['ops']
    out = []
    nobj = 1 + sum(1 for op in path_ops(ops, first) if op['k'] in CREATORS)
    for s in _seqs(ops, depth - len(first), list(first), nobj):
        c = execute(enum_case(space, s, gnu, sd), alpha)
        del c['ops']        # the path `s` names them
        out.append(c)
    return out


# ---------------------------------------------------------------------------
# (B) random histories over a larger argument table

def big_alpha() -> T.List[T.Dict[str, T.Any]]:
    alpha = []
    for kind in arglist_shapes.spell_table():
        for i in range(min(3, max_id(kind))):
            alpha.append(rec(kind, i))
    return alpha


def _rand_case(rnd: random.Random, alpha: T.List[T.Dict[str, T.Any]]) -> T.Dict[str, T.Any]:
    n = len(alpha)
    # a history concentrates on a few arguments so that repeats are frequent
    pool = [rnd.randrange(1, n + 1) for _ in range(rnd.randint(3, 12))]

    def batch(lo: int = 0) -> T.List[int]:
        return [rnd.choice(pool) for _ in range(rnd.randint(lo, rnd.choice([1, 2, 3, 6])))]

    ops = []
    nobj = 1
    for _ in range(rnd.randint(2, 40)):
        r = rnd.random()
        o = rnd.randint(1, nobj)
        if r < 0.45:
            ops.append({'k': 'iadd', 'o': o, 'b': batch(), 'i': 0})
        elif r < 0.55:
            ops.append({'k': 'xdirect', 'o': o, 'b': batch(), 'i': 0})
        elif r < 0.60:
            ops.append({'k': 'insert', 'o': o, 'b': batch(1)[:1], 'i': rnd.choice([0, 0, 1, 2, -1, -2, 99]), })
        elif r < 0.63:
            ops.append({'k': 'remove', 'o': o, 'b': batch(1)[:1], 'i': 0})
        elif r < 0.75:
            ops.append({'k': rnd.choice(['read', 'read', 'read', 'rev', 'len', 'native']), 'o': o, 'b': [], 'i': 0})
        elif nobj < 4:
            k = rnd.choice(['copy', 'copy', 'add', 'radd', 'new'])
            ops.append({'k': k, 'o': o if k != 'new' else 1, 'b': batch() if k != 'copy' else [], 'i': 0})
            nobj += 1
        else:
            ops.append({'k': 'iadd', 'o': o, 'b': batch(), 'i': 0})
    return {'ops': ops, 'g': rnd.randint(0, 1), 'f': rnd.randint(0, 1), 'vseed': rnd.randrange(1 << 30)}


def _worker_rand(args: T.Tuple[int, int, int]) -> T.List[T.Dict[str, T.Any]]:
    lo, hi, sd = args
    common.use_repo_meson()
    alpha = big_alpha() + MARKERS
    out = []
    for j in range(lo, hi):
        rnd = random.Random(sd * 7919 + j)
        out.append(execute(_rand_case(rnd, alpha[:-2]), alpha))
    return out


# ---------------------------------------------------------------------------
# judging

WHOLE = {'LenMoreThanEagerLength', 'ReversedRaised'}
INT_CLAUSES = ('CallReturn', 'LenMoreThanEagerLength', 'ObjectCount')


def multi_marks(c: T.Dict[str, T.Any], alpha: T.List[T.Dict[str, T.Any]]) -> T.Set[int]:
    """the (1-based) arguments of the table that this case spells with a text matched by several classification rules"""
    if 'project' in c:
        from . import arglist_projects
        return {j + 1 for j, (_, sh) in enumerate(arglist_projects.POOL) if arglist_shapes.multi_rule(sh)}
    rnd = random.Random(c['vseed'])
    variant = [rnd.randrange(64) for _ in alpha]
    out = set()
    for j, a in enumerate(alpha):
        if not a['m']:
            forms = arglist_shapes.spell_table()[kind_of(a)]
            t = forms[variant[j] % len(forms)]
            if isinstance(t, str) and t in arglist_shapes.MULTI_TEXTS:
                out.add(j + 1)
    return out


def signature(c: T.Dict[str, T.Any], v: T.Dict[str, T.Any], alpha: T.List[T.Dict[str, T.Any]]) -> str:
    """clause + the abstract history up to the failing step (arguments by kind letters; * = spelled with a text
    that several classification rules match, e.g. an override-type prefix and a library suffix)."""
    if v['clause'] in WHOLE:
        return v['clause']
    upto = min(v.get('step') or len(c['ops']), len(c['ops']))
    marks = multi_marks(c, alpha)
    hist = []
    for op in c['ops'][:upto]:
        hist.append(f"{op['k']}{op['o']}[" + ','.join(letters(alpha[j - 1]) + ('*' if j in marks else '') for j in op['b']) + ']' +
                    (str(op['i']) if op['k'] == 'insert' else ''))
    return f"{v['clause']}@gnu{c['g']}fin{c['f']}:" + ';'.join(hist)


def alpha_text(alpha: T.List[T.Dict[str, T.Any]], j: int) -> str:
    from . import arglist_projects
    return arglist_projects.POOL[j - 1][0] if 0 < j <= len(arglist_projects.POOL) else f'<{j}>'


def _tlc_part(payload: str, workers: T.Union[int, str]) -> common.TLCResult:
    with scratch('c13-') as d:
        tf = d / 'cases.json'
        tf.write_text(payload)
        return run_tlc(SPECS / 'arglist', 'TraceArgList', env={'TRACE_FILE': str(tf)}, timeout=3000, workers=workers,
                       heap='4g')


def judge(chk: Check, cases: T.List[T.Dict[str, T.Any]], alpha: T.List[T.Dict[str, T.Any]], label: str,
          space: T.Optional[T.Dict[str, T.Any]] = None) -> None:
    """TLC (TraceArgList) accepts or rejects every case.  The batch is split over a few TLC processes because
    reading the JSON is the single-threaded part of a run."""
    from concurrent.futures import ThreadPoolExecutor
    keys = ('id', 's', 'g', 'f', 'r', 'o') if space is not None else ('id', 'ops', 'g', 'f', 'r', 'o')
    for n, c in enumerate(cases):
        c['id'] = n
    head = {'alpha': alpha, 'ops': space['ops'] if space is not None else []}

    def payload(part: T.Sequence[T.Dict[str, T.Any]]) -> str:
        return json.dumps({**head, 'cases': [{k: c[k] for k in keys} for c in part]}, separators=(',', ':'))

    nparts = max(1, min(4, len(cases) // 4000))
    size = (len(cases) + nparts - 1) // nparts
    parts = [cases[j:j + size] for j in range(0, len(cases), size)]
    t0 = time.time()
    with ThreadPoolExecutor(max_workers=nparts) as tp:
        results = list(tp.map(lambda p: _tlc_part(payload(p), max(2, common.NCPU // nparts)), parts))
    bad: T.List[T.Dict[str, T.Any]] = []
    for part, res in zip(parts, results):
        if not res.clean:
            raise MachineryError('TraceArgList did not complete cleanly:\n' + res.stdout[-1500:])
        if res.distinct != 2 * len(part):
            raise MachineryError(f'TraceArgList judged {res.distinct // 2} of {len(part)} cases')
        chk.add_tlc(f'TraceArgList[{label}]', res, model=False)
        got = res.json_lines()
        # every verdict is one println of one string; should a line ever be torn, judge the part again single-threaded
        printed = sum(1 for ln in res.stdout.splitlines() if ln.startswith('"'))
        if printed != len(got) or any(not isinstance(v, list) for v in got):
            got = _tlc_part(payload(part), 1).json_lines()
        for vs in got:
            bad += vs
    chk.traces += len(cases)
    dbg(f'judge {label} {len(cases)} cases {time.time() - t0:.1f}s rejected={len(bad)}')
    seen: T.Set[str] = set()
    for v in bad:
        c = cases[v['id']]
        if v['clause'] == 'HarnessBadObject':
            raise MachineryError('harness generated an operation on a missing object: ' + repr(v))
        full = dict(c)
        if 'ops' not in full:
            full['ops'] = path_ops(space['ops'], [j - 1 for j in c['s']])   # type: ignore[index]
        sig = signature(full, v, alpha)
        if sig in seen:
            continue
        seen.add(sig)
        if 'project' in c:
            chk.violation('CommandLine:' + sig, {'verdict': v, 'project': c['project'], 'target': c['target'], 'ARGS': c['args'],
                                                 'expected_text': [alpha_text(alpha, j) for j in v.get('expected', [])]})
            continue
        common.use_repo_meson()
        ver = execute({k: full[k] for k in ('ops', 'g', 'f', 'vseed')}, alpha, verbose=True)
        text = ver['text']

        def names(xs: T.Any) -> T.Any:
            return [text[j - 1] if 0 < j <= len(text) else f'<{j}>' for j in xs]
        chk.violation(sig, {'verdict': v, 'case': {k: full[k] for k in ('ops', 'g', 'f', 'vseed')}, 'alpha': alpha,
                            'calls': ver['calls'], 'returned': ver['r'], 'final': ver['o'], 'text': text,
                            'expected_text': v.get('expected') if v['clause'] in INT_CLAUSES else names(v.get('expected', [])),
                            'got_text': v.get('got') if v['clause'] in INT_CLAUSES else names(v.get('got', []))})
    arglist_shapes.fail_fast(chk)


def _account(chk: Check, cases: T.List[T.Dict[str, T.Any]], alpha: T.List[T.Dict[str, T.Any]],
             space: T.Optional[T.Dict[str, T.Any]] = None) -> None:
    chk.evaluations += len(cases)
    for c in cases:
        # non-trivial: an argument of a de-dupable kind is mentioned at least twice in a history of >= 2 operations
        ops = c['ops'] if 'ops' in c else path_ops(space['ops'], [j - 1 for j in c['s']])   # type: ignore[index]
        seen: T.Set[int] = set()
        rep = False
        for op in ops:
            for j in op['b']:
                if j in seen and alpha[j - 1]['d'] != 'none':
                    rep = True
                seen.add(j)
        if rep and len(ops) >= 2:
            chk.nontriv(';'.join(f"{op['k']}{op['o']}{op['b']}{op['i']}" for op in ops) + f"g{c['g']}")
        # how many histories mention an argument spelled with a text that several classification rules match
        marks = multi_marks({'vseed': c['vseed']}, alpha)
        if marks and any(j in marks for op in ops for j in op['b']):
            chk.extra['histories_with_multi_rule_texts'] = chk.extra.get('histories_with_multi_rule_texts', 0) + 1
            if rep:
                chk.extra['histories_repeating_a_multi_rule_text'] = chk.extra.get('histories_repeating_a_multi_rule_text', 0) + \
                    (1 if any(j in marks and sum(op2['b'].count(j) for op2 in ops) >= 2 for op in ops for j in op['b']) else 0)
    common.use_repo_meson()
    for c in [cases[len(cases) // 3], cases[(2 * len(cases)) // 3]] if len(cases) >= 3 else cases[:1]:
        ops = c['ops'] if 'ops' in c else path_ops(space['ops'], [j - 1 for j in c['s']])   # type: ignore[index]
        ver = execute({'ops': ops, 'g': c['g'], 'f': c['f'], 'vseed': c['vseed']}, alpha, verbose=True)
        chk.sample({'calls': ver['calls'], 'returned': ver['r'], 'final': ver['o'], 'text': ver['text']}, limit=8)


# ---------------------------------------------------------------------------

def _noop(x: int) -> int:
    return x


def mc_cfg(argsel: T.Iterable[int], onesel: T.Iterable[int], maxbatch: int, maxdepth: int, maxobjs: int,
           kinds: T.Iterable[str], gnu: bool, invariants: T.Iterable[str], extra: str = '') -> str:
    return ('SPECIFICATION Spec\nCONSTANTS\n ArgSel = {%s}\n OneSel = {%s}\n MaxBatch = %d\n MaxDepth = %d\n MaxObjs = %d\n'
            ' OpKinds = {%s}\n Gnu = %s\n%s%sCHECK_DEADLOCK FALSE\n' % (
                ', '.join(map(str, argsel)), ', '.join(map(str, onesel)), maxbatch, maxdepth, maxobjs,
                ', '.join('"%s"' % k for k in kinds), 'TRUE' if gnu else 'FALSE', extra,
                ''.join('INVARIANT %s\n' % i for i in invariants)))


ALL_KINDS = ['iadd', 'xdirect', 'insert', 'remove', 'read', 'rev', 'len', 'native', 'new', 'copy', 'add', 'radd']
LAWS = ['InvNothingInventedOrLost', 'InvNoDedupOrderAndMultiplicityKept', 'InvLaterSettingWins', 'InvReaddIdempotent',
        'InvDirectIsPlainAppend', 'InvNativeShape', 'InvNativeSetHasNativeOf', 'InvSystemDirsRemovedExactly']
REFINE = ['LazyRefinesEager', 'QueuesWellFormed', 'FlushIdempotent']


_POOLS: T.List[T.Any] = []


def main(chk: Check) -> None:
    try:
        _main(chk)
    except arglist_shapes.FailFast:
        # only with VERIF_C13_FAIL_FAST: a violation has been reported; stop the model-checking runs of THIS process
        import signal
        import subprocess
        for pool in _POOLS:
            pool.shutdown(wait=False, cancel_futures=True)
        me = os.getpid()
        out = subprocess.run(['ps', '-o', 'pid=,args=', '--ppid', str(me)], stdout=subprocess.PIPE, text=True).stdout
        for ln in out.splitlines():
            pid, _, args = ln.strip().partition(' ')
            if 'tlc2.TLC' in args:
                try:
                    os.kill(int(pid), signal.SIGTERM)
                except OSError:
                    pass


def _main(chk: Check) -> None:
    quick = chk.tier == 'quick'
    # 0. the classification rule book: laws over every class x shape; its exported table gives the kind of every text
    arglist_shapes.load(chk)
    chk.rule = ('A: every operation sequence of the bounded spaces exported by the TLC refinement runs (wide: 5-6 argument '
                'kinds, batches <= 2, all operations, 2 objects; mid: 4 kinds, batches <= 1, += / direct / insert / read / len / '
                'copy / +; pend: only +=, read, copy but longer; native: libraries and -isystem of default directories with '
                'to_native), each with a seeded choice of spelling and call form; B: seeded random histories of 2-40 '
                f'operations on up to 4 objects over {len(big_alpha())} abstract arguments (x up to 7 spellings); C: compile '
                'statements of generated C projects. Non-trivial = an argument of a de-dupable kind is mentioned at least '
                'twice in a history of >= 2 operations (distinct abstract histories).')
    # 1. the eager rule book and its laws
    law_cfgs = [mc_cfg([1, 2, 3, 4, 5, 7], [1], 2, 1, 1, ['iadd'], True, LAWS, ' MaxList = 3\n')]
    # to_native: libraries, arguments of unspecified library status and the three spellings of -isystem <default dir>
    law_cfgs.append(mc_cfg([4, 9, 10, 11, 14], [1], 1, 1, 1, ['iadd'], True, LAWS, ' MaxList = %d\n' % (3 if quick else 4)))
    if not quick:   # a second table around libraries, absolute paths and -isystem of default directories
        law_cfgs.append(mc_cfg([3, 4, 5, 6, 9, 10, 11, 14], [1], 2, 1, 1, ['iadd'], True, LAWS, ' MaxList = 3\n'))
    # all model-checking runs are started now and go on in the background while the exported spaces are driven
    # through the implementation; their results are collected when needed
    from concurrent.futures import ThreadPoolExecutor
    # the worker processes are forked NOW, before any thread exists (a fork while another thread holds a lock can hang the child)
    ex = ProcessPoolExecutor(max_workers=common.NCPU)
    list(ex.map(_noop, range(common.NCPU * 2)))
    mc_pool = ThreadPoolExecutor(max_workers=3)
    _POOLS.append(mc_pool)
    half = max(2, common.NCPU // 2)
    def submit_law(law_cfg: str) -> T.Any:
        return mc_pool.submit(run_tlc, SPECS / 'arglist', 'ArgList_MC', cfg_text=law_cfg, timeout=3000, allow_violation=False, workers=half)
    law_runs = [submit_law(law_cfgs[0])]      # the big one now, the small ones behind the refinement runs

    # 2. refinement lazy => eager on the spaces that are then replayed on the implementation
    mid = ['iadd', 'xdirect', 'insert', 'read', 'len', 'copy', 'add']
    pend = ['iadd', 'read', 'copy']
    nat = ['iadd', 'xdirect', 'insert', 'native']
    # label, argsel, onesel, maxbatch, model depth, impl depth, maxobjs, kinds, gnu
    if quick:
        spaces = [
            ('wide', [1, 2, 3, 4, 5], [1, 3, 5], 2, 3, 2, 2, ALL_KINDS, True),
            ('mid', [1, 3, 4, 5], [3], 1, 4, 3, 2, mid, False),
            ('pend', [1, 3, 4, 5], [3], 1, 6, 5, 2, pend, False),
            ('native', [4, 6, 9, 10, 11, 12, 14], [10], 1, 3, 3, 1, nat, True),
        ]
    else:
        spaces = [
            ('wide', [1, 2, 3, 4, 5, 7], [1, 3, 5], 2, 3, 2, 2, ALL_KINDS, True),
            ('wide3', [1, 2, 3, 4], [1, 3], 2, 3, 3, 2, ALL_KINDS, False),
            ('mid', [1, 3, 4, 5], [3], 1, 5, 4, 2, mid, False),
            ('pend', [1, 3, 4, 5], [3], 1, 6, 6, 2, pend, True),
            ('native', [4, 6, 9, 10, 11, 12, 14], [10], 2, 3, 2, 1, nat, True),
            ('native1', [4, 6, 9, 10, 11, 12, 15, 16], [10], 1, 4, 4, 1, nat, True),
        ]
    refine_runs = {sp[0]: mc_pool.submit(run_tlc, SPECS / 'arglist', 'ArgListLazy_MC',
                                         cfg_text=mc_cfg(sp[1], sp[2], sp[3], sp[4], sp[6], sp[7], sp[8], REFINE, 'POSTCONDITION EmitSpace\n'),
                                         collect=['space.json'], timeout=3000, allow_violation=False, workers=half)
                   for sp in spaces}
    law_runs += [submit_law(c) for c in law_cfgs[1:]]
    # the biggest model (wide) was submitted first and is used last
    spaces = spaces[1:] + spaces[:1]
    with ex:
        for label, argsel, onesel, mb, mdepth, idepth, mo, kinds, gnu in spaces:
            res = refine_runs[label].result()
            chk.add_tlc(f'ArgListLazy_MC[{label},depth<={mdepth}]', res)
            dbg(f'refine {label} {res.distinct} states {res.wall:.1f}s')
            space = json.loads(res.collected['space.json'])
            alpha = space['alpha'] + MARKERS
            chk.extra.setdefault('spaces', {})[label] = {
                'operations_with_n_objects': [len(x) for x in space['ops']], 'model_depth': mdepth, 'impl_depth': idepth}
            # (A) all sequences of length 0..idepth
            cases: T.List[T.Dict[str, T.Any]] = []
            part_no = 0
            for depth in range(0, idepth + 1):
                if depth == 0:
                    prefixes: T.List[T.List[int]] = [[]]
                elif depth == 1:
                    prefixes = [[j] for j in range(len(space['ops'][0]))]
                else:
                    prefixes = []
                    for j, op in enumerate(space['ops'][0]):
                        n2 = min(2 if op['k'] in CREATORS else 1, len(space['ops']))
                        prefixes += [[j, j2] for j2 in range(len(space['ops'][n2 - 1]))]
                jobs = [(space, depth, p, int(gnu), chk.seed) for p in prefixes]
                for part in ex.map(_worker_enum, jobs, chunksize=max(1, len(jobs) // (common.NCPU * 8))):
                    cases.extend(part)
                    if len(cases) >= 200000:
                        _account(chk, cases, alpha, space)
                        judge(chk, cases, alpha, f'A-{label}<={depth}#{part_no}', space)
                        part_no += 1
                        cases = []
            if cases:
                _account(chk, cases, alpha, space)
                judge(chk, cases, alpha, f'A-{label}<={idepth}#{part_no}', space)
        # (B) random histories
        n_rand = 4000 if quick else 60000
        step = max(1, n_rand // (common.NCPU * 4))
        alpha = big_alpha() + MARKERS
        cases = []
        for part in ex.map(_worker_rand, [(lo, min(n_rand, lo + step), chk.seed) for lo in range(0, n_rand, step)]):
            cases.extend(part)
            if len(cases) >= 40000:
                _account(chk, cases, alpha)
                judge(chk, cases, alpha, 'B')
                cases = []
        if cases:
            _account(chk, cases, alpha)
            judge(chk, cases, alpha, 'B')
        # (D) lists of different classes side by side: ClassificationIsPerClass
        from . import arglist_classes
        arglist_classes.run(chk, ex, _tlc_part, dbg)
    for n, fut in enumerate(law_runs):
        res = fut.result()
        chk.add_tlc(f'ArgList_MC[laws#{n}]', res)
        dbg(f'laws#{n} {res.distinct} states {res.wall:.1f}s')
    mc_pool.shutdown(wait=True)
    chk.extra['random_histories'] = n_rand
    chk.extra['concrete_argument_table'] = len(alpha) - 2
    # (C) real command lines
    from . import arglist_projects
    arglist_projects.run(chk, judge)
    chk.exhaustive = True
    chk.assumptions += [
        'arguments are classified by the documented tables only (-I/-L prepend+override; -D/-U/-isystem append+override; '
        '-l*, library files, -pthread/-pipe/-c/... once-only); other argument spellings are "never de-duplicated"',
        'to_native() without copy=True is only used as the last operation on an object (as meson does); whether it '
        'leaves the markers in the object is not part of the statement and is not observed',
        'the stub compiler translates nothing (unix_args_to_native is the identity) and reports three default include '
        'directories; MSVC-style translation is outside the statement',
        '__setitem__/__delitem__ with indices and slices are not generated (remove() covers deletion)',
        'class tables: base CompilerArgs, CLikeCompilerArgs and DCompilerArgs as documented in their class attributes; '
        'this tree has no VisualStudio-like argument list class (MSVC-like compilers use CLikeCompilerArgs; texts such as '
        '/Iinc /DFOO /DEF:x.lib are in no table and are generated as such)',
        'a text matched by several classification rules is classified by ArgListClassify (bare prefix > override-type prefix > '
        'once-only name / prefix / library suffix / lib*.so.N pattern > rest); whether an OPTION whose value merely ends like a '
        'static or UNIX shared library file name (-DX=.so, -Idir.a, -Wl,-rpath,/x.a) counts as a library for '
        '--start-group/--end-group is not documented: both readings are accepted (ArgList!NativeSet)',
        'a prepended once-only text (only -L<file with a library suffix> under the D tables) is not given to D lists in the '
        'random histories: the implementation drops its repeat across batches but keeps a repeat inside one batch',
    ]


def replay(chk: Check, data: T.Dict[str, T.Any]) -> None:
    common.use_repo_meson()
    arglist_shapes.load()
    det = data['detail']
    if 'classes_case' in det:
        from . import arglist_classes
        arglist_classes.replay(chk, det, _tlc_part)
        return
    if 'case' not in det:
        from . import arglist_projects
        arglist_projects.replay(chk, det, judge)
        return
    case = execute(dict(det['case']), det['alpha'])
    judge(chk, [case], det['alpha'], 'replay')


if __name__ == '__main__':
    sys.exit(common.run_check(main, PROP, replay=replay))
