"""C13 part (C): placeholder, filled in below."""
def run(chk, judge):
    pass
def replay(chk, det, judge):
    pass
