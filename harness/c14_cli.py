"""C14: sample through the real command line (filled in below)."""
def run(chk, space, judge, account):
    pass
