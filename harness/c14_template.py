"""C14 - template substitution replaces exactly the placeholders and nothing else.

1. TLC model-checks specs/template/Template_MC: the substitution rule book (meson, cmake, cmake@
   scanners as RECURSIVE operators over code points, #mesondefine / #cmakedefine[01] lines, missing
   names, header dump) satisfies OtherBytesUntouched, NoRescan, ScanEqualsSegments,
   MissingAreUndefinedNamesOfTheTemplate, HeaderHasExactlyKeysSorted and reproduces the project's
   pinned cases, for every template of the bounded families x configuration x format.
2. (A) the same families (atom and configuration tables exported by the TLC run) through the real
   ``do_conf_file`` in-process, a sample through ``configure_file()`` with the CLI
   (``meson setup --backend=none``), judged by ``TraceTemplate`` (TLC).
3. (B) long random templates of placeholder-like fragments with random configurations; the header
   dump for random configurations; judged by the same trace spec.
"""
from __future__ import annotations

import contextlib
import io
import json
import os
import random
import re
import subprocess
import sys
import time
import typing as T
from concurrent.futures import ProcessPoolExecutor, ThreadPoolExecutor

from . import common
from .common import Check, MachineryError, SPECS, run_tlc, scratch

PROP = 'C14'
FORMATS = ['meson', 'cmake', 'cmake@']
_T0 = time.time()


def dbg(msg: str) -> None:
    if os.environ.get('VERIF_DEBUG'):
        print(f'[{time.time() - _T0:7.1f}s] {msg}', file=sys.stderr, flush=True)


def cps(s: str) -> T.List[int]:
    return [ord(ch) for ch in s]


def txt(xs: T.Iterable[int]) -> str:
    return ''.join(chr(x) for x in xs)


# ---------------------------------------------------------------------------
# driving the real code

def conf_values(conf: T.List[T.Dict[str, T.Any]]) -> T.Dict[str, T.Any]:
    out: T.Dict[str, T.Any] = {}
    for e in conf:
        k = txt(e['k'])
        if e['t'] == 's':
            out[k] = txt(e['s'])
        elif e['t'] == 'i':
            out[k] = int(e['n'])
        else:
            out[k] = bool(e['n'])
    return out


_WORKDIR: T.Optional[str] = None
_BASE: T.Optional[str] = None      # set in the parent (work_base) and inherited / passed to the pool workers


@contextlib.contextmanager
def work_base() -> T.Iterator[str]:
    """A directory for the two tiny files of every case (kept off the disk when /dev/shm exists); removed afterwards."""
    import shutil
    import tempfile
    global _BASE
    base = os.environ.get('VERIF_TMPDIR') or os.environ.get('TMPDIR') or '/tmp'
    if not os.environ.get('VERIF_TMPDIR') and os.path.isdir('/dev/shm') and os.access('/dev/shm', os.W_OK):
        base = '/dev/shm'
    d = tempfile.mkdtemp(prefix='c14w-', dir=base)
    _BASE = d
    try:
        yield d
    finally:
        _BASE = None
        shutil.rmtree(d, ignore_errors=True)


def _init_worker(base: str) -> None:
    global _BASE, _WORKDIR
    _BASE = base
    _WORKDIR = None


def _workdir() -> str:
    global _WORKDIR
    if _WORKDIR is None or not os.path.isdir(_WORKDIR):
        if _BASE is None:
            raise MachineryError('no work directory (work_base() not entered)')
        _WORKDIR = os.path.join(_BASE, f'p{os.getpid()}')
        os.makedirs(_WORKDIR, exist_ok=True)
    return _WORKDIR


def real_configure(text: str, values: T.Dict[str, T.Any], fmt: str) -> T.Tuple[int, T.List[int], T.List[T.List[int]]]:
    """The template through the real do_conf_file (file in, file out, bytes compared).  -> (e, output, missing)"""
    from mesonbuild import mesonlib, mlog
    from mesonbuild.build import ConfigurationData
    d = _workdir()
    src = os.path.join(d, 'in.txt')
    dst = os.path.join(d, 'out.txt')
    with open(src, 'wb') as f:
        f.write(text.encode('utf-8'))
    with contextlib.suppress(FileNotFoundError):
        os.unlink(dst)
    try:
        with mlog.no_logging():
            missing, _ = mesonlib.do_conf_file(src, dst, ConfigurationData(dict(values)), fmt)
    except mesonlib.MesonException:
        return 1, [], []
    except Exception:
        return 2, [], []
    with open(dst, 'rb') as f:
        out = f.read().decode('utf-8')
    return 0, cps(out), sorted(cps(m) for m in missing)


ENC_NAMES = [['utf-8', 'utf8', 'UTF-8'], ['iso-8859-1', 'latin-1', 'latin1'], ['iso-8859-15', 'latin9', 'iso8859-15'],
             ['cp1252', 'windows-1252'], ['utf-16-le', 'utf-16le'], ['utf-16']]


def enc_name(ei: int, pick: int = 0) -> str:
    names = ENC_NAMES[ei - 1]
    return names[pick % len(names)]


def real_configure_bytes(data: bytes, values: T.Dict[str, T.Any], fmt: str, encoding: str) -> T.Tuple[int, T.List[int], T.List[T.List[int]]]:
    """File level: template BYTES in, do_conf_file with the `encoding` argument, output BYTES out."""
    from mesonbuild import mesonlib, mlog
    from mesonbuild.build import ConfigurationData
    d = _workdir()
    src = os.path.join(d, 'inb.txt')
    dst = os.path.join(d, 'outb.txt')
    with open(src, 'wb') as f:
        f.write(data)
    for junk in (dst, dst + '~'):
        with contextlib.suppress(FileNotFoundError):
            os.unlink(junk)
    try:
        with mlog.no_logging():
            missing, _ = mesonlib.do_conf_file(src, dst, ConfigurationData(dict(values)), fmt, encoding)
    except mesonlib.MesonException:
        return 1, [], []
    except Exception:
        return 2, [], []
    with open(dst, 'rb') as f:
        out = f.read()
    return 0, list(out), sorted(cps(m) for m in missing)


def real_header(values: T.Dict[str, T.Any]) -> T.List[T.Dict[str, T.Any]]:
    """dump_conf_header -> the directives of the file in order (projection: #define / #undef lines)."""
    from mesonbuild import mesonlib
    from mesonbuild.build import ConfigurationData
    dst = os.path.join(_workdir(), 'hdr.h')
    mesonlib.dump_conf_header(dst, ConfigurationData(dict(values)), 'c', None)
    with open(dst, 'rb') as f:
        return project_header(f.read().decode('utf-8'))


def project_header(content: str) -> T.List[T.Dict[str, T.Any]]:
    out = []
    for line in content.split('\n'):
        m = re.match(r'#(define|undef) (\S+)( (.*))?$', line, re.S)
        if m:
            out.append({'d': m.group(1), 'k': cps(m.group(2)), 'v': cps(m.group(4) or ''), 'hasv': 1 if m.group(3) is not None else 0})
    return out


# ---------------------------------------------------------------------------
# (A) the model's families

def _decode(code: int, n: int, sel: T.List[int]) -> T.List[int]:
    out = []
    k = len(sel)
    for _ in range(n):
        out.append(sel[code % k])
        code //= k
    return out


def _worker_family(args: T.Tuple[T.Dict[str, T.Any], T.List[int], T.List[int], T.List[int], int, int, int]) -> T.List[T.Dict[str, T.Any]]:
    space, atomsel, confsel, fmtsel, n, lo, hi = args
    common.use_repo_meson()
    atoms = [txt(a) for a in space['atoms']]
    confs = [conf_values(c) for c in space['confs']]
    out = []
    for code in range(lo, hi):
        idx = _decode(code, n, atomsel)
        text = ''.join(atoms[j - 1] for j in idx)
        for ci in confsel:
            for fi in fmtsel:
                e, o, m = real_configure(text, confs[ci - 1], FORMATS[fi - 1])
                out.append({'a': idx, 'c': ci, 'f': fi, 'e': e, 'o': o, 'm': m})
    return out


def _worker_file(args: T.Tuple[T.Dict[str, T.Any], T.List[int], T.List[int], T.List[int], T.List[int], int, int, int]) -> T.List[T.Dict[str, T.Any]]:
    space, bytesel, encsel, confsel, fmtsel, n, lo, hi = args
    common.use_repo_meson()
    batoms = [bytes(a) for a in space['batoms']]
    confs = [conf_values(c) for c in space['confs']]
    out = []
    for code in range(lo, hi):
        idx = _decode(code, n, bytesel)
        data = b''.join(batoms[j - 1] for j in idx)
        for ei in encsel:
            for ci in confsel:
                for fi in fmtsel:
                    e, ob, m = real_configure_bytes(data, confs[ci - 1], FORMATS[fi - 1], enc_name(ei, code + ci + fi))
                    out.append({'ba': idx, 'en': ei, 'c': ci, 'f': fi, 'e': e, 'ob': ob, 'm': m})
    return out


# ---------------------------------------------------------------------------
# (B) random templates

FRAGMENTS = ['@a@', '@b@', '@A@', '@undefined@', '@long_name-1@', '\\', '\\\\', '\\@', '@', '${a}', '${b}', '${', '}', '$', '{',
             'text', ' ', ' ', '\n', '\n', '\r\n', '\t', '#', 'a', 'b', '-', '_', '"', '/* c */', '#define X ',
             '\\@a\\@', '\\\\@a@', '${${b}}', '@a/b.c+d@', 'é', '日本', '\U0001f600', '@é@', '#include <x.h>',
             '@a@@b@', '@a@b@', '${a}${b}', '@@', '@ @', '@a b@']
DEFINE_LINES = ['#mesondefine a', '#mesondefine A', '  #mesondefine  b ', '\t#mesondefine B', '#mesondefine undefined_one',
                '#mesondefine a b', '#mesondefine', '#cmakedefine A', '#cmakedefine a x ${a} y', '#cmakedefine A @a@',
                '#cmakedefine01 A', '#cmakedefine01 B', '# cmakedefine A', '  #cmakedefine A 1', '  # cmakedefine A 1',
                '#cmakedefine undefined_one ${a}', '#cmakedefine A ${undefined_two}', '#cmakedefine B   spaced    out']
NAMES = ['a', 'b', 'A', 'B', 'long_name-1', 'a/b.c+d', 'zz']
VALUES_MESON = ['X', '', 'two words', '@b@', '@a@', '\\@a\\@', '${a}', '\\\\', '"quoted"', 'a@b', '@', 'vé', 7, 0, -12, 123456, True, False]
VALUES_CMAKE = ['X', '', 'two words', 'plain', '"quoted"', 'vé', 7, 0, -12, True, False]
EOLS = ['\n', '\n', '\n', '\r\n', '\r\n', '']


FRAGMENTS_F = ['@a@', '@b@', '@undefined@', '${a}', '${b}', '\\@a\\@', '\\\\@a@', 'text ', '\n', '\r\n', '\u00fc', '\u20ac', '\u00e9\u00e8',
               '\u65e5\u672c', '\U0001f600', '\u00ff', '\u00a4', '\u0153', '#define X ', '"', '\ufeff', 'a', '@']
DEFINE_LINES_F = ['#mesondefine a', '#mesondefine A', '#cmakedefine A @a@ \u00fc', '#cmakedefine A ${a}', '#cmakedefine01 A',
                  '#mesondefine undefined_one']
VALUES_F = ['X', '\u00fc', '\u20acuro', '\u65e5\u672c', '\u00e9 \u00e8', '', '\u0153', 7, True, False]


def _rand_file_case(rnd: random.Random) -> T.Tuple[bytes, int, T.Dict[str, T.Any], int]:
    """-> template bytes, encoding index, values, format index"""
    ei = rnd.randint(1, 6)
    fi = rnd.randint(1, 3)
    values = {k: rnd.choice(VALUES_F) for k in rnd.sample(['a', 'b', 'A'], rnd.randint(0, 3))}
    parts = []
    for _ in range(rnd.randint(1, 6)):
        line = rnd.choice(DEFINE_LINES_F) if rnd.random() < 0.25 else ''.join(rnd.choice(FRAGMENTS_F) for _ in range(rnd.randint(0, 7)))
        parts.append(line + rnd.choice(EOLS))
    text = ''.join(parts)
    name = enc_name(ei)
    r = rnd.random()
    if name == 'utf-16':
        if r < 0.6:
            data = b'\xff\xfe' + text.encode('utf-16-le')
        elif r < 0.8:
            data = b'\xfe\xff' + text.encode('utf-16-be')
        else:
            data = text.encode('utf-16-le')          # no byte order mark
    else:
        if r < 0.5:          # keep only what the codec can express
            text = ''.join(ch for ch in text if _encodable(ch, name))
        data = text.encode(name, errors='ignore')
    if rnd.random() < 0.15 and data:     # damage: drop or insert a byte
        k = rnd.randrange(len(data))
        data = data[:k] + (bytes([rnd.choice([0x81, 0xC3, 0xFF, 0xD8, 0x80])]) if rnd.random() < 0.5 else b'') + data[k + 1:]
    return data, ei, values, fi


def _encodable(ch: str, name: str) -> bool:
    try:
        ch.encode(name)
        return True
    except UnicodeError:
        return False


def conf_entries(values: T.Dict[str, T.Any]) -> T.List[T.Dict[str, T.Any]]:
    out = []
    for k, v in values.items():
        if isinstance(v, bool):
            out.append({'k': cps(k), 't': 'b', 's': [], 'n': int(v)})
        elif isinstance(v, int):
            out.append({'k': cps(k), 't': 'i', 's': [], 'n': v})
        else:
            out.append({'k': cps(k), 't': 's', 's': cps(v), 'n': 0})
    return out


def _rand_conf(rnd: random.Random, fmt: str) -> T.Dict[str, T.Any]:
    pool = VALUES_MESON if fmt == 'meson' else VALUES_CMAKE
    return {k: rnd.choice(pool) for k in rnd.sample(NAMES, rnd.randint(0, len(NAMES)))}


def _rand_template(rnd: random.Random) -> str:
    parts = []
    for _ in range(rnd.randint(1, 12)):
        if rnd.random() < 0.3:
            line = rnd.choice(DEFINE_LINES)
        else:
            line = ''.join(rnd.choice(FRAGMENTS) for _ in range(rnd.randint(0, 9)))
        parts.append(line + rnd.choice(EOLS))
    return ''.join(parts)


def _worker_rand(args: T.Tuple[int, int, int]) -> T.Tuple[T.List[T.Dict[str, T.Any]], T.List[T.Dict[str, T.Any]]]:
    lo, hi, sd = args
    common.use_repo_meson()
    cases = []
    confs = []
    for j in range(lo, hi):
        rnd = random.Random(sd * 104729 + j)
        fi = rnd.randint(1, 3)
        values = _rand_conf(rnd, FORMATS[fi - 1])
        text = _rand_template(rnd)
        e, o, m = real_configure(text, values, FORMATS[fi - 1])
        confs.append(conf_entries(values))
        cases.append({'t': cps(text), 'c': len(confs), 'f': fi, 'e': e, 'o': o, 'm': m})
        if j % 4 == 0:
            hv = {k: v for k, v in values.items() if not (isinstance(v, str) and ('\n' in v or '\r' in v)) and ' ' not in k}
            try:
                hd = real_header(hv)
            except Exception:
                hd = [{'d': 'raised', 'k': [], 'v': [], 'hasv': 0}]
            confs.append(conf_entries(hv))
            cases.append({'hd': hd, 'c': len(confs)})
        if j % 3 == 0:      # file level: bytes in a non-default encoding
            data, ei, values, fi = _rand_file_case(rnd)
            e, ob, m = real_configure_bytes(data, values, FORMATS[fi - 1], enc_name(ei, j))
            confs.append(conf_entries(values))
            cases.append({'by': list(data), 'en': ei, 'c': len(confs), 'f': fi, 'e': e, 'ob': ob, 'm': m})
    return cases, confs


# ---------------------------------------------------------------------------
# judging

def _tlc_part(payload: str, workers: T.Union[int, str]) -> common.TLCResult:
    with scratch('c14-') as d:
        tf = d / 'cases.json'
        tf.write_text(payload)
        return run_tlc(SPECS / 'template', 'TraceTemplate', env={'TRACE_FILE': str(tf)}, timeout=3000, workers=workers,
                       heap='4g')


BATOMS: T.List[T.List[int]] = []     # byte-atom table of the file level (exported by TemplateFile_MC)


def describe(c: T.Dict[str, T.Any], atoms: T.List[T.List[int]], confs: T.List[T.Any]) -> T.Dict[str, T.Any]:
    if 'hd' in c:
        return {'header_of': conf_values(confs[c['c'] - 1]), 'directives': [(h['d'], txt(h['k']), txt(h['v'])) for h in c['hd']]}
    if 'en' in c:
        data = bytes(c['by']) if 'by' in c else b''.join(bytes(BATOMS[j - 1]) for j in c['ba'])
        return {'template_bytes': data.hex(), 'template_repr': repr(data), 'encoding': ENC_NAMES[c['en'] - 1][0],
                'configuration': conf_values(confs[c['c'] - 1]), 'format': FORMATS[c['f'] - 1],
                'outcome': {0: 'output', 1: 'MesonException', 2: 'other exception'}[c['e']],
                'output_bytes': bytes(c['ob']).hex(), 'output_repr': repr(bytes(c['ob'])), 'missing_reported': [txt(m) for m in c['m']]}
    text = ''.join(txt(atoms[j - 1]) for j in c['a']) if 'a' in c else txt(c['t'])
    return {'template': text, 'configuration': conf_values(confs[c['c'] - 1]), 'format': FORMATS[c['f'] - 1],
            'outcome': {0: 'output', 1: 'MesonException', 2: 'other exception'}[c['e']], 'output': txt(c['o']),
            'missing_reported': [txt(m) for m in c['m']]}


def judge(chk: Check, cases: T.List[T.Dict[str, T.Any]], atoms: T.List[T.List[int]], confs: T.List[T.Any], label: str) -> None:
    for n, c in enumerate(cases):
        c['id'] = n
    head = {'atoms': atoms, 'batoms': BATOMS, 'confs': confs}

    def payload(part: T.Sequence[T.Dict[str, T.Any]]) -> str:
        return json.dumps({**head, 'cases': list(part)}, separators=(',', ':'))

    nparts = max(1, min(4, len(cases) // 4000))
    size = (len(cases) + nparts - 1) // nparts
    parts = [cases[j:j + size] for j in range(0, len(cases), size)]
    t0 = time.time()
    with ThreadPoolExecutor(max_workers=nparts) as tp:
        results = list(tp.map(lambda p: _tlc_part(payload(p), max(2, common.NCPU // nparts)), parts))
    bad: T.List[T.Dict[str, T.Any]] = []
    for part, res in zip(parts, results):
        if not res.clean:
            raise MachineryError('TraceTemplate did not complete cleanly:\n' + res.stdout[-2500:])
        if res.distinct != 2 * len(part):
            raise MachineryError(f'TraceTemplate judged {res.distinct // 2} of {len(part)} cases')
        chk.add_tlc(f'TraceTemplate[{label}]', res, model=False)
        got = res.json_lines()
        # every verdict is one println of one string; should a line ever be torn, judge the part again single-threaded
        printed = sum(1 for ln in res.stdout.splitlines() if ln.startswith('"'))
        if printed != len(got) or any(not isinstance(v, list) for v in got):
            got = _tlc_part(payload(part), 1).json_lines()
        for vs in got:
            bad += vs
    chk.traces += len(cases)
    dbg(f'judge {label} {len(cases)} cases {time.time() - t0:.1f}s rejected={len(bad)}')
    for v in bad:
        c = cases[v['id']]
        d = describe(c, atoms, confs)
        if v['clause'] == 'Deviation':
            # TLC named the known deviations that reproduce the observation: one finding per deviation
            for name in sorted(v['got']):
                chk.violation('Deviation:' + name, {'verdict': {'clause': 'Deviation', 'deviations': sorted(v['got']),
                                                                'expected': txt(v['expected'])}, 'case': d,
                                                    'via': c.get('via', 'do_conf_file')})
            continue
        if 'en' in c:
            chk.violation(signature(v, d), {'verdict': {'clause': v['clause'], 'got': v['got'],
                                                        'expected': repr(bytes(v['expected'])) if v['clause'] != 'MissingReport' else v['expected']},
                                            'case': d, 'via': c.get('via', 'do_conf_file')})
            continue
        chk.violation(signature(v, d), {'verdict': {'clause': v['clause'],
                                                    'expected': txt(v['expected']) if v['clause'] in ('Text', 'Crashed', 'RejectedButMustAccept') else v['expected'],
                                                    'got': v['got']},
                                        'case': d, 'via': c.get('via', 'do_conf_file')})


def signature(v: T.Dict[str, T.Any], d: T.Dict[str, T.Any]) -> str:
    if 'template_bytes' in d:
        return f"{v['clause']}@{d['encoding']}/{d['format']}:{d['template_bytes']}:{json.dumps(d['configuration'], sort_keys=True)}"
    if 'template' not in d:
        return f"{v['clause']}@{json.dumps(d['header_of'], sort_keys=True)}"
    return f"{v['clause']}@{d['format']}:{d['template']!r}:{json.dumps(d['configuration'], sort_keys=True)}"


def _account(chk: Check, cases: T.List[T.Dict[str, T.Any]], atoms: T.List[T.List[int]], confs: T.List[T.Any]) -> None:
    chk.evaluations += len(cases)
    for c in cases:
        # non-trivial: the real output differs from the template (something was substituted, unescaped or
        # rewritten), or the template was rejected, or names were reported missing
        if 'hd' in c:
            if c['hd']:
                chk.nontriv('H' + json.dumps(c['hd']))
            continue
        if 'en' in c:
            srcb = c['by'] if 'by' in c else [x for j in c['ba'] for x in BATOMS[j - 1]]
            if c['e'] or c['m'] or c['ob'] != srcb:
                chk.nontriv(f"F{c.get('ba', c.get('by'))}|{c['en']}|{c['c'] if 'ba' in c else json.dumps(confs[c['c'] - 1])}|{c['f']}")
            continue
        src = [x for j in c['a'] for x in atoms[j - 1]] if 'a' in c else c['t']
        if c['e'] or c['m'] or c['o'] != src:
            chk.nontriv(f"{c.get('a', c.get('t'))}|{c['c'] if 'a' in c else json.dumps(confs[c['c'] - 1])}|{c['f']}")
    for c in [cases[len(cases) // 3], cases[(2 * len(cases)) // 3]] if len(cases) >= 3 else cases[:1]:
        chk.sample(describe(c, atoms, confs), limit=10)


# ---------------------------------------------------------------------------

INVARIANTS = ['ScanEqualsSegments', 'OtherBytesUntouched', 'NoRescan', 'MissingAreUndefinedNamesOfTheTemplate',
              'DeviationsOffIsRuleBook']
ONCE = ['HeaderHasExactlyKeysSorted', 'PinnedCasesHold']     # do not depend on the template: checked in one small run


def _noop(x: int) -> int:
    return x


def mc_cfg(atomsel: T.Iterable[int], confsel: T.Iterable[int], fmtsel: T.Iterable[int], maxlen: int,
           invariants: T.Iterable[str] = tuple(INVARIANTS)) -> str:
    return ('SPECIFICATION Spec\nCONSTANTS\n AtomSel = {%s}\n ConfSel = {%s}\n FmtSel = {%s}\n MaxLen = %d\n%s'
            'CHECK_DEADLOCK FALSE\nPOSTCONDITION EmitSpace\n' % (
                ', '.join(map(str, atomsel)), ', '.join(map(str, confsel)), ', '.join(map(str, fmtsel)), maxlen,
                ''.join('INVARIANT %s\n' % i for i in invariants)))


def families(quick: bool) -> T.List[T.Tuple[str, T.List[int], T.List[int], T.List[int], int, int]]:
    # label, atoms, configurations, formats, model length, implementation length
    if quick:
        return [
            # backslash @ a - space LF : the inline scanner of the meson format
            ('meson-inline', [1, 2, 3, 6, 5, 11], [3, 4, 5], [1], 5, 5),
            # whole placeholders next to each other, escapes, CR LF
            ('meson-frag', [21, 24, 1, 2, 3, 5, 12], [3, 5], [1], 4, 4),
            # @ a $ { } backslash LF : the cmake scanners
            ('cmake-inline', [2, 3, 7, 8, 9, 1, 11], [1, 8], [2, 3], 4, 4),
            ('cmake-frag', [21, 22, 24, 25, 3, 2, 5, 11], [1, 5], [2, 3], 4, 4),
            # #mesondefine lines: keyword, blanks, names A B a, a placeholder, line terminators
            ('meson-define', [15, 5, 14, 19, 20, 3, 21, 11, 12], [6, 7], [1], 4, 4),
            # #cmakedefine / #cmakedefine01 / "# cmakedefine" lines
            ('cmake-define', [16, 17, 18, 5, 19, 22, 11, 12], [6, 10], [2, 3], 4, 4),
            # both kinds of placeholders and keywords mixed: format errors
            ('mixed', [15, 16, 5, 19, 21, 22, 10, 11], [6, 8], [1, 2, 3], 3, 3),
        ]
    return [
        ('meson-inline', [1, 2, 3, 6, 5, 11], [1, 2, 3, 4, 5], [1], 5, 6),
        ('meson-frag', [21, 24, 1, 2, 3, 5, 12], [1, 2, 3, 4, 5], [1], 4, 5),
        ('cmake-inline', [2, 3, 7, 8, 9, 1, 11], [1, 2, 5, 8], [2, 3], 5, 5),
        ('cmake-frag', [21, 22, 24, 25, 3, 2, 5, 11], [1, 2, 5, 8], [2, 3], 4, 5),
        ('meson-define', [15, 5, 14, 19, 20, 3, 21, 11, 12], [1, 5, 6, 7, 8], [1], 4, 5),
        ('cmake-define', [16, 17, 18, 5, 19, 20, 22, 23, 11, 12], [1, 6, 8, 10], [2, 3], 4, 5),
        ('mixed', [15, 16, 5, 19, 21, 22, 10, 11], [6, 8], [1, 2, 3], 3, 4),
    ]


FILE_INVARIANTS = ['UndecodableIsError', 'DecodeEncodeRoundTrip', 'BytesOutsidePlaceholdersUnchanged', 'EncodingDistributes',
                   'AsciiAgreesWithDefault', 'ErrorHasNoOutput']


def file_cfg(bytesel: T.Iterable[int], encsel: T.Iterable[int], confsel: T.Iterable[int], fmtsel: T.Iterable[int], maxlen: int) -> str:
    return ('SPECIFICATION Spec\nCONSTANTS\n ByteSel = {%s}\n EncSel = {%s}\n ConfSel = {%s}\n FmtSel = {%s}\n MaxLen = %d\n%s'
            'CHECK_DEADLOCK FALSE\nPOSTCONDITION EmitSpace\n' % (
                ', '.join(map(str, bytesel)), ', '.join(map(str, encsel)), ', '.join(map(str, confsel)),
                ', '.join(map(str, fmtsel)), maxlen, ''.join('INVARIANT %s\n' % i for i in FILE_INVARIANTS)))


def file_families(quick: bool) -> T.List[T.Tuple[str, T.List[int], T.List[int], T.List[int], T.List[int], int]]:
    # label, byte atoms, encodings, configurations, formats, length (model = implementation)
    n = 3 if quick else 4
    return [
        # placeholders between non-ASCII bytes of the 8-bit sets (and the same bytes taken as utf-8: undecodable)
        ('file-8bit', [1, 2, 3, 4, 6, 7], [1, 2, 3, 4], [11, 12, 13], [1, 2, 3], n),
        # utf-8 multi-byte filler, a truncated sequence, a latin-1 byte
        ('file-utf8', [1, 2, 8, 9, 10, 3, 7], [1], [11, 12], [1, 2, 3], n),
        # utf-16 with and without byte order mark, surrogates, half units
        ('file-utf16', [12, 14, 15, 16, 17, 18, 20, 21], [5, 6], [11, 13], [1, 2, 3], n),
        # define lines in every encoding
        ('file-define', [22, 23, 3, 5, 12, 14], [1, 2, 3, 4, 5, 6], [11, 13], [1, 2, 3], 2 if quick else 3),
    ]


def main(chk: Check) -> None:
    with work_base() as base:
        _main(chk, base)


def _main(chk: Check, base: str) -> None:
    global BATOMS
    quick = chk.tier == 'quick'
    chk.rule = ('A: every template of <= N atoms of seven text families (meson inline: backslash @ a - space LF; whole '
                'placeholders; cmake inline: @ a $ { } backslash LF; #mesondefine lines; #cmakedefine lines; mixed keywords) x '
                'the configuration dictionaries of the model (values that look like placeholders included) x formats, and of '
                'four BYTE families (8-bit sets, utf-8, utf-16, define lines) x encoding x non-ASCII values x formats, all '
                'through do_conf_file (bytes in, bytes out); a sample through configure_file() with the CLI incl. encoding:; '
                'B: random templates of up to 12 lines of placeholder-like fragments with random configurations, random byte '
                'templates in six encodings (damaged ones included), and the header dump. Non-trivial = the real output '
                'differs from the template, the template is rejected, or names are reported missing (distinct cases).')
    n_rand = 2400 if quick else 80000
    res = run_tlc(SPECS / 'template', 'Template_MC', cfg_text=mc_cfg([3], range(1, 14), [1], 0, ONCE), timeout=3000,
                  collect=['space.json'], allow_violation=False)
    chk.add_tlc('Template_MC[pinned cases, header]', res)
    dbg(f'model pinned {res.distinct} states {res.wall:.1f}s')
    space = json.loads(res.collected['space.json'])
    fams = families(quick)
    ffams = file_families(quick)
    # the model-checking runs go on in the background while the same spaces are driven through the implementation
    # the worker processes are forked NOW, before any thread exists (a fork while another thread holds a lock can hang the child)
    ex = ProcessPoolExecutor(max_workers=common.NCPU, initializer=_init_worker, initargs=(base,))
    list(ex.map(_noop, range(common.NCPU * 2)))
    mc_pool = ThreadPoolExecutor(max_workers=2)
    half = max(2, common.NCPU // 2)
    file_mc = {label: mc_pool.submit(run_tlc, SPECS / 'template', 'TemplateFile_MC', cfg_text=file_cfg(bs, es, cs, fs, n),
                                     collect=['filespace.json'], timeout=3000, allow_violation=False, workers=half)
               for label, bs, es, cs, fs, n in ffams[:1]}
    text_mc = {label: mc_pool.submit(run_tlc, SPECS / 'template', 'Template_MC', cfg_text=mc_cfg(atomsel, confsel, fmtsel, nmodel),
                                     timeout=3000, allow_violation=False, workers=half)
               for label, atomsel, confsel, fmtsel, nmodel, _ in fams}
    file_mc.update({label: mc_pool.submit(run_tlc, SPECS / 'template', 'TemplateFile_MC', cfg_text=file_cfg(bs, es, cs, fs, n),
                                          collect=['filespace.json'], timeout=3000, allow_violation=False, workers=half)
                    for label, bs, es, cs, fs, n in ffams[1:]})
    try:
        fspace = json.loads(file_mc[ffams[0][0]].result().collected['filespace.json'])
        BATOMS = fspace['batoms']
        if fspace['confs'] != space['confs'] or fspace['encodings'] != [e[0] for e in ENC_NAMES]:
            raise MachineryError('the tables exported by Template_MC and TemplateFile_MC differ')
        with ex:
            # (A) file level first (bytes in six encodings), then the text families (default encoding); the cases of
            # all families are judged in common batches
            cases: T.List[T.Dict[str, T.Any]] = []
            part_no = 0

            def flush(force: bool) -> None:
                nonlocal cases, part_no
                if cases and (force or len(cases) >= 150000):
                    _account(chk, cases, space['atoms'], space['confs'])
                    judge(chk, cases, space['atoms'], space['confs'], f'A#{part_no}')
                    part_no += 1
                    cases = []

            for label, bytesel, encsel, confsel, fmtsel, n in ffams:
                chk.extra.setdefault('file_families', {})[label] = {
                    'byte_atoms': [bytes(BATOMS[j - 1]).hex() for j in bytesel], 'encodings': [ENC_NAMES[e - 1][0] for e in encsel],
                    'configurations': len(confsel), 'formats': len(fmtsel), 'len': n}
                for k in range(0, n + 1):
                    total = len(bytesel) ** k
                    step = max(1, min(500, total // (common.NCPU * 2) + 1))
                    jobs = [(fspace, bytesel, encsel, confsel, fmtsel, k, lo, min(total, lo + step)) for lo in range(0, total, step)]
                    for part in ex.map(_worker_file, jobs):
                        cases.extend(part)
                        flush(False)
            for label, atomsel, confsel, fmtsel, nmodel, nimpl in fams:
                chk.extra.setdefault('families', {})[label] = {'atoms': [txt(space['atoms'][j - 1]) for j in atomsel],
                                                               'configurations': len(confsel), 'formats': len(fmtsel),
                                                               'model_len': nmodel, 'impl_len': nimpl}
                for n in range(0, nimpl + 1):
                    total = len(atomsel) ** n
                    step = max(1, min(4000, total // (common.NCPU * 4) + 1))
                    jobs = [(space, atomsel, confsel, fmtsel, n, lo, min(total, lo + step)) for lo in range(0, total, step)]
                    for part in ex.map(_worker_family, jobs):
                        cases.extend(part)
                        flush(False)
            flush(True)
            # (B) random templates (text and bytes) + header dump
            step = max(1, n_rand // (common.NCPU * 4))
            cases = []
            confs: T.List[T.Any] = []
            for pc, pf in ex.map(_worker_rand, [(lo, min(n_rand, lo + step), chk.seed) for lo in range(0, n_rand, step)]):
                for c in pc:
                    c['c'] += len(confs)
                cases.extend(pc)
                confs.extend(pf)
                if len(cases) >= 60000:
                    _account(chk, cases, [], confs)
                    judge(chk, cases, [], confs, 'B')
                    cases, confs = [], []
            if cases:
                _account(chk, cases, [], confs)
                judge(chk, cases, [], confs, 'B')
        chk.extra['random_templates'] = n_rand
        # (A') a sample through configure_file() with the real command line
        from . import template_cli
        template_cli.run(chk, space, fspace, judge, _account, base)
        # the model-checking runs
        for label, fut in list(text_mc.items()) + list(file_mc.items()):
            r = fut.result()
            chk.add_tlc(f"{'TemplateFile_MC' if label.startswith('file') else 'Template_MC'}[{label}]", r)
            dbg(f'model {label} {r.distinct} states {r.wall:.1f}s')
    finally:
        mc_pool.shutdown(wait=True, cancel_futures=True)
    chk.exhaustive = True
    chk.assumptions += [
        'define lines are generated with the keyword standing alone (followed by a blank); "#mesondefineFOO BAR" and a '
        '"#cmakedefine" without variable are outside the documentation',
        'a boolean substituted inline with @VAR@ in the meson format (deprecated, undocumented rendering) is not judged',
        'cmake formats: configuration values containing @ $ { } or backslash are not generated (what happens to such a '
        'value is undocumented; the statement promises "never scanned again" only for the meson format); a #cmakedefine '
        'whose rest contains a token that is itself a key is not judged',
        'string values have no leading/trailing blanks and no line terminators; whitespace is ASCII (space, TAB, LF, VT, FF, CR): '
        'texts that decode to other Unicode white space (NBSP, NEL, ...) are not judged',
        'a define line replaces the whole line content (indentation included); its line terminator is kept, a last line '
        'without terminator gets LF (pinned by test_do_conf_file_by_format)',
        'header dump: c format without macro guard; descriptions are not generated; the projection reads #define/#undef lines',
        'file level: the codecs (utf-8, iso-8859-1, iso-8859-15, cp1252, utf-16-le, utf-16) are modelled as Python implements them '
        'for text files (strict errors; utf-16 input needs a byte order mark, output is little-endian with mark unless the '
        'template is empty); other encodings are not generated',
    ]


def replay(chk: Check, data: T.Dict[str, T.Any]) -> None:
    with work_base():
        _replay(chk, data)


def _replay(chk: Check, data: T.Dict[str, T.Any]) -> None:
    common.use_repo_meson()
    d = data['detail']['case']
    if 'header_of' in d:
        conf = conf_entries(d['header_of'])
        judge(chk, [{'hd': real_header(d['header_of']), 'c': 1}], [], [conf], 'replay')
        return
    fi = FORMATS.index(d['format']) + 1
    if 'template_bytes' in d:
        data = bytes.fromhex(d['template_bytes'])
        ei = [n[0] for n in ENC_NAMES].index(d['encoding']) + 1
        e, ob, m = real_configure_bytes(data, d['configuration'], d['format'], d['encoding'])
        judge(chk, [{'by': list(data), 'en': ei, 'c': 1, 'f': fi, 'e': e, 'ob': ob, 'm': m}], [], [conf_entries(d['configuration'])], 'replay')
        return
    e, o, m = real_configure(d['template'], d['configuration'], d['format'])
    judge(chk, [{'t': cps(d['template']), 'c': 1, 'f': fi, 'e': e, 'o': o, 'm': m}], [], [conf_entries(d['configuration'])], 'replay')


if __name__ == '__main__':
    sys.exit(common.run_check(main, PROP, replay=replay))
