"""C15 - Introspection files describe the build that was actually generated.

1. TLC model-checks ``specs/ninja/IntroModel_MC``: for every abstract project of the bounded family the
   introspection views the generator model owes (targets with files / sources / generated sources) satisfy
   the consistency relation ``IntroConsistent`` against the model's own build graph (the relation is
   satisfiable and says what it should on the rule book itself).
2. (B) real build directories are projected to views (``harness/intro_views.py``) and ``TraceIntro`` (TLC)
   evaluates the relation:
   intro-targets.json   filenames produced by build.ninja, exactly; sources / generated sources = explicit
                        inputs of the target's compile statements; custom target sources = inputs of its
                        statement; files and build_by_default vs the generator model;
   intro-tests/benchmarks.json  = meson_test_setup.dat / meson_benchmark_setup.dat field by field; depends
                        are introspected target ids; tests really run by `meson test` saw the introspected
                        argv and environment; names / args / env / suites vs the build definition;
   intro-buildoptions.json  = the values get_option() returned (message() lines), per subproject;
   intro-install_plan.json / intro-installed.json  = install.dat (names, destinations, tags, subproject);
                        placeholders resolve to the installed location; installed flag of targets; after a
                        real `meson install --destdir` the tree is exactly the promised one; vs definition;
   intro-buildsystem_files.json  files exist, contain every defined_in, equal the inputs of the build.ninja
                        regeneration statement, and equal what the abstract project makes meson read.
   Projects: seeded random C projects (projgen, ninja backend, all target kinds, subprojects, layouts,
   default_library, unity), language-less data projects (``--backend=none``: real install and real test
   run), projects of the TLC family, and the projects of ``test cases/common`` that configure here.
"""
from __future__ import annotations

import json
import random
import sys
import typing as T
from concurrent.futures import ProcessPoolExecutor

from . import backend_views as bv
from . import common, projgen
from .common import Check, MachineryError, SPECS, run_tlc

PROP = 'C15'


def _run_job(job: T.Dict[str, T.Any]) -> T.Dict[str, T.Any]:
    case = bv.run_case(job)
    for k in ('name', 'tag', 'flavour'):
        if k in job:
            case['info'][k] = job[k]
    if job.get('p') is not None:
        case['info']['p_full'] = job['p']
        case['info']['job'] = {k: job[k] for k in ('backend', 'install', 'run_tests', 'extra_args') if k in job}
    return case


def option_overrides(p: T.Dict[str, T.Any], rnd: random.Random) -> T.List[str]:
    """-D arguments giving some user options and builtins a non-default value (so that an introspection that
    reports defaults instead of values is noticed)."""
    args: T.List[str] = []
    for o in p['options']:
        if rnd.random() < 0.6:
            ty = o['type']
            if ty == 'boolean':
                val = 'false' if o['value'] == 'true' else 'true'
            elif ty == 'integer':
                val = str(int(o['value']) + 1)
            elif ty == 'combo':
                val = rnd.choice([c for c in o['choices'] if c != o['value']])
            elif ty == 'array':
                val = ','.join(rnd.sample(['a', 'b', 'c c'], rnd.randint(0, 2)))
            elif ty == 'feature':
                val = rnd.choice([c for c in ('auto', 'enabled', 'disabled') if c != o['value']])
            else:
                val = rnd.choice(['changed', 'x y', ''])
            name = f"{o['sp']}:{o['name']}" if o['sp'] else o['name']
            args.append(f'-D{name}={val}')
    for name, val in (('werror', 'true'), ('warning_level', '3'), ('debug', 'false'), ('optimization', '2'),
                      ('errorlogs', 'false'), ('wrap_mode', 'nodownload'), ('datadir', 'share/dd')):
        if rnd.random() < 0.5:
            if name not in p['show_builtins']:
                p['show_builtins'].append(name)
            args.append(f'-D{name}={val}')
    if any(t['sp'] for t in p['targets']) and p['lang'] and rnd.random() < 0.5:
        sp = next(t['sp'] for t in p['targets'] if t['sp'])
        if 'werror' not in p['show_builtins']:
            p['show_builtins'].append('werror')
        args.append(f'-D{sp}:werror=' + rnd.choice(['true', 'false']))
    return args


def subdir_matrix_project() -> T.Dict[str, T.Any]:
    """install_subdir() with every combination of strip_directory and install_dir form (plain string, derived from
    an option value, absolute), in the main project and in a subproject - always part of the run."""
    installs = []
    k = 0
    for sp in ('', 'sp1'):
        for strip in (False, True):
            for how in ('plain', 'option', 'abs', 'default'):
                k += 1
                # every second directory is spelled with a trailing slash (legal: install_subdir('docs/', ...))
                it: T.Dict[str, T.Any] = {'kind': 'subdir', 'sp': sp, 'files': [f'sd{k}' + ('/' if k % 2 == 0 else ''), 'f1.txt', 'sub/f2.txt'],
                                          'strip': strip}
                if how == 'plain':
                    it['install_dir'] = f'share/plain{k}'
                elif how == 'abs':
                    it['install_dir'] = f'/abs/sd{k}'
                elif how == 'option':
                    opt = ('datadir', 'libdir', 'includedir')[k % 3]
                    it['install_dir'] = '{%s}/x%d' % (opt, k)
                    it['dir_expr'] = f"get_option('{opt}') / 'x{k}'"
                installs.append(it)
    return projgen.normalize({'name': 'sdm', 'lang': '', 'installs': installs})


def preserve_path_project() -> T.Dict[str, T.Any]:
    """install_data / install_headers with preserve_path: true and sources in nested directories (the same
    basename in several of them), default / plain / option-derived install_dir, main project and subproject."""
    installs = []
    k = 0
    for sp in ('', 'sp1'):
        for kind, ext, opt in (('data', 'txt', 'datadir'), ('headers', 'h', 'includedir')):
            for how in ('default', 'plain', 'option'):
                k += 1
                it: T.Dict[str, T.Any] = {'kind': kind, 'sp': sp, 'preserve': True, 'subdir': '' if k % 2 else 'dd',
                                          'files': [f'b{k}.{ext}', f'one/b{k}.{ext}', f'one/two/b{k}.{ext}', f'one/two/c{k}.{ext}']}
                if how == 'plain':
                    it['install_dir'] = f'share/demo-tree{k}'
                elif how == 'option' and kind == 'data':
                    it['install_dir'] = '{%s}/demo-tree%d' % (opt, k)
                    it['dir_expr'] = f"get_option('{opt}') / 'demo-tree{k}'"
                elif how == 'option':
                    # install_headers shows an option-derived directory without its placeholder (manual silent)
                    it['install_dir'] = f'include/demo-tree{k}'
                installs.append(it)
    return projgen.normalize({'name': 'ppm', 'lang': '', 'installs': installs})


def build_subdir_project(layout: str) -> T.Dict[str, T.Any]:
    """Targets of every file-producing kind with build_subdir:, in the root, a subdirectory and a subproject."""
    ts = [
        {'kind': 'exe', 'name': 'tool', 'srcs': ['m1.c'], 'subdir': 'src', 'bsub': 'bin', 'install': True},
        {'kind': 'static', 'name': 'st', 'srcs': ['m2.c'], 'subdir': 'src', 'bsub': 'lib/x'},
        {'kind': 'both', 'name': 'bo', 'srcs': ['m3.c'], 'bsub': 'libs'},
        {'kind': 'custom', 'name': 'ct', 'outs': ['o1.txt', 'o2.txt'], 'bsub': 'gen', 'bbd': 'true'},
        {'kind': 'exe', 'name': 'plain', 'srcs': ['m5.c'], 'link': [2]},
    ]
    ts = [dict(t, sp='sp1', name='sp' + t['name']) for t in ts[:2]] + ts
    ts[-1]['link'] = [4]
    return projgen.normalize({'name': 'bsub', 'layout': layout, 'deflib': 'shared', 'targets': ts,
                              'tests': [{'name': 't', 'exe': 3, 'depends': [6]}]})


def to_trace(case: T.Dict[str, T.Any]) -> T.Dict[str, T.Any]:
    v = case['views']
    d = {'id': case['id'], 'p': case['p'], 'has_p': case['kind'] == 'proj', 'M': v['M']}
    for k in ('targets', 'tests', 'benchmarks', 'tests_dat', 'benchmarks_dat', 'options', 'messages', 'dirs', 'plan',
              'installed', 'dat', 'dir_listing', 'did_install', 'tree', 'did_test', 'runs', 'bsfiles', 'bs_missing',
              'has_ninja', 'regen_inputs'):
        d[k] = v[k]
    return d


def custom_source_causes(case: T.Dict[str, T.Any], items: T.List[str]) -> T.Optional[str]:
    """Normalised cause of a CustomTargetSources mismatch on a generated project, or None if unexplained."""
    p = case['p']
    outs = set()
    for e in case['M']['edges']:
        outs.update(e['outs'])
    listed_only = [x for x in items if x not in outs]
    consumed_only = [x for x in items if x in outs]
    causes = set()
    cbase = {x.rsplit('/', 1)[-1] for x in consumed_only}
    idx_first = set()
    whole = set()
    for t in p['targets']:
        if t['kind'] == 'custom':
            for r in t.get('genidx', []):
                idx_first.add(p['targets'][r - 1]['outs'][0])
            for r in t.get('gen', []):
                whole.update(p['targets'][r - 1]['outs'])
    for x in listed_only:
        if p['layout'] == 'flat' and x.rsplit('/', 1)[-1] in cbase and x.rsplit('/', 1)[-1] in whole:
            causes.add('input-target-listed-with-mirror-dir-under-flat-layout')
        else:
            return None
    for x in consumed_only:
        b = x.rsplit('/', 1)[-1]
        if p['layout'] == 'flat' and b in whole and any(y.rsplit('/', 1)[-1] == b for y in listed_only):
            continue
        if b in idx_first:
            causes.add('indexed-custom-target-input-not-listed')
        else:
            return None
    return '+'.join(sorted(causes)) if causes else None


def signature(case: T.Dict[str, T.Any], v: T.Dict[str, T.Any]) -> str:
    what = case['info'].get('name') or case['info'].get('flavour', '')
    det = '|'.join(sorted(str(x) for x in v['detail'])[:3])[:200]
    if case['info'].get('tag'):
        # dedicated probe project (fixed input): the clause identifies the finding
        return f"{v['clause']}@{case['info']['tag']}"
    if v['clause'] in ('PlanVsInstallData', 'InstalledVsInstallData') and v['detail']:
        # normalised cause: every offending source path is installed to more than one destination (the JSON
        # files are keyed by source path and can hold only one of them)
        srcs = [e['src'] for e in case['views']['dat']]
        if all(srcs.count(x) > 1 for x in v['detail']):
            return f"{v['clause']}:same-source-installed-to-several-destinations"
    if case['kind'] == 'corpus':
        return f"{v['clause']}@corpus:{what}:{det}"
    if v['clause'] == 'CustomTargetSources':
        cause = custom_source_causes(case, v['detail'])
        if cause:
            return f"CustomTargetSources:{cause}"
    # normalise scratch paths out of the detail
    return f"{v['clause']}@{what}:{det}"


def model_check(chk: Check, quick: bool) -> T.Dict[str, T.Any]:
    cfg = (SPECS / 'ninja' / 'IntroModel_MC.cfg').read_text()
    if quick:
        cfg = cfg.replace('Deflibs = {"shared", "both", "static"}', 'Deflibs = {"shared", "both"}')
        cfg = cfg.replace('LocSet = "all"', 'LocSet = "small"')
    res = run_tlc(SPECS / 'ninja', 'IntroModel_MC', cfg_text=cfg, collect=['family.json'], timeout=3000, workers=8,
                  allow_violation=False)
    chk.add_tlc('IntroModel_MC', res)
    return json.loads(res.collected['family.json'])


def main(chk: Check) -> None:
    quick = chk.tier == 'quick'
    rnd = random.Random(chk.seed * 1000003 + 15)
    n_c = 20 if quick else 300
    n_data = 14 if quick else 200
    n_family = 14 if quick else 400
    n_corpus = 28 if quick else 10000
    chk.rule = ('seeded random C projects (3-12 targets, tests, installs, options, subprojects; ninja backend), language-less '
                'data projects (--backend=none, real `meson install --destdir` and real `meson test`), a sample of the TLC '
                'family and test cases/common. Non-trivial = a configured project whose views hold at least 3 targets or an '
                'install plan entry or a test (distinct by abstract project / corpus directory).')
    jobs: T.List[T.Dict[str, T.Any]] = []
    for k in range(n_c):
        r2 = random.Random(chk.seed * 104729 + k)
        p = projgen.random_project(r2, n_targets=r2.randint(3, 12), custom_inputs=True, alias_runs=True, build_subdirs=True)
        pre = r2.choice(['/usr/local', '/usr', '/opt/p q'])
        jobs.append({'id': f'R{k}', 'kind': 'proj', 'p': p, 'views': True, 'flavour': f'randomC#{k}',
                     'extra_args': [f'--prefix={pre}'] + r2.choice([[], ['--libdir=lib'], ['--bindir=/abs/bin']])
                     + option_overrides(p, r2)})
    for k in range(n_data):
        r2 = random.Random(chk.seed * 15485863 + k)
        p = projgen.random_data_project(r2)
        pre = r2.choice(['/usr/local', '/usr', '/opt/p q'])
        jobs.append({'id': f'D{k}', 'kind': 'proj', 'p': p, 'views': True, 'backend': 'none', 'install': True,
                     'run_tests': True, 'flavour': f'data#{k}', 'extra_args': [f'--prefix={pre}'] + option_overrides(p, r2)})
    jobs.append({'id': 'S0', 'kind': 'proj', 'p': subdir_matrix_project(), 'views': True, 'backend': 'none', 'install': True,
                 'run_tests': False, 'flavour': 'install_subdir-matrix', 'extra_args': ['--prefix=/usr/zz', '-Ddatadir=share/dd']})
    jobs.append({'id': 'S2', 'kind': 'proj', 'p': build_subdir_project('mirror'), 'views': True, 'flavour': 'build_subdir-mirror'})
    jobs.append({'id': 'S3', 'kind': 'proj', 'p': build_subdir_project('flat'), 'views': True, 'flavour': 'build_subdir-flat',
                 'tag': 'flat-layout-with-build_subdir'})
    jobs.append({'id': 'S1', 'kind': 'proj', 'p': preserve_path_project(), 'views': True, 'backend': 'none', 'install': True,
                 'run_tests': False, 'flavour': 'preserve_path-matrix', 'extra_args': ['--prefix=/usr/zz']})
    dirs = bv.corpus_dirs()
    if len(dirs) > n_corpus:
        dirs = sorted(rnd.sample(dirs, n_corpus))
    for dd in dirs:
        jobs.append({'id': 'C:' + dd.name, 'kind': 'corpus', 'p': None, 'srcdir': str(dd), 'name': dd.name, 'views': True,
                     'timeout': 240})
    cases: T.List[T.Dict[str, T.Any]] = []
    with ProcessPoolExecutor(max_workers=common.NCPU) as ex:
        futs = [ex.submit(_run_job, j) for j in jobs]
        fam = model_check(chk, quick)
        ok = [dict(p, family=f) for f in ('f1', 'f2', 'f3', 'f4', 'f5') for p in fam[f] if not p['x']['collides']]
        fjobs = []
        for k, p in enumerate(rnd.sample(ok, min(len(ok), n_family))):
            p.pop('x')
            family = p.pop('family')
            projgen.normalize(p)
            if family != 'f5':
                p['unity'] = rnd.choice(['off', 'on'])
            fjobs.append({'id': f'A{k}', 'kind': 'proj', 'p': p, 'views': True, 'flavour': f'family-{family}#{k}'})
        futs += [ex.submit(_run_job, j) for j in fjobs]
        for f in futs:
            cases.append(f.result())
    chk.extra['family_sizes'] = {k: len(v) for k, v in fam.items()}
    configured = [c for c in cases if c['configured']]
    for c in cases:
        if c['kind'] == 'proj' and not c['configured']:
            raise MachineryError(f"generated project {c['id']} did not configure: {c['info'].get('error')} :: "
                                 f"{json.dumps(c['p'])[:500]}")
    chk.extra['corpus_configured'] = sum(1 for c in configured if c['kind'] == 'corpus')
    chk.extra['corpus_skipped_not_configurable_here'] = sum(1 for c in cases if c['kind'] == 'corpus' and not c['configured'])
    chk.extra['installs_run'] = sum(1 for c in configured if c['views']['did_install'])
    chk.extra['test_runs_observed'] = sum(len(c['views']['runs']) for c in configured)
    for c in configured:
        v = c['views']
        if len(v['targets']) >= 3 or v['plan'] or v['tests'] or v['benchmarks']:
            chk.nontriv(c['id'] if c['kind'] == 'corpus' else json.dumps(c['p'], sort_keys=True))
        chk.evaluations += 1
    for c in configured[:: max(1, len(configured) // 4)][:4]:
        v = c['views']
        chk.sample({'id': c['id'], 'what': c['info'].get('name') or c['info'].get('flavour'),
                    'targets': [{k: t[k] for k in ('id', 'type', 'filenames', 'srcs', 'gens')} for t in v['targets'][:2]],
                    'tests': v['tests'][:1], 'plan': v['plan'][:2], 'installed': v['installed'][:2],
                    'messages': v['messages'][:2], 'bsfiles': v['bsfiles'][:4], 'runs': [r['argv'] for r in v['runs'][:1]]},
                   limit=6)
    traces = [to_trace(c) for c in configured]
    by_id = {c['id']: c for c in configured}
    bad = bv.judge_cases(chk, 'TraceIntro', traces, 'views', fields=None, chunk=200)
    chk.traces += len(traces)
    for vv in bad:
        c = by_id[vv['id']]
        for b in vv['bad']:
            v = {'id': vv['id'], 'clause': b['clause'], 'detail': b['detail']}
            chk.violation(signature(c, v), {'verdict': v, 'kind': c['kind'], 'info': c['info'], 'project': c['p']})
    chk.assumptions += [
        'run / alias targets are not checked for file names (they produce no file)',
        '"its compile statements" = the statements whose outputs the link statement of the target takes as explicit input '
        'and that do not produce another target\'s file; shared objects (both_libraries, extract_objects) are accepted '
        'when listed by any target',
        'the environment of a test is compared as "every introspected variable has that value in the process"; the '
        '.dat comparison uses EnvironmentVariables.get_env({}) on both sides',
        'real `meson install` / `meson test` only on language-less --backend=none projects (no ninja binary to build targets)',
        'install scripts, symlinks and empty directories of install.dat are outside intro-install_plan.json and not compared',
        'corpus projects are configured with default options only; those that do not configure here are skipped',
    ]


def replay(chk: Check, data: T.Dict[str, T.Any]) -> None:
    det = data['detail']
    info = det['info']
    if det['kind'] == 'corpus':
        dd = common.REPO / 'test cases' / 'common' / info['name']
        job = {'id': det['verdict']['id'], 'kind': 'corpus', 'p': None, 'srcdir': str(dd), 'name': dd.name, 'views': True}
    else:
        job = {'id': det['verdict']['id'], 'kind': 'proj', 'p': projgen.normalize(info['p_full']), 'views': True,
               'flavour': info.get('flavour', '')}
        job.update(info.get('job', {}))
    c = _run_job(job)
    if not c['configured']:
        raise MachineryError('replay: project does not configure: ' + c['info'].get('error', ''))
    bad = bv.judge_cases(chk, 'TraceIntro', [to_trace(c)], 'replay')
    for vv in bad:
        for b in vv['bad']:
            v = {'id': vv['id'], 'clause': b['clause'], 'detail': b['detail']}
            chk.violation(signature(c, v), {'verdict': v, 'kind': c['kind'], 'info': c['info'], 'project': c['p']})


if __name__ == '__main__':
    sys.exit(common.run_check(main, PROP, replay=replay))
