"""C15 - Introspection files describe the build that was actually generated.

1. TLC model-checks ``specs/ninja/IntroModel_MC``: for every abstract project of the bounded family the
   introspection views the generator model owes (targets with files / sources / generated sources) satisfy
   the consistency relation ``IntroConsistent`` against the model's own build graph (the relation is
   satisfiable and says what it should on the rule book itself).
2. (B) real build directories are projected to views (``harness/intro_views.py``) and ``TraceIntro`` (TLC)
   evaluates the relation:
   intro-targets.json   filenames produced by build.ninja, exactly; sources / generated sources = explicit
                        inputs of the target's compile statements; custom target sources = inputs of its
                        statement; files and build_by_default vs the generator model;
   intro-tests/benchmarks.json  = meson_test_setup.dat / meson_benchmark_setup.dat field by field; depends
                        are introspected target ids; tests really run by `meson test` saw the introspected
                        argv and environment; names / args / env / suites vs the build definition;
   intro-buildoptions.json  = the values get_option() returned (message() lines), per subproject;
   intro-install_plan.json / intro-installed.json  = install.dat (names, destinations, tags, subproject);
                        placeholders resolve to the installed location; installed flag of targets; after a
                        real `meson install --destdir` the tree is exactly the promised one; vs definition;
   intro-buildsystem_files.json  files exist, contain every defined_in, equal the inputs of the build.ninja
                        regeneration statement, equal what the abstract project makes meson read, and equal the
                        build-definition files meson opens (strace of an identical second configuration).
   Both directions for targets (every output of a link / archive statement is an introspected `filename`; what
   `meson test <selection>` asks the backend to build exists and covers the selected tests' depends) and for
   installation (everything that lands under DESTDIR is promised by the plan; `install_filename`; symbolic links).
3. (A) TLC model-checks ``specs/ninja/IntroSpace_MC`` (rule book ``IntroRules``): every build target kind x
   name_prefix / name_suffix form x version x soversion, and every install rule kind x spelling of the directory
   (default, literal, get_option(), `/`, join_paths(), prefix + '...') x main / subproject, under several option
   valuations; it assembles the rows into projects (rotating location, build_subdir, installed) that are
   configured and installed for real (``harness/c15_space.py``).
   Projects: seeded random C projects (projgen, ninja backend, all target kinds, subprojects, layouts,
   default_library, unity), language-less data projects (``--backend=none``: real install and real test
   run), projects of the TLC family, and the projects of ``test cases/common`` that configure here.
"""
from __future__ import annotations

import json
import random
import shutil
import sys
import typing as T
from concurrent.futures import ProcessPoolExecutor

from . import backend_views as bv
from . import c15_space as sp15
from . import common, projgen
from .common import Check, MachineryError, SPECS, run_tlc

PROP = 'C15'


def _run_job(job: T.Dict[str, T.Any]) -> T.Dict[str, T.Any]:
    if job.get('p') is not None:
        sp15.render(job['p'])       # C15 fields (naming keywords, directory expressions) -> verbatim keyword arguments
    if job.get('files') is not None:
        # a literal source tree (probe projects outside projgen's abstract model), judged by the relational clauses only
        with common.scratch('tree-') as d:
            for rel, text in job['files'].items():
                f = d / 'src' / rel
                f.parent.mkdir(parents=True, exist_ok=True)
                f.write_text(text, encoding='utf-8')
            case = bv.run_case(dict(job, srcdir=str(d / 'src')))
        case['info']['files'] = job['files']
        case['info']['job'] = {k: job[k] for k in ('backend', 'extra_args', 'trace_reads', 'timeout', 'install', 'ask_rebuild')
                               if k in job}
        for k in ('name', 'tag', 'flavour'):
            if k in job:
                case['info'][k] = job[k]
        return case
    case = bv.run_case(job)
    if job.get('p') is not None:
        sp15.tlc_fields(case['p'], job['p'])
    for k in ('name', 'tag', 'flavour'):
        if k in job:
            case['info'][k] = job[k]
    if job.get('p') is not None:
        case['info']['p_full'] = job['p']
        case['info']['job'] = {k: job[k] for k in ('backend', 'install', 'run_tests', 'extra_args', 'ask_rebuild', 'timeout',
                                                   'trace_reads') if k in job}
    return case


def option_overrides(p: T.Dict[str, T.Any], rnd: random.Random) -> T.List[str]:
    """-D arguments giving some user options and builtins a non-default value (so that an introspection that
    reports defaults instead of values is noticed)."""
    args: T.List[str] = []
    for o in p['options']:
        if rnd.random() < 0.6:
            ty = o['type']
            if ty == 'boolean':
                val = 'false' if o['value'] == 'true' else 'true'
            elif ty == 'integer':
                val = str(int(o['value']) + 1)
            elif ty == 'combo':
                val = rnd.choice([c for c in o['choices'] if c != o['value']])
            elif ty == 'array':
                val = ','.join(rnd.sample(['a', 'b', 'c c'], rnd.randint(0, 2)))
            elif ty == 'feature':
                val = rnd.choice([c for c in ('auto', 'enabled', 'disabled') if c != o['value']])
            else:
                val = rnd.choice(['changed', 'x y', ''])
            name = f"{o['sp']}:{o['name']}" if o['sp'] else o['name']
            args.append(f'-D{name}={val}')
    for name, val in (('werror', 'true'), ('warning_level', '3'), ('debug', 'false'), ('optimization', '2'),
                      ('errorlogs', 'false'), ('wrap_mode', 'nodownload'), ('datadir', 'share/dd')):
        if rnd.random() < 0.5:
            if name not in p['show_builtins']:
                p['show_builtins'].append(name)
            args.append(f'-D{name}={val}')
    sps = sorted({x['sp'] for coll in (p['targets'], p['tests'], p['installs'], p['options']) for x in coll if x['sp']})
    if sps and rnd.random() < 0.5:
        # a value for one subproject only (-Dsub:name=value): get_option() in that subproject returns it
        sp = sps[0]
        # (default_library of a subproject only where nothing is built: the generator model has one default_library)
        name, val = rnd.choice([('werror', 'true'), ('werror', 'false'), ('warning_level', '2')]
                               + ([] if p['lang'] else [('default_library', 'static')]))
        if name not in p['show_builtins']:
            p['show_builtins'].append(name)
        args.append(f'-D{sp}:{name}={val}')
    return args


def yielding_options(p: T.Dict[str, T.Any], rnd: random.Random) -> None:
    """Make some subproject options `yield: true` with a same-named option of the same type (other default value) in
    the main project (Build-options.md "Yielding to superproject option"); a project with a subproject but without
    subproject options gets one such pair."""
    sps = sorted({x['sp'] for coll in (p['targets'], p['tests'], p['installs'], p['options']) for x in coll if x['sp']})
    if not sps:
        return
    if not any(o['sp'] for o in p['options']) and rnd.random() < 0.7:
        p['options'].append(dict(projgen.OPTION_DEFAULTS, name='yopt', type='string', value='from-sub', sp=sps[0], choices=[]))
    top = {o['name'] for o in p['options'] if not o['sp']}
    for o in list(p['options']):
        if not o['sp'] or o['name'] in top or rnd.random() < 0.4:
            continue
        o['yield'] = True
        q = dict(o, sp='', choices=list(o['choices']))
        q['yield'] = False
        ty = o['type']
        if ty == 'boolean':
            q['value'] = 'false' if o['value'] == 'true' else 'true'
        elif ty == 'integer':
            q['value'] = str(int(o['value']) + 7)
        elif ty == 'combo':
            q['value'] = [c for c in o['choices'] if c != o['value']][0]
        elif ty == 'array':
            q['value'] = ['top'] if list(o['value']) != ['top'] else []
        elif ty == 'feature':
            q['value'] = [c for c in ('enabled', 'disabled', 'auto') if c != o['value']][0]
        else:
            q['value'] = 'top-' + str(o['value'])
        p['options'].append(q)
        top.add(o['name'])


def subdir_matrix_project() -> T.Dict[str, T.Any]:
    """install_subdir() with every combination of strip_directory and install_dir form (plain string, derived from
    an option value, absolute), in the main project and in a subproject - always part of the run."""
    installs = []
    k = 0
    for sp in ('', 'sp1'):
        for strip in (False, True):
            for how in ('plain', 'option', 'abs', 'default'):
                k += 1
                # every second directory is spelled with a trailing slash (legal: install_subdir('docs/', ...))
                it: T.Dict[str, T.Any] = {'kind': 'subdir', 'sp': sp, 'files': [f'sd{k}' + ('/' if k % 2 == 0 else ''), 'f1.txt', 'sub/f2.txt'],
                                          'strip': strip}
                if how == 'plain':
                    it['install_dir'] = f'share/plain{k}'
                elif how == 'abs':
                    it['install_dir'] = f'/abs/sd{k}'
                elif how == 'option':
                    opt = ('datadir', 'libdir', 'includedir')[k % 3]
                    it['install_dir'] = '{%s}/x%d' % (opt, k)
                    it['dir_expr'] = f"get_option('{opt}') / 'x{k}'"
                installs.append(it)
    return projgen.normalize({'name': 'sdm', 'lang': '', 'installs': installs, 'model_tree': True})


def preserve_path_project() -> T.Dict[str, T.Any]:
    """install_data / install_headers with preserve_path: true and sources in nested directories (the same
    basename in several of them), default / plain / option-derived install_dir, main project and subproject."""
    installs = []
    k = 0
    for sp in ('', 'sp1'):
        for kind, ext, opt in (('data', 'txt', 'datadir'), ('headers', 'h', 'includedir')):
            for how in ('default', 'plain', 'option'):
                k += 1
                it: T.Dict[str, T.Any] = {'kind': kind, 'sp': sp, 'preserve': True, 'subdir': '' if k % 2 else 'dd',
                                          'files': [f'b{k}.{ext}', f'one/b{k}.{ext}', f'one/two/b{k}.{ext}', f'one/two/c{k}.{ext}']}
                if how == 'plain':
                    it['install_dir'] = f'share/demo-tree{k}'
                elif how == 'option' and kind == 'data':
                    it['install_dir'] = '{%s}/demo-tree%d' % (opt, k)
                    it['dir_expr'] = f"get_option('{opt}') / 'demo-tree{k}'"
                elif how == 'option':
                    # install_headers shows an option-derived directory without its placeholder (manual silent)
                    it['install_dir'] = f'include/demo-tree{k}'
                installs.append(it)
    return projgen.normalize({'name': 'ppm', 'lang': '', 'installs': installs, 'model_tree': True})


def build_subdir_project(layout: str) -> T.Dict[str, T.Any]:
    """Targets of every file-producing kind with build_subdir:, in the root, a subdirectory and a subproject."""
    ts = [
        {'kind': 'exe', 'name': 'tool', 'srcs': ['m1.c'], 'subdir': 'src', 'bsub': 'bin', 'install': True},
        {'kind': 'static', 'name': 'st', 'srcs': ['m2.c'], 'subdir': 'src', 'bsub': 'lib/x'},
        {'kind': 'both', 'name': 'bo', 'srcs': ['m3.c'], 'bsub': 'libs'},
        {'kind': 'custom', 'name': 'ct', 'outs': ['o1.txt', 'o2.txt'], 'bsub': 'gen', 'bbd': 'true'},
        {'kind': 'exe', 'name': 'plain', 'srcs': ['m5.c'], 'link': [2]},
    ]
    ts = [dict(t, sp='sp1', name='sp' + t['name']) for t in ts[:2]] + ts
    ts[-1]['link'] = [4]
    return projgen.normalize({'name': 'bsub', 'layout': layout, 'deflib': 'shared', 'targets': ts,
                              'tests': [{'name': 't', 'exe': 3, 'depends': [6]}]})


OPTSUB_MODES = ('error', 'version', 'mesonver', 'nested', 'late')


def optional_subproject_probe(rnd: random.Random, k: int) -> T.Dict[str, T.Any]:
    """A language-less project with subproject(..., required: false) calls that FAIL in different ways after having
    read some of their build files (error() after subdir(), version: mismatch found after the whole subproject ran,
    meson_version refused by project(), a nested required subproject that fails, a failure after an option file was
    read), next to subprojects that work.  Judged by the relational clauses (BuildFilesVsRead: strace)."""
    modes = sorted(rnd.sample(OPTSUB_MODES, rnd.randint(1, len(OPTSUB_MODES))))
    files: T.Dict[str, str] = {}
    main = ["project('optsub', version: '1.0', meson_version: '>=1.3.0')", "subproject('good_first')"]
    files['meson.options'] = "option('top_opt', type: 'string', value: 'x')\n"
    files['subprojects/good_first/meson.build'] = "project('good_first', version: '2.0')\nsubdir('d')\n"
    files['subprojects/good_first/d/meson.build'] = "message('good_first/d')\n"
    for m in modes:
        name = 'fail_' + m
        d = f'subprojects/{name}'
        kw = ", version: '>=9'" if m == 'version' else ''
        main.append(f"subproject('{name}', required: false{kw})")
        if m == 'error':
            files[f'{d}/meson.build'] = f"project('{name}')\nsubdir('inner')\nerror('deliberate')\nsubdir('never')\n"
            files[f'{d}/inner/meson.build'] = "message('inner')\n"
            files[f'{d}/never/meson.build'] = "message('never read')\n"
        elif m == 'version':
            files[f'{d}/meson.build'] = f"project('{name}', version: '1.0')\nsubdir('inner')\n"
            files[f'{d}/inner/meson.build'] = "message('inner')\n"
            files[f'{d}/meson.options'] = "option('vo', type: 'boolean', value: true)\n"
        elif m == 'mesonver':
            files[f'{d}/meson.build'] = f"project('{name}', meson_version: '>=99.0')\n"
            files[f'{d}/meson.options'] = "option('mo', type: 'boolean', value: true)\n"
        elif m == 'nested':
            files[f'{d}/meson.build'] = f"project('{name}')\nsubproject('fail_inner')\n"
            files['subprojects/fail_inner/meson.build'] = "project('fail_inner')\nsubdir('deep')\nerror('inner failure')\n"
            files['subprojects/fail_inner/deep/meson.build'] = "message('deep')\n"
        else:
            files[f'{d}/meson.build'] = f"project('{name}')\nx = get_option('lo')\nsubdir('a')\nsubdir('b')\nassert(false, 'late')\n"
            files[f'{d}/meson_options.txt'] = "option('lo', type: 'string', value: 'v')\n"
            files[f'{d}/a/meson.build'] = "subdir('aa')\n"
            files[f'{d}/a/aa/meson.build'] = "message('aa')\n"
            files[f'{d}/b/meson.build'] = "message('b')\n"
    main.append("subproject('good_last')")
    files['subprojects/good_last/meson.build'] = "project('good_last')\n"
    files['subprojects/unused/meson.build'] = "project('unused')\n"
    files['meson.build'] = '\n'.join(main) + '\n'
    return {'id': f'O{k}', 'kind': 'corpus', 'p': None, 'files': files, 'views': True, 'trace_reads': True,
            'name': 'optional-subprojects:' + '+'.join(modes), 'tag': 'optional-subprojects:' + '+'.join(modes)}


def same_name_installed_project() -> T.Dict[str, T.Any]:
    """Installed targets that produce files of the SAME NAME in different directories (layout=mirror), installed to
    different places: two custom targets, two executables, a versioned shared library next to an unversioned one
    of the same name."""
    d = sp15.expr
    ts = [
        {'kind': 'custom', 'name': 'gen', 'outs': ['data.dat'], 'install': True, 'idirs': [d('slash', sp15.lit('share/one'))]},
        {'kind': 'exe', 'name': 'tool', 'srcs': ['m1.c'], 'install': True},
        {'kind': 'shared', 'name': 'dup', 'srcs': ['l1.c'], 'install': True, 'ver': '1.2.3'},
        {'kind': 'custom', 'name': 'gen', 'subdir': 'sub', 'outs': ['data.dat', 'other.dat'], 'install': True,
         'idirs': [d('slash', sp15.opt('datadir'), sp15.lit('two')), d('slash', sp15.lit('share/three'))]},
        {'kind': 'exe', 'name': 'tool', 'subdir': 'sub', 'srcs': ['m2.c'], 'install': True,
         'idir': d('slash', sp15.opt('libexecdir'), sp15.lit('helpers'))},
        # (unversioned: intro-installed.json lists symbolic links by their name, two `libdup.so` aliases cannot both appear)
        {'kind': 'shared', 'name': 'dup', 'subdir': 'sub', 'srcs': ['l2.c'], 'install': True,
         'idir': d('slash', sp15.opt('libdir'), sp15.lit('private'))},
    ]
    return projgen.normalize({'name': 'samename', 'layout': 'mirror', 'deflib': 'shared', 'targets': ts, 'model_tree': True})


def jar_probe(layout: str) -> T.Dict[str, T.Any]:
    """jar() targets (root, subdirectory with build_subdir:, one with its own install_dir), as a literal tree."""
    files = {
        'meson.build': "project('jars', 'java', version: '1.0')\nj1 = jar('app', 'Main.java', main_class: 'Main', install: true)\n"
                       "subdir('sub')\ntest('t1', j1)\ntest('t2', j2, depends: j1)\ntest('t3', j3, depends: [j1, j2])\n",
        'sub/meson.build': "j2 = jar('lib-x', 'com/x/Lib.java', build_subdir: 'jars', install: true, "
                           "install_dir: get_option('libexecdir') / 'jars')\n"
                           "j3 = jar('other', 'Other.java', main_class: 'Other', install: true, install_dir: 'opt/j')\n",
        'Main.java': 'class Main { public static void main(String[] a) {} }\n',
        'sub/com/x/Lib.java': 'package com.x;\npublic class Lib { public static void main(String[] a) {} }\n',
        'sub/Other.java': 'class Other { public static void main(String[] a) {} }\n',
    }
    return {'id': f'J-{layout}', 'kind': 'corpus', 'p': None, 'files': files, 'views': True, 'install': True, 'ask_rebuild': True,
            'name': f'jar-targets-{layout}', 'extra_args': [f'-Dlayout={layout}', '--prefix=/usr/zz', '-Ddatadir=share/dd'],
            'timeout': 900}


def to_trace(case: T.Dict[str, T.Any]) -> T.Dict[str, T.Any]:
    v = case['views']
    d = {'id': case['id'], 'p': case['p'], 'has_p': case['kind'] == 'proj', 'M': v['M']}
    for k in ('targets', 'tests', 'benchmarks', 'tests_dat', 'benchmarks_dat', 'options', 'messages', 'dirs', 'plan',
              'installed', 'dat', 'dir_listing', 'did_install', 'tree', 'did_test', 'runs', 'bsfiles', 'bs_missing',
              'has_ninja', 'regen_inputs', 'requests', 'dat_links', 'dat_empty', 'did_trace', 'read_files', 'read_bsfiles'):
        d[k] = v[k]
    return d


def custom_source_causes(case: T.Dict[str, T.Any], items: T.List[str]) -> T.Optional[str]:
    """Normalised cause of a CustomTargetSources mismatch on a generated project, or None if unexplained."""
    p = case['p']
    outs = set()
    for e in case['M']['edges']:
        outs.update(e['outs'])
    listed_only = [x for x in items if x not in outs]
    consumed_only = [x for x in items if x in outs]
    causes = set()
    cbase = {x.rsplit('/', 1)[-1] for x in consumed_only}
    idx_first = set()
    whole = set()
    for t in p['targets']:
        if t['kind'] == 'custom':
            for r in t.get('genidx', []):
                idx_first.add(p['targets'][r - 1]['outs'][0])
            for r in t.get('gen', []):
                whole.update(p['targets'][r - 1]['outs'])
    for x in listed_only:
        if p['layout'] == 'flat' and x.rsplit('/', 1)[-1] in cbase and x.rsplit('/', 1)[-1] in whole:
            causes.add('input-target-listed-with-mirror-dir-under-flat-layout')
        else:
            return None
    for x in consumed_only:
        b = x.rsplit('/', 1)[-1]
        if p['layout'] == 'flat' and b in whole and any(y.rsplit('/', 1)[-1] == b for y in listed_only):
            continue
        if b in idx_first:
            causes.add('indexed-custom-target-input-not-listed')
        else:
            return None
    return '+'.join(sorted(causes)) if causes else None


def signature(case: T.Dict[str, T.Any], v: T.Dict[str, T.Any]) -> str:
    what = case['info'].get('name') or case['info'].get('flavour', '')
    det = '|'.join(sorted(str(x) for x in v['detail'])[:3])[:200]
    if v['clause'] == 'OptionsVsGetOption' and v.get('category'):
        return f"OptionsVsGetOption:{v['category']}"
    if v['clause'] == 'InstallFilename' and v['detail']:
        # normalised cause: every offending location is that of a file whose NAME is installed from two targets
        names = [x['src'].rsplit('/', 1)[-1] for x in case['views']['plan'] if x['section'] == 'targets'] \
            + [a[len('@name/'):] for a, _ in case['views']['installed'] if a.startswith('@name/')]
        if all(names.count(str(x).rsplit('/', 1)[-1]) > 1 for x in v['detail']):
            return 'InstallFilename:same-file-name-installed-from-two-targets'
    if v['clause'] == 'BuildFilesVsRead' and case['info'].get('files') is not None:
        # normalised cause: the failing optional subprojects whose files are concerned
        # (every offending file was read but is not listed, and lies in a subproject that failed and was disabled)
        read = set(case['views']['read_files'])
        if all(str(x).startswith('subprojects/fail_') and x in read for x in v['detail']):
            return 'BuildFilesVsRead:files-of-failed-optional-subproject-read-but-not-listed'
    if case['info'].get('tag'):
        # dedicated probe project (fixed input): the clause identifies the finding
        return f"{v['clause']}@{case['info']['tag']}"
    if v['clause'] in ('PlanVsInstallData', 'InstalledVsInstallData') and v['detail']:
        # normalised cause: every offending source path is installed to more than one destination (the JSON
        # files are keyed by source path and can hold only one of them)
        srcs = [e['src'] for e in case['views']['dat']]
        if all(srcs.count(x) > 1 for x in v['detail']):
            return f"{v['clause']}:same-source-installed-to-several-destinations"
    if case['kind'] == 'corpus':
        return f"{v['clause']}@corpus:{what}:{det}"
    if v['clause'] == 'CustomTargetSources':
        cause = custom_source_causes(case, v['detail'])
        if cause:
            return f"CustomTargetSources:{cause}"
    # normalise scratch paths out of the detail
    return f"{v['clause']}@{what}:{det}"


def report(chk: Check, c: T.Dict[str, T.Any], vv: T.Dict[str, T.Any]) -> None:
    for b in vv['bad']:
        groups: T.Dict[str, T.List[str]] = {}
        if b['clause'] == 'OptionsVsGetOption':
            # one violation per kind of disagreement (the kind is computed by the judge: IntroConsistent.OptCategory)
            for item in b['detail']:
                groups.setdefault(str(item).split('|', 1)[0], []).append(item)
        else:
            groups[''] = b['detail']
        for cat, items in sorted(groups.items()):
            v = {'id': vv['id'], 'clause': b['clause'], 'detail': items, 'category': cat}
            chk.violation(signature(c, v), {'verdict': v, 'kind': c['kind'], 'info': c['info'], 'project': c['p']})


def model_check(chk: Check, quick: bool) -> T.Dict[str, T.Any]:
    cfg = (SPECS / 'ninja' / 'IntroModel_MC.cfg').read_text()
    if quick:
        cfg = cfg.replace('Deflibs = {"shared", "both", "static"}', 'Deflibs = {"shared", "both"}')
        cfg = cfg.replace('LocSet = "all"', 'LocSet = "small"')
    res = run_tlc(SPECS / 'ninja', 'IntroModel_MC', cfg_text=cfg, collect=['family.json'], timeout=3000, workers=8,
                  allow_violation=False)
    chk.add_tlc('IntroModel_MC', res)
    return json.loads(res.collected['family.json'])


def main(chk: Check) -> None:
    quick = chk.tier == 'quick'
    rnd = random.Random(chk.seed * 1000003 + 15)
    n_c = 20 if quick else 300
    n_data = 14 if quick else 200
    n_family = 14 if quick else 400
    n_corpus = 28 if quick else 10000
    chk.rule = ('seeded random C projects (3-12 targets, tests, installs, options, subprojects; ninja backend), language-less '
                'data projects (--backend=none, real `meson install --destdir` and real `meson test`), a sample of the TLC '
                'family and test cases/common. Non-trivial = a configured project whose views hold at least 3 targets or an '
                'install plan entry or a test (distinct by abstract project / corpus directory).')
    jobs: T.List[T.Dict[str, T.Any]] = []
    # the naming / install space TLC enumerates, checks and assembles into projects (binding A)
    space = sp15.model_check(chk, [chk.seed % 6] if quick else [0, 1, 2, 3, 4, 5])
    chk.extra['space'] = space['counts']
    jobs += sp15.space_jobs(space, quick, chk.seed)
    for k in range(n_c):
        r2 = random.Random(chk.seed * 104729 + k)
        p = projgen.random_project(r2, n_targets=r2.randint(3, 12), custom_inputs=True, alias_runs=True, build_subdirs=True)
        pre = r2.choice(['/usr/local', '/usr', '/opt/p q'])
        sp15.fill(p)
        sp15.decorate_targets(p, random.Random(chk.seed * 7919 + k))
        yielding_options(p, random.Random(chk.seed * 7933 + k))
        p['model_tree'] = True
        jobs.append({'id': f'R{k}', 'kind': 'proj', 'p': p, 'views': True, 'flavour': f'randomC#{k}', 'install': True,
                     'ask_rebuild': True,
                     'extra_args': [f'--prefix={pre}'] + r2.choice([[], ['--libdir=lib'], ['--bindir=/abs/bin']])
                     + option_overrides(p, r2)})
    for k in range(n_data):
        r2 = random.Random(chk.seed * 15485863 + k)
        p = projgen.random_data_project(r2)
        pre = r2.choice(['/usr/local', '/usr', '/opt/p q'])
        sp15.fill(p)
        sp15.decorate_installs(p, random.Random(chk.seed * 7927 + k))
        yielding_options(p, random.Random(chk.seed * 7937 + k))
        p['model_tree'] = True
        jobs.append({'id': f'D{k}', 'kind': 'proj', 'p': p, 'views': True, 'backend': 'none', 'install': True,
                     'run_tests': True, 'flavour': f'data#{k}', 'extra_args': [f'--prefix={pre}'] + option_overrides(p, r2),
                     'trace_reads': k % 4 == 0})
    jobs.append({'id': 'S0', 'kind': 'proj', 'p': subdir_matrix_project(), 'views': True, 'backend': 'none', 'install': True,
                 'run_tests': False, 'flavour': 'install_subdir-matrix', 'extra_args': ['--prefix=/usr/zz', '-Ddatadir=share/dd']})
    jobs.append({'id': 'S2', 'kind': 'proj', 'p': build_subdir_project('mirror'), 'views': True, 'flavour': 'build_subdir-mirror'})
    jobs.append({'id': 'S3', 'kind': 'proj', 'p': build_subdir_project('flat'), 'views': True, 'flavour': 'build_subdir-flat',
                 'tag': 'flat-layout-with-build_subdir'})
    jobs.append({'id': 'S4', 'kind': 'proj', 'p': same_name_installed_project(), 'views': True, 'install': True,
                 'flavour': 'same-name-installed', 'extra_args': ['--prefix=/usr/zz']})
    jobs.append({'id': 'S1', 'kind': 'proj', 'p': preserve_path_project(), 'views': True, 'backend': 'none', 'install': True,
                 'run_tests': False, 'flavour': 'preserve_path-matrix', 'extra_args': ['--prefix=/usr/zz']})
    for k in range(2 if quick else 12):
        jobs.append(optional_subproject_probe(random.Random(chk.seed * 7949 + k), k))
    if shutil.which('javac'):
        jobs += [jar_probe(lay) for lay in (('mirror', 'flat') if not quick else (('mirror', 'flat')[chk.seed % 2],))]
    dirs = bv.corpus_dirs()
    if len(dirs) > n_corpus:
        dirs = sorted(rnd.sample(dirs, n_corpus))
    for dd in dirs:
        jobs.append({'id': 'C:' + dd.name, 'kind': 'corpus', 'p': None, 'srcdir': str(dd), 'name': dd.name, 'views': True,
                     'timeout': 240})
    cases: T.List[T.Dict[str, T.Any]] = []
    with ProcessPoolExecutor(max_workers=common.NCPU) as ex:
        futs = [ex.submit(_run_job, j) for j in jobs]
        fam = model_check(chk, quick)
        ok = [dict(p, family=f) for f in ('f1', 'f2', 'f3', 'f4', 'f5') for p in fam[f] if not p['x']['collides']]
        fjobs = []
        for k, p in enumerate(rnd.sample(ok, min(len(ok), n_family))):
            p.pop('x')
            family = p.pop('family')
            projgen.normalize(p)
            if family != 'f5':
                p['unity'] = rnd.choice(['off', 'on'])
            fjobs.append({'id': f'A{k}', 'kind': 'proj', 'p': p, 'views': True, 'flavour': f'family-{family}#{k}'})
        futs += [ex.submit(_run_job, j) for j in fjobs]
        for f in futs:
            cases.append(f.result())
    chk.extra['family_sizes'] = {k: len(v) for k, v in fam.items()}
    configured = [c for c in cases if c['configured']]
    for c in cases:
        if c['kind'] == 'proj' and not c['configured']:
            raise MachineryError(f"generated project {c['id']} did not configure: {c['info'].get('error')} :: "
                                 f"{json.dumps(c['p'])[:500]}")
    chk.extra['corpus_configured'] = sum(1 for c in configured if c['kind'] == 'corpus')
    chk.extra['corpus_skipped_not_configurable_here'] = sum(1 for c in cases if c['kind'] == 'corpus' and not c['configured'])
    chk.extra['installs_run'] = sum(1 for c in configured if c['views']['did_install'])
    chk.extra['rebuild_requests_observed'] = sum(len(c['views']['requests']) for c in configured)
    chk.extra['setups_traced'] = sum(1 for c in configured if c['views'].get('did_trace'))
    chk.extra['test_runs_observed'] = sum(len(c['views']['runs']) for c in configured)
    for c in configured:
        v = c['views']
        if len(v['targets']) >= 3 or v['plan'] or v['tests'] or v['benchmarks']:
            chk.nontriv(c['id'] if c['kind'] == 'corpus' else json.dumps(c['p'], sort_keys=True))
        chk.evaluations += 1
    for c in configured[:: max(1, len(configured) // 4)][:4]:
        v = c['views']
        chk.sample({'id': c['id'], 'what': c['info'].get('name') or c['info'].get('flavour'),
                    'targets': [{k: t[k] for k in ('id', 'type', 'filenames', 'srcs', 'gens')} for t in v['targets'][:2]],
                    'tests': v['tests'][:1], 'plan': v['plan'][:2], 'installed': v['installed'][:2],
                    'messages': v['messages'][:2], 'bsfiles': v['bsfiles'][:4], 'runs': [r['argv'] for r in v['runs'][:1]]},
                   limit=6)
    traces = [to_trace(c) for c in configured]
    by_id = {c['id']: c for c in configured}
    bad = bv.judge_cases(chk, 'TraceIntro', traces, 'views', fields=None, chunk=200)
    chk.traces += len(traces)
    for vv in bad:
        report(chk, by_id[vv['id']], vv)
    chk.assumptions += [
        'run / alias targets are not checked for file names (they produce no file)',
        '"its compile statements" = the statements whose outputs the link statement of the target takes as explicit input '
        'and that do not produce another target\'s file; shared objects (both_libraries, extract_objects) are accepted '
        'when listed by any target',
        'the environment of a test is compared as "every introspected variable has that value in the process"; the '
        '.dat comparison uses EnvironmentVariables.get_env({}) on both sides',
        'there is no ninja binary: before `meson install --no-rebuild` of a ninja-backend project the harness creates the '
        'outputs the statements of build.ninja promise (small text files); real `meson test` runs only on language-less '
        '--backend=none projects; `meson test <selection>` on C projects runs with --wrapper /bin/true and a ninja stand-in '
        'that records what it is asked to build',
        'install scripts are not compared; empty directories are in no introspection file (taken from install.dat when the '
        'installed tree is compared); symbolic links are compared through intro-installed.json (keyed by link name)',
        'the SPELLING of an expression-located directory in the plan (placeholder or evaluated) is left open; what is '
        'compared is the location after resolving placeholders through intro-buildoptions.json',
        'executable(name_prefix:): the manual says the keyword is "only used for libraries" - with or without the prefix is '
        'accepted by the generator model (the relation between introspection and build.ninja is exact in any case)',
        'not generated: name_suffix: \'\' (rejected by meson), one name_suffix for both halves of a both-library, jar(), '
        'aliases of a versioned library with a custom name_suffix are optional in the model',
        'BuildFilesVsRead observes an identical second `meson setup` under strace (files named meson.build / meson.options / '
        'meson_options.txt below the source directory opened for reading) and compares it with that run\'s own file',
        'corpus projects are configured with default options only; those that do not configure here are skipped',
    ]


def replay(chk: Check, data: T.Dict[str, T.Any]) -> None:
    det = data['detail']
    info = det['info']
    if det['kind'] == 'corpus' and info.get('files') is not None:
        job = {'id': det['verdict']['id'], 'kind': 'corpus', 'p': None, 'files': info['files'], 'views': True,
               'name': info.get('name', ''), 'tag': info.get('tag', '')}
        job.update(info.get('job', {}))
    elif det['kind'] == 'corpus':
        dd = common.REPO / 'test cases' / 'common' / info['name']
        job = {'id': det['verdict']['id'], 'kind': 'corpus', 'p': None, 'srcdir': str(dd), 'name': dd.name, 'views': True}
    else:
        job = {'id': det['verdict']['id'], 'kind': 'proj', 'p': projgen.normalize(info['p_full']), 'views': True,
               'flavour': info.get('flavour', '')}
        job.update(info.get('job', {}))
    c = _run_job(job)
    if not c['configured']:
        raise MachineryError('replay: project does not configure: ' + c['info'].get('error', ''))
    bad = bv.judge_cases(chk, 'TraceIntro', [to_trace(c)], 'replay')
    for vv in bad:
        report(chk, c, vv)


if __name__ == '__main__':
    sys.exit(common.run_check(main, PROP, replay=replay))
