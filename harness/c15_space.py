"""C15 helper: binding (A) of ``specs/ninja/IntroSpace_MC`` - the bounded space of target naming keywords and of
install rules x directory spellings that TLC enumerates, checks and assembles into abstract projects - and the
rendering of the C15-only abstract fields (IntroRules.tla) to the keyword arguments projgen writes verbatim.

Abstract fields (all optional in a project that comes from projgen's generators):
  target:  npre / nsuf ('<unset>' | '<[]>' | literal), ver, sover, also ('' | 'darwin_versions' | 'export_dynamic' |
           'implib'), idir (directory expression of install_dir:), idirs (custom target: one expression per output)
  install: dir (directory expression), locale (install_man), hsub (install_headers subdir:)
  project: model_tree (the tree `meson install` creates is compared with IntroRules.ModelTreeMust / May)
A directory expression is {'how': 'none' | 'slash' | 'join' | 'false', 'parts': [{'k': 'lit' | 'opt' | 'cat', 'v': str}]}.
No verdicts are computed here.
"""
from __future__ import annotations

import json
import random
import typing as T

from . import projgen
from .common import Check, SPECS, run_tlc

NO_DIR: T.Dict[str, T.Any] = {'how': 'none', 'parts': []}
TARGET_FIELDS: T.Dict[str, T.Any] = {'npre': '<unset>', 'nsuf': '<unset>', 'ver': '', 'sover': '', 'also': '', 'idir': NO_DIR,
                                     'idirs': []}
INSTALL_FIELDS: T.Dict[str, T.Any] = {'dir': NO_DIR, 'locale': '', 'hsub': ''}


def lit(s: str) -> T.Dict[str, str]:
    return {'k': 'lit', 'v': s}


def opt(s: str) -> T.Dict[str, str]:
    return {'k': 'opt', 'v': s}


def cat(s: str) -> T.Dict[str, str]:
    return {'k': 'cat', 'v': s}


def expr(how: str, *parts: T.Dict[str, str]) -> T.Dict[str, T.Any]:
    return {'how': how, 'parts': list(parts)}


def _norm_expr(e: T.Any) -> T.Dict[str, T.Any]:
    if not e:
        return dict(NO_DIR, parts=[])
    return {'how': e['how'], 'parts': [dict(x) for x in (e.get('parts') or [])]}


def fill(p: T.Dict[str, T.Any]) -> T.Dict[str, T.Any]:
    """Give every target / install rule of p the C15 fields (defaults), in place."""
    for t in p['targets']:
        for k, v in TARGET_FIELDS.items():
            if k not in t:
                t[k] = [] if isinstance(v, list) else (dict(v, parts=[]) if isinstance(v, dict) else v)
        t['idir'] = _norm_expr(t['idir'])
        t['idirs'] = [_norm_expr(e) for e in (t['idirs'] or [])]
    for it in p['installs']:
        for k, v in INSTALL_FIELDS.items():
            if k not in it:
                it[k] = dict(v, parts=[]) if isinstance(v, dict) else v
        it['dir'] = _norm_expr(it['dir'])
    p.setdefault('model_tree', False)
    return p


def render_expr(e: T.Dict[str, T.Any]) -> str:
    """Directory expression -> meson source text."""
    def term(x: T.Dict[str, str]) -> str:
        return f"get_option({projgen.mstr(x['v'])})" if x['k'] == 'opt' else projgen.mstr(x['v'])
    parts = e['parts']
    if e['how'] == 'false':
        return 'false'
    if e['how'] == 'join':
        return 'join_paths(' + ', '.join(term(x) for x in parts) + ')'
    text = term(parts[0])
    for x in parts[1:]:
        text = f"({text} {'+' if x['k'] == 'cat' else '/'} {term(x)})"
    return text


def render(p: T.Dict[str, T.Any]) -> T.Dict[str, T.Any]:
    """Turn the abstract C15 fields into the verbatim keyword arguments (`extra`, `dir_expr`) projgen writes."""
    fill(p)
    for t in p['targets']:
        ex = dict(t.get('extra') or {})
        for field, kw in (('npre', 'name_prefix'), ('nsuf', 'name_suffix')):
            if t[field] == '<[]>':
                ex[kw] = '[]'
            elif t[field] != '<unset>':
                ex[kw] = projgen.mstr(t[field])
        if t['ver']:
            ex['version'] = projgen.mstr(t['ver'])
        if t['sover']:
            # "soversion: str | int"
            ex['soversion'] = t['sover'] if (t['sover'].isdigit() and len(t['name']) % 2) else projgen.mstr(t['sover'])
        if t['also'] == 'darwin_versions':
            ex['darwin_versions'] = "['1', '2.3']"
        elif t['also'] == 'export_dynamic':
            ex['export_dynamic'] = 'true'
        elif t['also'] == 'implib':
            ex['export_dynamic'] = 'true'
            ex['implib'] = projgen.mstr('imp_' + t['name'])
        if t['idir']['how'] != 'none':
            ex['install_dir'] = render_expr(t['idir'])
        if t['idirs']:
            ex['install_dir'] = render_expr(t['idirs'][0]) if len(t['idirs']) == 1 else \
                '[' + ', '.join(render_expr(e) for e in t['idirs']) + ']'
        t['extra'] = ex
    for it in p['installs']:
        ex = dict(it.get('extra') or {})
        if it['dir']['how'] != 'none':
            it['dir_expr'] = render_expr(it['dir'])
        if it['locale']:
            ex['locale'] = projgen.mstr(it['locale'])
        if it['hsub']:
            ex['subdir'] = projgen.mstr(it['hsub'])
        it['extra'] = ex
    return p


def tlc_fields(case_p: T.Dict[str, T.Any], p: T.Dict[str, T.Any]) -> None:
    """Add the C15 fields of abstract project p to its TLC form (backend_views.tlc_project keeps projgen's only)."""
    for ct, t in zip(case_p['targets'], p['targets']):
        for k in TARGET_FIELDS:
            ct[k] = t[k]
    for ci, it in zip(case_p['installs'], p['installs']):
        for k in INSTALL_FIELDS:
            ci[k] = it[k]
    for co, o in zip(case_p['options'], p['options']):
        co['yield'] = bool(o.get('yield', False))
    case_p['model_tree'] = bool(p.get('model_tree'))


def model_check(chk: Check, rots: T.Sequence[int]) -> T.Dict[str, T.Any]:
    cfg = (SPECS / 'ninja' / 'IntroSpace_MC.cfg').read_text()
    cfg = cfg.replace('Rots = {0, 1, 2, 3, 4, 5}', 'Rots = {' + ', '.join(str(r) for r in rots) + '}')
    res = run_tlc(SPECS / 'ninja', 'IntroSpace_MC', cfg_text=cfg, collect=['space.json'], timeout=3000, workers=8,
                  allow_violation=False)
    chk.add_tlc('IntroSpace_MC', res)
    return json.loads(res.collected['space.json'])


def valuation_args(v: T.Dict[str, str]) -> T.List[str]:
    return [f"--prefix={v['prefix']}"] + [f'-D{k}={val}' for k, val in sorted(v.items()) if k != 'prefix']


def space_jobs(space: T.Dict[str, T.Any], quick: bool, seed: int) -> T.List[T.Dict[str, T.Any]]:
    """The projects TLC assembled, as jobs for backend_views.run_case."""
    jobs: T.List[T.Dict[str, T.Any]] = []
    vals = space['valuations']
    naming = space['naming']
    if quick:
        # one project per layout, default_library rotating with the seed
        dls = ['shared', 'static', 'both']
        want = {('mirror', dls[seed % 3]), ('flat', dls[(seed + 1) % 3])}
        naming = [x for x in naming if (x['layout'], x['deflib']) in want]
    for k, x in enumerate(naming):
        p = projgen.normalize(x['p'])
        v = vals[(k + seed) % len(vals)]
        jobs.append({'id': f'N{k}', 'kind': 'proj', 'p': p, 'views': True, 'install': True, 'ask_rebuild': True,
                     'flavour': f"naming-space-{x['layout']}-{x['deflib']}-rot{x['rot']}",
                     'extra_args': valuation_args(v), 'timeout': 900})
    for k, v in enumerate(vals):
        if quick and k != seed % len(vals) and k != (seed + 1) % len(vals):
            continue
        p = projgen.normalize(json.loads(json.dumps(space['install'])))
        jobs.append({'id': f'I{k}', 'kind': 'proj', 'p': p, 'views': True, 'install': True,
                     'flavour': f'install-space-v{k}', 'extra_args': valuation_args(v), 'timeout': 900})
    return jobs


def decorate_targets(p: T.Dict[str, T.Any], rnd: random.Random) -> None:
    """Give some build targets of a random project naming keywords (names stay distinct: the prefix / suffix carry
    the target's index) and some installed targets an option-derived install directory."""
    both = p['deflib'] == 'both'
    for i, t in enumerate(p['targets'], 1):
        if t['kind'] not in projgen.BUILD_KINDS:
            continue
        if rnd.random() < 0.35:
            t['npre'] = rnd.choice(['<[]>', '', f'p{i}-', f'lib{i}_'])
        two_halves = t['kind'] == 'both' or (t['kind'] == 'lib' and both)
        if rnd.random() < 0.25 and not two_halves:
            t['nsuf'] = rnd.choice(['<[]>', f's{i}', 'bin'])
        # (intro-installed.json lists the alias links of a versioned library by name: only uniquely named libraries get one)
        unique = sum(1 for u in p['targets'] if u['name'] == t['name']) == 1
        if t['kind'] in ('shared', 'both', 'lib') and unique and rnd.random() < 0.4:
            t['ver'] = rnd.choice(['', '1.2.3', '0.9'])
            t['sover'] = rnd.choice(['', '4', '1']) if (t['ver'] == '' or rnd.random() < 0.5) else ''
        if t['install'] and rnd.random() < 0.4:
            o = rnd.choice(['libexecdir', 'datadir', 'bindir', 'libdir'])
            t['idir'] = rnd.choice([expr('slash', opt(o)), expr('slash', opt(o), lit(f'sub{i}')), expr('join', opt(o), lit(f'j{i}')),
                                    expr('slash', lit(f'opt/t{i}')), expr('slash', opt('prefix'), cat(f'/pc{i}'))])


def decorate_installs(p: T.Dict[str, T.Any], rnd: random.Random) -> None:
    """Give some install rules of a random data project an expression-located directory, a locale, a subdir:; add
    empty directories, symbolic links and installed configure_file()s."""
    for k, it in enumerate(p['installs'], 1):
        if it['install_dir'] or it.get('dir_expr') or it['kind'] not in ('man', 'headers', 'data', 'subdir'):
            continue
        r = rnd.random()
        o = rnd.choice(['datadir', 'libdir', 'includedir', 'mandir', 'sysconfdir', 'libexecdir'])
        if r < 0.45:
            it['dir'] = rnd.choice([expr('slash', opt(o)), expr('slash', opt(o), lit(f'e{k}')), expr('join', opt(o), lit(f'j{k}')),
                                    expr('slash', opt('prefix'), opt(o), lit(f'po{k}')), expr('slash', opt(o), cat(f'/oc{k}')),
                                    expr('slash', opt('prefix'), cat(f'/pc{k}'))])
        elif r < 0.6 and it['kind'] == 'headers' and not it['preserve']:
            it['hsub'] = f'inc{k}'
        if it['kind'] == 'man' and rnd.random() < 0.4:
            it['locale'] = rnd.choice(['fr', 'de'])
            it['files'] = [f.replace('.', f".{it['locale']}.", 1) for f in it['files']]
    sps = sorted({it['sp'] for it in p['installs']} | {''})
    n = len(p['installs'])
    for j in range(rnd.randint(0, 3)):
        n += 1
        o = rnd.choice(['datadir', 'libdir', 'localstatedir', 'sysconfdir'])
        kind = rnd.choice(['emptydir', 'symlink', 'conf'])
        d = rnd.choice([expr('slash', opt(o), lit(f'x{n}')), expr('slash', lit(f'share/x{n}')), expr('slash', lit(f'/abs/x{n}')),
                        expr('join', opt(o), lit(f'jx{n}'))])
        files = {'emptydir': [f'empty{n}'], 'symlink': [f'ln{n}', f'../tgt{n}'], 'conf': [f'cf{n}.out']}[kind]
        p['installs'].append(dict(projgen.INSTALL_DEFAULTS, kind=kind, sp=rnd.choice(sps), files=files, dir=d,
                                  rename=[], extra={}))
