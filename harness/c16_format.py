"""C16 - `meson format` preserves meaning and comments and is idempotent.

1. TLC model-checks specs/format/FormatEquiv_MC: the normal form ignores
   exactly layout trivia and distinguishes literals by denotation.
2. (B) generated programs (core language + build-file flavoured calls,
   files(), long argument lists) decorated with legal trivia, every build file
   of the repository and token mutants of them are formatted by the real
   ``Formatter`` under seeded option combinations; input and output are
   tokenised, and TLC (TraceFormat) parses both with the reference grammar and
   compares normal forms and comment sequences; idempotence and the
   --check-only / --check-diff exit status are recorded by the harness and
   judged in the same trace.
"""
from __future__ import annotations

import argparse
import contextlib
import io
import json
import os
import random
import sys
import tempfile
import typing as T
from concurrent.futures import ProcessPoolExecutor
from pathlib import Path

from . import common, lang_driver as ld, lang_gen
from .common import Check, MachineryError, SPECS, run_tlc, scratch
from .c02_parser import corpus_files, mutate_tokens

PROP = 'C16'
BOOL_OPTS = ['space_array', 'kwargs_force_multiline', 'wide_colon', 'no_single_comma_function', 'simplify_string_literals',
             'insert_final_newline', 'sort_files', 'group_arg_value']


def random_config(rnd: random.Random) -> T.Dict[str, T.Any]:
    cfg: T.Dict[str, T.Any] = {}
    for o in BOOL_OPTS:
        if rnd.random() < 0.6:
            cfg[o] = rnd.random() < 0.5
    if rnd.random() < 0.7:
        cfg['max_line_length'] = rnd.choice([10, 20, 40, 60, 80, 120])
    if rnd.random() < 0.5:
        cfg['indent_by'] = rnd.choice(["'  '", "'    '", "'\t'", "' '", "''"])
    if rnd.random() < 0.3:
        cfg['indent_before_comments'] = rnd.choice(["' '", "'  '", "''"])
    if rnd.random() < 0.3:
        cfg['tab_width'] = rnd.choice([2, 4, 8])
    if rnd.random() < 0.3:
        cfg['end_of_line'] = rnd.choice(['lf', 'native'])
    return cfg


def config_text(cfg: T.Dict[str, T.Any]) -> str:
    return ''.join(f'{k} = {str(v).lower() if isinstance(v, bool) else v}\n' for k, v in cfg.items())


def comments_of(text: str, mp: T.Any) -> T.List[T.List[int]]:
    out = []
    for tkn in mp.Lexer(text).lex('x'):
        if tkn.tid == 'comment':
            out.append([ord(c) for c in tkn.value])
        elif tkn.tid == 'whitespace' and '#' in tkn.value:           # a comment on a continuation line
            c = tkn.value[tkn.value.index('#'):].rstrip('\n')
            out.append([ord(ch) for ch in c])
    return out


def format_case(cid: str, text: str, cfg: T.Dict[str, T.Any], tmp: Path, mods: T.Tuple[T.Any, T.Any, T.Any], alpha: ld.Alphabet,
                with_cli: bool) -> T.Optional[T.Dict[str, T.Any]]:
    mp, pr, ml = mods
    from mesonbuild import mformat
    try:
        tin, _ = ld.lex_real(text, mp)
        mp.Parser(text, 'x').parse()
    except ml.MesonException:
        return None                                   # not a formatter input
    except RecursionError:
        return None
    cfile = tmp / 'meson.format'
    cfile.write_text(config_text(cfg))
    src = tmp / 'meson.build'
    case: T.Dict[str, T.Any] = {'id': cid, 'tin': [alpha.add(t) for t in tin], 'tout': [], 'cin': comments_of(text, mp), 'cout': [],
                                'parsed': False, 'again': True, 'againclass': '', 'changed': False, 'checkrc': -1, 'diffrc': -1,
                                'sortfiles': bool(cfg.get('sort_files', False)), 'text': text, 'cfg': cfg, 'out': None}
    try:
        fmt = mformat.Formatter(cfile, False, False)
        out = fmt.format(text, src)
    except ml.MesonException as e:
        case['exc'] = 'MesonException: ' + str(e)[:200]
        return case
    except Exception as e:  # noqa: BLE001
        case['exc'] = 'internal:' + type(e).__name__ + ': ' + str(e)[:200]
        return case
    case['out'] = out
    case['changed'] = out != text
    try:
        tout, _ = ld.lex_real(out, mp)
        mp.Parser(out, 'x').parse()
        case['parsed'] = True
        case['tout'] = [alpha.add(t) for t in tout]
        case['cout'] = comments_of(out, mp)
    except ml.MesonException:
        return case
    try:
        out2 = mformat.Formatter(cfile, False, False).format(out, src)
        case['again'] = (out2 == out)
        if out2 != out:
            case['out2'] = out2
            # classify: only the indentation of some lines differs and the second pass is a fixpoint
            out3 = mformat.Formatter(cfile, False, False).format(out2, src)
            strip = lambda t: [l.lstrip(' \t') for l in t.split('\n')]  # noqa: E731
            if out3 == out2 and strip(out) == strip(out2):
                case['againclass'] = 'indent'
            elif '\\\n' in text:
                case['againclass'] = 'continuation'
            elif cfg.get('no_single_comma_function'):
                # a single-argument call loses its trailing comma first and is collapsed (and the freed room re-flowed) later
                nows = lambda t: ''.join(t.split()).replace(',', '')  # noqa: E731
                out4 = mformat.Formatter(cfile, False, False).format(out3, src)
                if out4 == out3 and nows(out) == nows(out2):
                    case['againclass'] = 'nosinglecomma'
            if not case['againclass']:
                # a fixpoint is reached on the second or third pass and the passes differ only in layout: line breaks,
                # indentation, trailing commas and the brackets of a files([...]) that is flattened late
                bare = lambda t: ''.join(t.split()).replace(',', '').replace('[', '').replace(']', '')  # noqa: E731
                out4 = out3 if out3 == out2 else mformat.Formatter(cfile, False, False).format(out3, src)
                if out4 == out3 and bare(out) == bare(out2) == bare(out3):
                    case['againclass'] = 'settles'
    except Exception as e:  # noqa: BLE001
        case['again'] = False
        case['out2'] = 'exception: ' + type(e).__name__
    if with_cli:
        src.write_text(text, encoding='utf-8', newline='')
        for flag, key in (('--check-only', 'checkrc'), ('--check-diff', 'diffrc')):
            p = argparse.ArgumentParser()
            mformat.add_arguments(p)
            opts = p.parse_args([flag, '-c', str(cfile), str(src)])
            buf = io.StringIO()
            try:
                with contextlib.redirect_stdout(buf):
                    case[key] = int(mformat.run(opts))
            except Exception as e:  # noqa: BLE001
                case[key] = 99
        # would formatting in place change the file?  (what the flags promise to report)
        before = src.read_bytes()
        p = argparse.ArgumentParser()
        mformat.add_arguments(p)
        try:
            mformat.run(p.parse_args(['--inplace', '-c', str(cfile), str(src)]))
            case['changed'] = src.read_bytes() != before
        except Exception:  # noqa: BLE001
            pass
    return case


def group_case(cid: str, texts: T.List[str], changed: bool, cfg: T.Dict[str, T.Any], tmp: Path, mods: T.Any) -> T.Optional[T.Dict[str, T.Any]]:
    """`meson format --check-only/--check-diff f1 f2 ...` on several files under one configuration.  Encoded as a case
    of the empty program (tin = tout = <<>>) whose `changed` is the disjunction over the files, so that the clauses
    CheckOnlyWrong / CheckDiffWrong of TraceFormat judge it."""
    from mesonbuild import mformat
    gd = tmp / 'group'
    gd.mkdir(exist_ok=True)
    cfile = gd / 'meson.format'
    cfile.write_text(config_text(cfg))
    paths = []
    for n, t in enumerate(texts):
        pth = gd / f'f{n}.build'
        pth.write_text(t, encoding='utf-8', newline='')
        paths.append(str(pth))
    case: T.Dict[str, T.Any] = {'id': cid, 'text': ' ++ '.join(texts)[:400], 'cfg': cfg, 'tin': [], 'tout': [], 'cin': [], 'cout': [],
                                'parsed': True, 'again': True, 'againclass': '', 'changed': bool(changed), 'checkrc': -1, 'diffrc': -1,
                                'sortfiles': False}
    for flag, key in (('--check-only', 'checkrc'), ('--check-diff', 'diffrc')):
        p = argparse.ArgumentParser()
        mformat.add_arguments(p)
        buf = io.StringIO()
        try:
            with contextlib.redirect_stdout(buf):
                case[key] = int(mformat.run(p.parse_args([flag, '-c', str(cfile)] + paths)))
        except Exception:  # noqa: BLE001
            case[key] = 99
    return case


def _worker(args: T.Tuple[str, int, int, int, int, T.List[str]]) -> T.Dict[str, T.Any]:
    kind, lo, hi, sd, ncfg, files = args
    mods = ld.load_modules()
    mp = mods[0]
    alpha = ld.Alphabet()
    cases = []
    pool = [ld.tok(t) for t in ('lparen', 'rparen', 'lbracket', 'rbracket', 'comma', 'colon', 'eol', 'dot', 'assign', 'plus')] + \
           [ld.ident('x'), ld.tok('number', n=3), ld.tok('string', s='s', cs=[120])]
    with tempfile.TemporaryDirectory(prefix='c16-') as td:
        tmp = Path(td)
        if kind == 'gen':
            for j in range(lo, hi):
                rnd = random.Random(sd * 999983 + j)
                toks = lang_gen.build_program(rnd) if j % 3 else lang_gen.program(rnd, err_rate=0.0)
                toks = lang_gen.decorate_nested(toks, rnd, rate=rnd.choice([0.0, 0.2, 0.5]), anywhere=rnd.choice([0.0, 0.04, 0.2]))
                text, _ = ld.render(toks, rnd, trivia=True, continuations=(j % 4 == 1))
                if j % 11 == 0 and text.endswith('\n'):
                    text = text[:-1]
                for c in range(ncfg):
                    cfg = random_config(rnd)
                    case = format_case(f'gen:{j}:{c}', text, cfg, tmp, mods, alpha, with_cli=(j % 4 == 0))
                    if case:
                        cases.append(case)
                        # boundary inputs for the check flags: a formatter fixed point, and the same text without its final newline
                        if j % 4 == 0 and c == 0 and case.get('out') and case.get('again') and case['out'].endswith('\n'):
                            members = {}
                            for tag, t2 in (('fix', case['out']), ('fixnonl', case['out'][:-1])):
                                c2 = format_case(f'gen:{j}:{c}:{tag}', t2, cfg, tmp, mods, alpha, with_cli=True)
                                if c2:
                                    cases.append(c2)
                                    members[tag] = c2
                            # several files in one invocation: a difference is reported iff formatting would change SOME file,
                            # whatever the order in which the files are visited
                            if 'fix' in members and 'changed' in case:
                                for order in ((case, members['fix']), (members['fix'], case), (members['fix'], members['fix'])):
                                    g = group_case(f'gen:{j}:{c}:group:' + '+'.join('x' if m is case else 'fix' for m in order),
                                                   [m['text'] for m in order], any(m['changed'] for m in order), cfg, tmp, mods)
                                    if g:
                                        cases.append(g)
        else:
            for fi, fn in enumerate(files):
                try:
                    text = open(fn, encoding='utf-8').read()
                except (OSError, UnicodeDecodeError):
                    continue
                if len(text) > 30000:
                    continue
                rel = os.path.relpath(fn, common.REPO)
                rnd = random.Random(hash((sd, rel)) & 0xffffffff)
                for c in range(ncfg):
                    case = format_case(f'file:{rel}:{c}', text, random_config(rnd) if c else {}, tmp, mods, alpha, with_cli=(fi % 5 == 0))
                    if case:
                        cases.append(case)
                if len(text) < 4000:
                    try:
                        toks, _ = ld.lex_real(text, mp)
                    except Exception:  # noqa: BLE001
                        continue
                    mt = mutate_tokens(toks, rnd, pool)
                    mtext, _ = ld.render(mt, rnd, trivia=True, continuations=False)
                    case = format_case(f'mut:{rel}', mtext, random_config(rnd), tmp, mods, alpha, with_cli=False)
                    if case:
                        cases.append(case)
    return {'alphabet': alpha.items, 'cases': cases}


KEEP = ('id', 'tin', 'tout', 'cin', 'cout', 'parsed', 'again', 'againclass', 'changed', 'checkrc', 'diffrc', 'sortfiles')


def judge(chk: Check, alphabet: T.List[T.Any], cases: T.List[T.Dict[str, T.Any]], label: str) -> None:
    for c in cases:
        if c.get('exc'):
            chk.violation(f"FormatterRaised@{c['exc'][:80]}@{c['text'][:60]!r}", {'text': c['text'], 'cfg': c['cfg'], 'exception': c['exc']})
    cases = [c for c in cases if not c.get('exc')]
    by_id = {c['id']: c for c in cases}
    for part_no, part in enumerate(common.size_chunks(cases, 40000, lambda c: {k: c[k] for k in KEEP})):
        with scratch('c16-') as d:
            tf = d / 'cases.json'
            tf.write_text(json.dumps({'alphabet': alphabet, 'cases': [{k: c[k] for k in KEEP} for c in part]}))
            env = {'TRACE_FILE': str(tf)}
            res = run_tlc(SPECS / 'format', 'TraceFormat', env=env, timeout=3600, heap='8g')
            if not res.clean:
                raise MachineryError('TraceFormat did not complete cleanly:\n' + res.stdout[-2500:])
            if res.distinct != 2 * len(part):
                raise MachineryError(f'TraceFormat judged {res.distinct // 2} of {len(part)} cases')
            bad = res.json_lines()
            if bad:
                bad = run_tlc(SPECS / 'format', 'TraceFormat', env=env, timeout=3600, workers=1, heap='8g').json_lines()
        chk.add_tlc(f'TraceFormat[{label}#{part_no}]', res, model=False)
        chk.traces += len(part)
        for v in bad:
            c = by_id.get(v['id'], {})
            chk.violation(signature(v, c), {'verdict': v, 'text': c.get('text'), 'cfg': c.get('cfg'), 'formatted': c.get('out'),
                                            'second_pass': c.get('out2'), 'checkrc': c.get('checkrc'), 'diffrc': c.get('diffrc'),
                                            'changed': c.get('changed')})


def signature(v: T.Dict[str, T.Any], c: T.Dict[str, T.Any]) -> str:
    clause = v.get('clause', '')
    if clause.endswith(':InputHasMissingOperand'):
        return 'InputHasMissingOperand'
    if clause.endswith(':InputHasPositionalAfterKeyword'):
        return 'InputHasPositionalAfterKeyword'
    if clause in ('NotIdempotent:IndentationSettlesOnSecondPass', 'NotIdempotent:InputHasLineContinuation',
                  'NotIdempotent:NoSingleCommaFunctionCollapsesOnSecondPass', 'NotIdempotent:LayoutSettlesOnALaterPass'):
        return clause
    text = (c.get('text') or '')
    cfg = ','.join(f'{k}={val}' for k, val in sorted((c.get('cfg') or {}).items()))
    return f"{v.get('clause')}@{text[:100]!r}@{cfg}"


def main(chk: Check) -> None:
    quick = chk.tier == 'quick'
    res = run_tlc(SPECS / 'format', 'FormatEquiv_MC', cfg_text=open(SPECS / 'format' / 'FormatEquiv_MC.cfg').read().replace(
        'MaxLen = 4', 'MaxLen = %d' % (4 if quick else 5)), timeout=3600, heap='8g', allow_violation=False)
    chk.add_tlc('FormatEquiv_MC', res)
    ngen = 1500 if quick else 40000
    ncfg = 2 if quick else 4
    chk.rule = ('seeded generated programs (core language and build-file style calls, files(), long lists) with legal trivia, every build '
                'file in the repository and token mutants, each under seeded formatter configurations; a case is non-trivial when the '
                'formatter changed the text and the output parsed (distinct (text, configuration) pairs).')
    files = corpus_files()
    if quick:
        rnd = random.Random(chk.seed)
        files = rnd.sample(files, min(len(files), 500))
    chk.extra['corpus_files'] = len(files)
    with ProcessPoolExecutor(max_workers=common.NCPU) as ex:
        step = max(1, ngen // (common.NCPU * 2))
        jobs = [('gen', lo, min(ngen, lo + step), chk.seed, ncfg, []) for lo in range(0, ngen, step)]
        groups = [files[i::common.NCPU * 2] for i in range(common.NCPU * 2)]
        jobs += [('corpus', 0, 0, chk.seed, ncfg, g) for g in groups if g]
        alphabet, cases = ld.merge_batches(ex.map(_worker, jobs))
    chk.evaluations += len(cases)
    for c in cases:
        if c['changed'] and c['parsed']:
            chk.nontriv((c['id']))
    for c in cases[:: max(1, len(cases) // 5)][:5]:
        chk.sample({'id': c['id'], 'cfg': c['cfg'], 'text': c['text'][:300], 'formatted': (c.get('out') or '')[:300]})
    judge(chk, alphabet, cases, 'B')
    chk.assumptions += [
        'comment texts are compared after stripping trailing whitespace (the formatter trims line ends)',
        'files() argument order under sort_files is compared as a multiset; sortedness itself is covered by idempotence',
        'editorconfig support and recursive/subproject traversal are not exercised',
        'tokens of input and output are produced by the real Lexer (checked at small scope by C02)',
    ]


def replay(chk: Check, data: T.Dict[str, T.Any]) -> None:
    mods = ld.load_modules()
    det = data['detail']
    alpha = ld.Alphabet()
    with tempfile.TemporaryDirectory(prefix='c16-') as td:
        case = format_case('replay', det['text'], det.get('cfg') or {}, Path(td), mods, alpha, with_cli=True)
    if case:
        judge(chk, alpha.items, [case], 'replay')


if __name__ == '__main__':
    sys.exit(common.run_check(main, PROP, replay=replay))
