"""C17 - rewriter edits are local and keep everything else meaning the same.

1. TLC model-checks specs/rewrite/Rewriter_MC: the rule book of the rewriter commands
   (AddThenRemoveRestores, RemoveThenAddKeeps, OnlyAddressedChanges, RequestedValue, ...)
   over every command sequence up to MaxLen on the small model of RewriterModel.
2. (A) spec -> code: `tlc -simulate` on the same model produces command sequences; they are
   replayed with the real `meson rewrite` on the real projects that render the model's
   initial states (TLC checks that rendering too) and judged like (B).
3. (B) code -> spec: seeded generated projects (targets whose other keyword arguments carry
   closed expressions of the language generators, sources inline / in variables / shared
   variables / files() / sub-directories / if-blocks) and command sequences of length 1-3 are
   run through the real CLI.  After every command the build files are tokenised with the real
   Lexer, split into top-level statements with the real Parser, and `info` is queried for every
   target.  TLC (TraceRewriter) parses the tokens with the reference grammar, computes the project
   the files denote (ProjectView, reference evaluator) and folds Rewriter!Step over the commands.
"""
from __future__ import annotations

import json
import os
import random
import re
import subprocess
import sys
import tempfile
import typing as T
from concurrent.futures import ProcessPoolExecutor
from pathlib import Path

from . import common, lang_driver as ld, lang_gen
from .common import Check, MachineryError, SPECS, run_tlc, scratch
from .lang_gen import S, num, string
from .lang_driver import ident

PROP = 'C17'
FAM = SPECS / 'rewrite'
Tok = T.Dict[str, T.Any]

TARGET_FUNCS = ['executable', 'library', 'static_library', 'shared_library', 'shared_module', 'both_libraries', 'jar']
ADD_KINDS = ['executable', 'static_library', 'shared_library', 'library', 'both_libraries', 'shared_module']
SRC_POOL = ['a.c', 'b.c', 'c.c', 'd.c', 'e.c', 'main.c', 'util.c', 'x1.c', 'x10.c', 'x9.c', 'Z.c']
EXTRA_POOL = ['README', 'NOTES.md', 'doc.txt', 'api.h', 'TODO']

# keyword arguments the rewriter can edit (rewriter_func_kwargs) by type
T_BOOL = ['build_by_default', 'install', 'pie', 'gui_app', 'export_dynamic', 'implib']
T_STR = ['install_dir', 'build_rpath', 'install_rpath']
T_IDS = ['link_with', 'dependencies']
# bystanders the rewriter cannot address
B_BOOL = ['implicit_include_directories', 'd_unittest', 'build_always_stale']
B_STR = ['name_suffix', 'win_subsystem', 'install_tag', 'vs_module_defs', 'link_language']
B_STRS = ['c_args', 'link_args', 'override_options', 'cpp_args', 'objc_args', 'link_depends']
B_ANY = ['d_debug', 'd_module_versions', 'rust_args']

STR_VALUES = ['lib', '/opt/x', 'bin', 'x y', '$ORIGIN/../lib', 'v2', 'ünï', '', '@0@', 'a=b', '-x', 'a,b']
TRICKY_STR_VALUES = ["it's", 'back\\slash', 'C:\\new\\table', 'q"q', 'tab\there', "'", '\\', 'é\\u00e9']
LICENSES = ['MIT', 'BSD-3-Clause', 'GPL-2.0', 'Apache-2.0', 'ISC']
VERSIONS = ['2.0', '0.1.0-rc1', '1.2.3', '10']
OPTIONS = {
    'buildtype': ['release', 'debug', 'plain', 'debugoptimized'], 'warning_level': ['0', '1', '3', 'everything'],
    'werror': ['true', 'false'], 'optimization': ['0', '2', 'g', 's'], 'default_library': ['static', 'both', 'shared'],
    'unity': ['on', 'off'], 'strip': ['true', 'false'], 'prefix': ['/opt/p', '/usr'], 'c_std': ['c99', 'c11', 'gnu11'],
    'layout': ['flat', 'mirror'], 'bindir': ['b1', 'b2'], 'libdir': ['lib64', 'lib'], 'debug': ['true', 'false'],
}


def cps(s: str) -> T.List[int]:
    return [ord(c) for c in s]


def val(k: str, n: int = 0, s: T.Sequence[int] = (), e: T.Sequence[T.Any] = ()) -> T.Dict[str, T.Any]:
    return {'k': k, 'n': n, 's': list(s), 'e': list(e)}


def vstr(s: str) -> T.Dict[str, T.Any]:
    return val('str', s=cps(s))


def vbool(b: bool) -> T.Dict[str, T.Any]:
    return val('bool', n=1 if b else 0)


def varr(items: T.Sequence[T.Any]) -> T.Dict[str, T.Any]:
    return val('arr', e=items)


# ---------------------------------------------------------------------------
# abstract commands (the records of Rewriter.tla) and their rendering for the CLI


def acmd(op: str, t: str = '/', fn: str = 'target', kind: str = 'executable', dir_: str = '', files: T.Sequence[str] = (),
         kws: T.Sequence[T.Dict[str, T.Any]] = (), opts: T.Sequence[T.Tuple[str, str]] = (), cli: str = 'json') -> T.Dict[str, T.Any]:
    """kws: [{'k': key, 'ty': 'val'|'ids'|'id', 'py': python value}]"""
    return {'op': op, 'fn': fn, 't': t, 'kind': kind, 'dir': dir_, 'files': list(files), 'kws': [dict(k) for k in kws],
            'opts': [list(o) for o in opts], 'cli': cli}


def py_to_val(py: T.Any) -> T.Dict[str, T.Any]:
    if isinstance(py, bool):
        return vbool(py)
    if isinstance(py, str):
        return vstr(py)
    if isinstance(py, list):
        return varr([py_to_val(x) for x in py])
    if py is None:
        return val('void')
    raise TypeError(py)


def cmd_record(c: T.Dict[str, T.Any]) -> T.Dict[str, T.Any]:
    """The command as TraceRewriter reads it."""
    return {'op': c['op'], 'fn': c['fn'], 't': cps(c['t']), 'kind': c['kind'], 'dir': cps(c['dir']),
            'files': [cps(f) for f in c['files']],
            'kws': [{'k': k['k'], 'ty': k['ty'], 'v': py_to_val(k['py'])} for k in c['kws']],
            'opts': [[cps(k), cps(v)] for k, v in c['opts']]}


TARGET_OP_CLI = {'src_add': 'add', 'src_rm': 'rm', 'target_add': 'add_target', 'target_rm': 'rm_target',
                 'extra_files_add': 'add_extra_files', 'extra_files_rm': 'rm_extra_files', 'info': 'info'}


def cli_text(py: T.Any) -> T.Optional[str]:
    """The textual value of the documented command line (`kwargs set target t install false`), None if there is none."""
    if isinstance(py, bool):
        return 'true' if py else 'false'
    if isinstance(py, list) and len(py) == 1:
        py = py[0]
    if isinstance(py, str) and not py.startswith(('-', '@')):        # -x is an option, @x a response file for the command line
        return py
    return None


def positional_ok(c: T.Dict[str, T.Any]) -> bool:
    """Can the abstract command be written in the documented command-line form (every value is passed as text)?"""
    op = c['op']
    if any(w.startswith(('-', '@')) for w in [c['t']] + list(c['files']) + [x for o in c['opts'] for x in o]):
        return False
    if op in TARGET_OP_CLI or op in ('do_set', 'do_delete', 'kw_delete'):
        return True
    if op in ('kw_set', 'kw_add', 'kw_remove'):
        return all(cli_text(k['py']) is not None for k in c['kws'])
    return False


def cli_args(c: T.Dict[str, T.Any]) -> T.List[str]:
    """Arguments after `meson rewrite --sourcedir D`."""
    op = c['op']
    if c['cli'] == 'positional':
        if op in TARGET_OP_CLI:
            pre = []
            if op == 'target_add':
                pre = ['--type', c['kind']] + (['--subdir', c['dir']] if c['dir'] else [])
            return ['target'] + pre + [c['t'], TARGET_OP_CLI[op]] + list(c['files'])
        if op in ('kw_set', 'kw_delete', 'kw_add', 'kw_remove'):
            flat: T.List[str] = []
            for k in c['kws']:
                flat += [k['k']] + ([T.cast(str, cli_text(k['py']))] if op != 'kw_delete' else [])
            return ['kwargs', op[3:], c['fn'], c['t']] + flat
        if op in ('do_set', 'do_delete'):
            flat = []
            for k, v in c['opts']:
                flat += [k] + ([v] if op == 'do_set' else [])
            return ['default-options', op[3:]] + flat
        raise MachineryError('no positional form for ' + op)
    return ['command', json.dumps([script_cmd(c)])]


def as_command_line(spec: T.Dict[str, T.Any]) -> T.Optional[T.Dict[str, T.Any]]:
    """The twin of a case: the same abstract commands, every one that has a command-line form given in that form (and the
    others as JSON); None when nothing changes."""
    cmds = [dict(c, cli='positional' if positional_ok(c) else 'json') for c in spec['cmds']]
    if all(a['cli'] == b['cli'] for a, b in zip(cmds, spec['cmds'])):
        return None
    return dict(spec, id=spec['id'] + ':cli', cmds=cmds)


def script_cmd(c: T.Dict[str, T.Any]) -> T.Dict[str, T.Any]:
    op = c['op']
    if op in TARGET_OP_CLI:
        d: T.Dict[str, T.Any] = {'type': 'target', 'target': c['t'], 'operation': op}
        if op != 'info' and op != 'target_rm':
            d['sources'] = list(c['files'])
        if op == 'target_add':
            d['target_type'] = c['kind']
            if c['dir']:
                d['subdir'] = c['dir']
        return d
    if op.startswith('kw_'):
        return {'type': 'kwargs', 'function': c['fn'], 'id': c['t'], 'operation': op[3:],
                'kwargs': {k['k']: k['py'] for k in c['kws']}}
    if op.startswith('do_'):
        return {'type': 'default_options', 'operation': op[3:], 'options': {k: (v if op == 'do_set' else None) for k, v in c['opts']}}
    raise MachineryError('unknown op ' + op)


# ---------------------------------------------------------------------------
# project generator (abstract tokens -> text)

SPECIAL_EXPRS: T.Dict[str, T.List[str]] = {
    'bool': ['not (true and false)', '(1 + 2) * 3 > 8 - (2 - 1)', 'not true or false', '(true or false) and false',
             "'x' in ['x', 'y']", '1 not in [2, 3]', '(1 + 2).is_odd()', "not ('a' == 'b')", 'true ? false : true',
             "('a' + 'b').startswith('a')", '[1, 2].length() * 2 == 4', '2 - (3 - 4) == 3', '8 / (4 / 2) == 4', '7 % (5 % 3) == 1',
             '-1 - -2 == 1', '(true)', '((1 < 2))', "{'a': 1}['a'] == 1", '[true, false][1]', 'not (1 >= 2)', "'a' < 'b' and 2 <= 2",
             '-(1 + 2) < 0', "'''a'b''' != 'a\\'b'"],
    'str': ['(1 + 2).to_string()', "'a' + 'b'", "'''raw\\n'''", "'a' / 'b'", "true ? 'a' : 'b'", "('a' + 'b').to_upper()",
            "'q\\'q'", "'back\\\\slash'", "'tab\\t.'", "'nl\\nx'", "'\\x41\\101\\u00e9'", "'ünï'", "'''it's'''", "'@0@-@1@'.format(1, 'x')",
            "(2 * (3 + 4)).to_string(fill: 4)", "'a,b'.split(',')[1]", "['x', 'y'][0]", "'-'.join(['a', 'b'])", "f'plain'",
            "'''multi\nline'''", "f'''multi\nline'''", "'''l1\nl2\n  l3'''", "f'''p @0@\nq'''", "'''x\n'''",
            "(not true).to_string()", "'abc'.substring(-2)", "'\\\\'", "'\\''"],
    'int': ['(1 + 2) * 3', '1 + 2 * 3', '2 - (3 - 4)', '-(1 + 2)', '8 / (4 / 2)', '7 % (5 % 3)', '[1, 2, 3][1]', "'12'.to_int() + 1",
            'true ? 1 : 2', '(true ? 1 : 2) + 3', '0x1f', '0o17', '0b101', '-1 - -2', '[1, [2, 3]].length()', "{'a': 7}.get('a')"],
    'strs': ["['-DA', '-DB=' + (1 + 2).to_string()]", "['a'] + ['b']", "'a b'.split()", "['it\\'s', '''it's''']", "[]",
             "true ? ['x'] : []", "['x', ['y', ['z']]]", "{'a': 'b'}.keys()", "[('-D' + 'x')]",
             "['''a\nb''', 'c']", "['-D', f'''p\nq''']", "[f'''m\nn''']"],
    'dict': ["{'a': 1, 'b': [1, 2]}", "{'k': 'v'} + {'k2': not false}", "{}", "{'a b': 'it\\'s', 'n': -1}", "{'x': (1 + 2) * 3}"],
}


# strings that span lines, placed last in an argument list / array so that the closing quotes share their line with `)` / `]`
SPANNING = ["f'''one\ntwo'''", "'''one\ntwo'''", "f'''a\n\tb\nc'''", "f'''@0@\n'''", "'''\nx'''", "f'''\n'''"]
# a recorded finding: the printer strips blanks / empty lines before a newline also inside re-printed multi-line literals
BLANK_BEFORE_NEWLINE = ["'''a  \n\n\nb'''", "f'''a \nb'''", "'''a\n\nb'''"]
# default options whose name is the tail of another option's name: (short, long, value of long)
SUFFIX_PAIRS = [('bindir', 'sbindir', 'sb'), ('debug', 'b_ndebug', 'if-release'), ('libdir', 'python.platlibdir', 'plat'), ('opt', 'sub:opt', '2')]
NEWLINE_FILE = 'od\nd.c'                       # a source file whose name contains a newline (written as a multi-line literal)
LITERAL_OR_COMMENT_RE = re.compile(r"'''[\s\S]*?'''|'(?:[^'\\\n]|\\.)*'|#[^\n]*")


def blank_literals(text: str) -> T.List[str]:
    """Multi-line literals of a build file with a blank or an empty line before a newline."""
    return [m.group(0) for m in LITERAL_OR_COMMENT_RE.finditer(text)
            if m.group(0).startswith("'''") and re.search(r'[ \t]\n|\n[ \t]*\n', m.group(0))]


def text_to_tokens(text: str, mp: T.Any) -> T.List[Tok]:
    toks, _ = ld.lex_real(text, mp)
    return toks


class ProjGen:
    """One seeded project: {'files': {path: text}, 'touch': [paths], meta}."""

    def __init__(self, rnd: random.Random, mp: T.Any):
        self.r = rnd
        self.mp = mp
        self.g = lang_gen.Gen(rnd, 0.0)
        self.targets: T.List[T.Dict[str, T.Any]] = []
        self.libvars: T.List[str] = []
        self.varno = 0

    # -- expressions
    def expr(self, ty: str) -> T.List[Tok]:
        return self._expr(ty)

    def _expr(self, ty: str) -> T.List[Tok]:
        r = self.r
        if r.random() < 0.45:
            return text_to_tokens(r.choice(SPECIAL_EXPRS[ty]), self.mp)
        if ty == 'strs':
            out = [S('lbracket')]
            for i in range(r.choice([1, 2, 3])):
                if i:
                    out.append(S('comma'))
                out += self.g.expr('str', 1)
            return out + [S('rbracket')]
        if ty == 'dict':
            return self.g.expr('dict', 1)
        return self.g.expr(ty, r.choice([0, 1]))

    def strlist(self, names: T.Sequence[str], flav: bool = True) -> T.List[Tok]:
        out = [S('lbracket')]
        for i, n in enumerate(names):
            if i:
                out.append(S('comma'))
            out.append(string(n, 'ms' if flav and self.r.random() < 0.1 else 's'))
        if names and self.r.random() < 0.2:
            out.append(S('comma'))
        return out + [S('rbracket')]

    def nested_list(self, outer: T.Sequence[str], inner: T.Sequence[str]) -> T.List[Tok]:
        """['a', ['b']]"""
        out = [S('lbracket')]
        for n in outer:
            out += [string(n), S('comma')]
        return out + self.strlist(inner, False) + [S('rbracket')]

    def files_call(self, names: T.Sequence[str]) -> T.List[Tok]:
        inner: T.List[Tok] = []
        for i, n in enumerate(names):
            if i:
                inner.append(S('comma'))
            inner.append(string(n))
        if self.r.random() < 0.35:
            inner = [S('lbracket')] + inner + [S('rbracket')]
        return [ident('files'), S('lparen')] + inner + [S('rparen')]

    def fresh(self, base: str) -> str:
        self.varno += 1
        return f'{base}{self.varno}'

    # -- statements
    def bystander_stmt(self) -> T.List[T.List[Tok]]:
        r = self.r
        c = r.random()
        if c < 0.45:
            ty = r.choice(['bool', 'str', 'int', 'strs', 'dict'])
            return [[ident(self.fresh('v')), S('assign')] + self.expr(ty)]
        if c < 0.7:
            return [[ident('message'), S('lparen')] + self.expr('str') + [S('rparen')]]
        if c < 0.85:
            v = self.fresh('acc')
            return [[ident(v), S('assign')] + self.strlist(['-Da']),
                    [S('foreach'), ident('it'), S('colon')] + self.strlist(['p', 'q'], False) + [S('eol'), ident(v), S('plusassign'), S('lbracket'),
                     ident('it'), S('rbracket'), S('eol'), S('endforeach')]]
        return [[S('if')] + self.expr('bool') + [S('eol'), ident(self.fresh('w')), S('assign')] + self.expr('int') + [S('eol'), S('endif')]]

    def target(self, name: str, subdir: str, shared: T.Optional[T.Tuple[str, T.List[str]]], in_if: bool,
               ext: T.Optional[T.Dict[str, T.Tuple[str, T.List[str], str]]] = None) -> T.List[T.List[Tok]]:
        """Statements defining one target (variable assignments first).

        ext: lists written in ANOTHER build file and reached through a variable: {'src' | 'extra': (variable, the files it
        denotes for this target relative to the source root, directory it is written in)}."""
        r = self.r
        ext = ext or {}
        pre: T.List[T.List[Tok]] = []
        kind = r.choice(['executable', 'executable', 'static_library', 'library', 'shared_library', 'both_libraries', 'shared_module'])
        srcs = r.sample(SRC_POOL, r.choice([1, 2, 2, 3]))
        args: T.List[T.List[Tok]] = [[string(name)]]
        form = r.choice(['inline', 'array', 'var', 'files', 'filesvar', 'mixed', 'kw', 'plus', 'concat', 'arrpos', 'arrpos', 'nested']) if not in_if \
            else r.choice(['inline', 'array', 'files', 'arrpos'])
        src_kw: T.Optional[T.List[Tok]] = None
        all_srcs = list(srcs)
        if shared is not None:
            args.append([ident(shared[0])])
            all_srcs = shared[1] + [s for s in srcs if s not in shared[1]]
            srcs = [s for s in srcs if s not in shared[1]]
            form = r.choice(['inline', 'array', 'files'])
            if not srcs:
                form = 'none'
        ext_srcs: T.List[str] = []
        if 'src' in ext:
            args.append([ident(ext['src'][0])])
            ext_srcs = list(ext['src'][1])
            clash = {os.path.basename(x) for x in ext_srcs}
            srcs = [x for x in srcs if x not in clash] if r.random() < 0.4 else []
            all_srcs = [x for x in all_srcs if x in srcs or (shared is not None and x in shared[1])]
            if not srcs:
                form = 'none'
            elif form not in ('inline', 'array', 'files', 'kw'):
                form = r.choice(['inline', 'array', 'files'])
        multi: T.List[T.List[str]] = []              # groups of sources held by different nodes of the same statement
        if form in ('arrpos', 'nested') and len(srcs) < 2:
            form = 'array'
        if form == 'inline':
            args += [[string(s)] for s in srcs]
        elif form == 'arrpos':
            # an array (or files()) argument and plain positional arguments side by side
            k = r.randint(1, len(srcs) - 1)
            first = self.strlist(srcs[:k]) if r.random() < 0.7 else self.files_call(srcs[:k])
            parts = [first] + [[string(x)] for x in srcs[k:]]
            if r.random() < 0.4:
                parts = parts[1:] + parts[:1]
            args += parts
            multi = [srcs[:k], srcs[k:]]
        elif form == 'nested':
            # ['a.c', ['b.c']]
            k = r.randint(1, len(srcs) - 1)
            args.append(self.nested_list(srcs[:k], srcs[k:]))
            multi = [srcs[:k], srcs[k:]]
        elif form == 'array':
            args.append(self.strlist(srcs))
        elif form == 'var':
            v = self.fresh('src')
            lst = self.strlist(srcs)
            if not subdir and r.random() < 0.3:
                lst = lst[:-1]
                if lst[-1]['t'] == 'comma':
                    lst = lst[:-1]
                lst += [S('comma'), string(NEWLINE_FILE, r.choice(['mfs', 'ms'])), S('rbracket')]
                all_srcs = all_srcs + [NEWLINE_FILE]
            pre.append([ident(v), S('assign')] + lst)
            args.append([ident(v)])
        elif form == 'files':
            args.append(self.files_call(srcs))
        elif form == 'filesvar':
            v = self.fresh('fsrc')
            pre.append([ident(v), S('assign')] + self.files_call(srcs))
            args.append([ident(v)])
        elif form == 'mixed':
            v = self.fresh('src')
            pre.append([ident(v), S('assign')] + self.strlist(srcs[:1]))
            args.append([ident(v)])
            if len(srcs) > 1:
                args.append([string(srcs[1])])
            if len(srcs) > 2:
                args.append(self.files_call(srcs[2:]))
        elif form == 'kw':
            src_kw = self.strlist(srcs)
        elif form == 'plus':
            v = self.fresh('src')
            pre.append([ident(v), S('assign')] + self.strlist(srcs[:1]))
            if len(srcs) > 1:
                pre.append([ident(v), S('plusassign')] + self.strlist(srcs[1:]))
            args.append([ident(v)])
        elif form == 'concat':
            v = self.fresh('src')
            pre.append([ident(v), S('assign')] + self.strlist(srcs[:1]))
            args.append([ident(v), S('plus')] + self.strlist(srcs[1:]))
        kws: T.List[T.Tuple[str, T.List[Tok]]] = []
        libs_before = list(self.libvars)
        if src_kw is not None:
            kws.append(('sources', src_kw))
        extras: T.List[str] = []
        multi_extra: T.List[T.List[str]] = []
        c = r.random()
        ext_extras: T.List[str] = []
        if 'extra' in ext:
            kws.append(('extra_files', [ident(ext['extra'][0])]))
            ext_extras = list(ext['extra'][1])
            c = 1.0
        if c < 0.45:
            extras = r.sample(EXTRA_POOL, r.choice([1, 2]))
            ef = r.choice(['array', 'var', 'single', 'nested']) if not in_if else 'array'
            if ef == 'nested' and len(extras) < 2:
                ef = 'array'
            if ef == 'array':
                kws.append(('extra_files', self.strlist(extras)))
            elif ef == 'nested':
                kws.append(('extra_files', self.nested_list(extras[:1], extras[1:])))
                multi_extra = [extras[:1], extras[1:]]
            elif ef == 'var':
                v = self.fresh('ef')
                pre.append([ident(v), S('assign')] + self.strlist(extras))
                kws.append(('extra_files', [ident(v)]))
            else:
                extras = extras[:1]
                kws.append(('extra_files', [string(extras[0])]))
        used: T.Set[str] = set()
        for _ in range(r.choice([0, 1, 2, 3, 4])):
            ty = r.choice(['bool', 'bool', 'str', 'str', 'strs', 'any'])
            if ty == 'bool':
                key = r.choice(T_BOOL + B_BOOL)
                e = self.expr('bool')
            elif ty == 'str':
                key = r.choice(T_STR + B_STR)
                e = self.expr('str')
            elif ty == 'strs':
                key = r.choice(B_STRS)
                e = self.expr('strs')
            else:
                key = r.choice(B_ANY)
                e = self.expr(r.choice(['int', 'dict', 'strs']))
            if key in used:
                continue
            used.add(key)
            kws.append((key, e))
        if self.libvars and kind in ('executable', 'shared_library') and r.random() < 0.4:
            libs = r.sample(self.libvars, min(len(self.libvars), r.choice([1, 1, 2])))
            if len(libs) == 1 and r.random() < 0.5:
                kws.append(('link_with', [ident(libs[0])]))
            else:
                lw = [S('lbracket')]
                for i, l in enumerate(libs):
                    if i:
                        lw.append(S('comma'))
                    lw.append(ident(l))
                kws.append(('link_with', lw + [S('rbracket')]))
            for t in self.targets:
                if t['var'] in libs:
                    t['referenced'] = True
        r.shuffle(kws)
        spare = [k for k in B_STR if k not in used]
        spanning_last = False
        if spare and r.random() < 0.22:
            lit = r.choice(BLANK_BEFORE_NEWLINE) if r.random() < 0.3 else r.choice(SPANNING)
            kws.append((r.choice(spare), text_to_tokens(lit, self.mp)))
            spanning_last = True
        call = [ident(kind), S('lparen')]
        parts = args + [[ident(k), S('colon')] + e for k, e in kws]
        for i, p in enumerate(parts):
            if i:
                call.append(S('comma'))
            call += p
        if r.random() < 0.15 and not spanning_last:
            call.append(S('comma'))
        call.append(S('rparen'))
        var = ''
        if not in_if and (kind != 'executable' or r.random() < 0.5):
            var = self.fresh('tgt')
            call = [ident(var), S('assign')] + call
            if kind in ('static_library', 'library', 'shared_library', 'both_libraries'):
                self.libvars.append(var)
        self.targets.append({'name': name, 'var': var, 'kind': kind, 'dir': subdir, 'srcs': [os.path.join(subdir, s) for s in all_srcs] + ext_srcs,
                             'extras': [os.path.join(subdir, s) for s in extras] + ext_extras, 'referenced': False, 'kwkeys': sorted(used),
                             'dirs': sorted({subdir} | {v[2] for v in ext.values()} | ({''} if ext else set())),
                             'shared': shared is not None, 'libs_before': libs_before,
                             'multi': [[os.path.join(subdir, x) for x in g] for g in multi],
                             'multi_extra': [[os.path.join(subdir, x) for x in g] for g in multi_extra],
                             'scalar_extra': any(k == 'extra_files' and len(e) == 1 and e[0]['t'] == 'string' for k, e in kws)})
        return pre + [call]

    def project_stmt(self) -> T.List[Tok]:
        r = self.r
        parts: T.List[T.List[Tok]] = [[string(r.choice(['p', 'my proj', "it\\'s"]))], [string('c')]]
        kws: T.List[T.Tuple[str, T.List[Tok]]] = []
        self.license: T.Optional[T.List[str]] = None
        self.dopts: T.Dict[str, str] = {}
        self.dform = 'none'
        self.pair = ''
        if r.random() < 0.7:
            kws.append(('version', self.expr('str') if r.random() < 0.3 else [string(r.choice(['1.0', '0.9.1']))]))
        if r.random() < 0.5:
            lic = r.sample(LICENSES, r.choice([1, 1, 2]))
            self.license = lic
            kws.append(('license', [string(lic[0])] if len(lic) == 1 and r.random() < 0.6 else self.strlist(lic, False)))
        if r.random() < 0.3:
            kws.append(('meson_version', [string(r.choice(['>=0.50.0', '>= 1.0']))]))
        c = r.random()
        if c < 0.75:
            keys = r.sample(sorted(OPTIONS), r.choice([0, 1, 2, 3]))
            self.dopts = {k: r.choice(OPTIONS[k]) for k in keys}
            if r.random() < 0.3:
                short, long_, lv = r.choice(SUFFIX_PAIRS)
                self.dopts = {k: v for k, v in self.dopts.items() if k not in (short, long_)}
                self.pair = short
                self.dopts[long_] = lv
                if r.random() < 0.6:
                    self.dopts[short] = r.choice(OPTIONS.get(short, ['1']))
                its = list(self.dopts.items())
                r.shuffle(its)
                self.dopts = dict(its)
            items = [f'{k}={v}' for k, v in self.dopts.items()]
            f = r.random()
            if len(items) == 1 and f < 0.3:
                self.dform = 'str'
                kws.append(('default_options', [string(items[0])]))
            elif f < 0.85:
                self.dform = 'list'
                e = self.strlist(items, False)
                if r.random() < 0.15:
                    # an element the rewriter cannot see through: an option that is never addressed
                    e = e[:-1] + ([S('comma')] if items and e[-2]['t'] != 'comma' else []) + [string('b_ndebug='), S('plus'), string('if-release'), S('rbracket')]
                kws.append(('default_options', e))
            else:
                self.dform = 'dict'
                d = [S('lcurl')]
                for i, (k, v) in enumerate(self.dopts.items()):
                    if i:
                        d.append(S('comma'))
                    d += [string(k), S('colon'), string(v)]
                kws.append(('default_options', d + [S('rcurl')]))
        r.shuffle(kws)
        out = [ident('project'), S('lparen')]
        for i, p in enumerate(parts + [[ident(k), S('colon')] + e for k, e in kws]):
            if i:
                out.append(S('comma'))
            out += p
        return out + [S('rparen')]

    def render(self, stmts: T.List[T.List[Tok]]) -> str:
        r = self.r
        toks: T.List[Tok] = []
        for st in stmts:
            if r.random() < 0.5:
                st = lang_gen.decorate_nested(st, r, rate=r.choice([0.2, 0.5]))
            toks += st + [S('eol')]
            if r.random() < 0.2:
                toks.append(S('eol'))
        style = r.random()
        text, _ = ld.render(toks, r, trivia=style < 0.6, continuations=style < 0.15, comments=0.25 if style < 0.6 else 0.0)
        if style >= 0.6 and r.random() < 0.5:
            lines = text.split('\n')
            out = []
            inside = False                      # inside a literal that spans lines: the lines are string contents
            for ln in lines:
                odd = ln.count("'" * 3) % 2 == 1
                if ln and not inside and r.random() < 0.15:
                    out.append(r.choice(['# a comment', '', '# executable(\'x\', \'y.c\')']))
                ends_inside = inside != odd
                out.append(ln + (r.choice(['  # trailing', ' # it\'s (a) comment']) if ln and r.random() < 0.1 and not ends_inside
                                 and not ln.rstrip().endswith('\\') else ''))
                inside = ends_inside
            text = '\n'.join(out)
        if r.random() < 0.15:
            text = text.rstrip('\n')
        return text

    @staticmethod
    def in_multiline(line: str) -> bool:
        return "'''" in line or line.rstrip().endswith('\\')

    def generate(self) -> T.Dict[str, T.Any]:
        r = self.r
        root: T.List[T.List[Tok]] = [self.project_stmt()]
        nt = r.choice([1, 2, 2, 3])
        names = r.sample(['t1', 't2', 't3', 'app', 'my-lib', 'core lib', 'Zed'], nt)
        shared: T.Optional[T.Tuple[str, T.List[str]]] = None
        if nt >= 2 and r.random() < 0.4:
            sv = self.fresh('shared')
            sfiles = r.sample(SRC_POOL, r.choice([1, 2]))
            root.append([ident(sv), S('assign')] + (self.strlist(sfiles) if r.random() < 0.7 else self.files_call(sfiles)))
            shared = (sv, sfiles)
        sub_stmts: T.List[T.List[Tok]] = []
        other_stmts: T.List[T.List[Tok]] = []
        have_sub = r.random() < 0.42
        # multi-directory layouts: the list of the target of sub/ (or of a target of the root) is WRITTEN in another build
        # file - the parent's or a sibling's - and reaches the target through a variable.  Plain strings are files of the
        # target's directory, files() objects files of the directory files() stands in.
        layout = r.choice(['own', 'parent', 'parent', 'sibling', 'sibling', 'up']) if have_sub else 'own'
        have_other = layout in ('sibling', 'up')
        ext: T.Dict[str, T.Tuple[str, T.List[str], str]] = {}
        ext_for = nt - 1
        if layout != 'own':
            wdir = '' if layout == 'parent' else 'other'
            tdir = '' if layout == 'up' else 'sub'
            if layout == 'up':
                ext_for = r.randrange(nt - 1) if nt > 1 else 0
            where = root if layout == 'parent' else other_stmts
            flds = r.choice([['src'], ['src'], ['src', 'extra'], ['extra']])
            for fld in flds:
                kind = r.choice(['strings', 'strings', 'files'])
                items = r.sample(SRC_POOL if fld == 'src' else EXTRA_POOL, r.choice([1, 2]))
                v = self.fresh('xsrc' if fld == 'src' else 'xef')
                where.append([ident(v), S('assign')] + (self.strlist(items, False) if kind == 'strings' else self.files_call(items)))
                ext[fld] = (v, [os.path.join(tdir if kind == 'strings' else wdir, x) for x in items], wdir)
            if layout == 'up' and nt == 1:
                have_sub = False
        if have_other and not have_sub:
            root.append([ident('subdir'), S('lparen'), string('other'), S('rparen')])
        for i, name in enumerate(names):
            for _ in range(r.choice([0, 0, 1])):
                root += self.bystander_stmt()
            if have_sub and i == nt - 1:
                sub_stmts += self.target(name, 'sub', None, False, ext if layout in ('parent', 'sibling') else None)
                continue
            if layout == 'up' and i == ext_for:
                if have_sub:
                    root.append([ident('subdir'), S('lparen'), string('other'), S('rparen')])
                    have_other = False                                  # written
                root += self.target(name, '', None, False, ext)
                continue
            use_shared = shared if shared is not None and i < 2 else None
            if use_shared is None and r.random() < 0.12:
                body = self.target(name, '', None, True)
                blk = [S('if')] + self.expr('bool') + [S('eol')]
                for st in body:
                    blk += st + [S('eol')]
                if r.random() < 0.3:
                    blk += [S('else'), S('eol'), ident(self.fresh('w')), S('assign'), num(1), S('eol')]
                root.append(blk + [S('endif')])
            else:
                root += self.target(name, '', use_shared, False)
        if have_sub:
            # after the root targets: the sub-directory may link with library variables of the root file
            if layout == 'sibling':
                root.append([ident('subdir'), S('lparen'), string('other'), S('rparen')])
            root.append([ident('subdir'), S('lparen'), string('sub'), S('rparen')])
        for _ in range(r.choice([0, 1])):
            root += self.bystander_stmt()
        files = {'meson.build': self.render(root)}
        if have_sub:
            files['sub/meson.build'] = self.render(sub_stmts)
        if other_stmts:
            files['other/meson.build'] = self.render(other_stmts)
        touch = [NEWLINE_FILE] + [os.path.join(d, f) for d in ('', 'sub', 'other') for f in SRC_POOL + EXTRA_POOL + ['new1.c', 'new2.c']]
        return {'layout': layout, 'files': files, 'touch': touch, 'targets': self.targets, 'license': self.license, 'dopts': self.dopts, 'dform': self.dform,
                'libvars': self.libvars, 'have_sub': have_sub, 'pair': self.pair}


# ---------------------------------------------------------------------------
# command sequences


def gen_commands(rnd: random.Random, proj: T.Dict[str, T.Any]) -> T.List[T.Dict[str, T.Any]]:
    r = rnd
    targets = [dict(t) for t in proj['targets']]
    n = r.choice([1, 2, 2, 3])
    out: T.List[T.Dict[str, T.Any]] = []
    added: T.List[str] = []

    def address(t: T.Dict[str, T.Any]) -> str:
        return t['var'] if t['var'] and r.random() < 0.15 else t['name']

    def cli(ok: bool) -> str:
        return 'positional' if ok and r.random() < 0.2 else 'json'

    while len(out) < n:
        c = r.random()
        if proj['pair'] and proj['dform'] != 'dict' and not out and r.random() < 0.5:
            c = 0.95
        t = r.choice(targets)
        # files of the target's directory, of the directories its lists are written in and (for a target below) of the root
        dirs = list(t['dirs']) + ([''] if t['dir'] and '' not in t['dirs'] and r.random() < 0.3 else [])
        pool = [os.path.join(d, f) for d in dirs for f in SRC_POOL + ['new1.c', 'new2.c']]
        if c < 0.16:
            # add then remove a new file / remove then add an existing one
            if r.random() < 0.5:
                f = r.choice([p for p in pool if p not in t['srcs']])
                out += [acmd('src_add', address(t), files=[f], cli=cli(True)), acmd('src_rm', address(t), files=[f], cli=cli(True))]
            elif not t['shared']:
                f = r.choice(t['srcs'])
                out += [acmd('src_rm', address(t), files=[f], cli=cli(True)), acmd('src_add', address(t), files=[f], cli=cli(True))]
        elif c < 0.30:
            fs = r.sample(pool, r.choice([1, 1, 2]))
            out.append(acmd('src_add', address(t), files=fs, cli=cli(True)))
        elif c < 0.40 and t['multi'] and r.random() < 0.7:
            # one command that edits two nodes of the same statement (an inner array and the call, or two arrays)
            out.append(acmd('src_rm', address(t), files=[r.choice(g) for g in t['multi']], cli=cli(True)))
        elif c < 0.40:
            fs = r.sample(t['srcs'], min(len(t['srcs']), r.choice([1, 1, 2])))
            if r.random() < 0.15:
                fs.append(r.choice(pool))
            out.append(acmd('src_rm', address(t), files=fs, cli=cli(True)))
        elif c < 0.47:
            epool = [os.path.join(d, f) for d in dirs for f in EXTRA_POOL]
            out.append(acmd('extra_files_add', address(t), files=r.sample(epool, r.choice([1, 2])), cli=cli(True)))
        elif c < 0.53:
            if not t['extras'] and r.random() < 0.15:
                out.append(acmd('extra_files_rm', address(t), files=[os.path.join(r.choice(dirs), r.choice(EXTRA_POOL))], cli=cli(True)))
                continue
            if t['multi_extra'] and r.random() < 0.8:
                out.append(acmd('extra_files_rm', address(t), files=[r.choice(g) for g in t['multi_extra']], cli=cli(True)))
                continue
            if t['scalar_extra']:
                continue                    # a single string as extra_files: removal is refused with a warning (not pinned by docs or tests)
            if t['extras']:
                out.append(acmd('extra_files_rm', address(t), files=r.sample(t['extras'], 1), cli=cli(True)))
            else:
                f = os.path.join(r.choice(dirs), r.choice(EXTRA_POOL))
                out += [acmd('extra_files_add', address(t), files=[f]), acmd('extra_files_rm', address(t), files=[f])]
        elif c < 0.59:
            name = r.choice(['newt', 'new-lib', 'n2', 'tool x'] + [t['name']] * (1 if r.random() < 0.3 else 0) + ['my.app'] * (1 if r.random() < 0.2 else 0))
            d = 'sub' if proj['have_sub'] and r.random() < 0.3 else ''
            out.append(acmd('target_add', name, kind=r.choice(ADD_KINDS), dir_=d, files=r.sample(['new1.c', 'new2.c', 'a.c'], r.choice([1, 2])), cli=cli(True)))
            added.append(name)
        elif c < 0.64:
            cands = [x for x in targets if not x['referenced']]
            if cands:
                x = r.choice(cands)
                out.append(acmd('target_rm', address(x), cli=cli(True)))
        elif c < 0.67:
            out.append(acmd('info', address(t), cli=cli(True)))
        elif c < 0.80:
            ty = r.choice(['bool', 'bool', 'str', 'ids'])
            if ty == 'bool':
                kws = [{'k': k, 'ty': 'val', 'py': r.random() < 0.5} for k in r.sample(T_BOOL, r.choice([1, 1, 2]))]
                out.append(acmd('kw_set', address(t), kws=kws))
            elif ty == 'str':
                tricky = r.random() < 0.12
                v = r.choice(TRICKY_STR_VALUES if tricky else STR_VALUES)
                out.append(acmd('kw_set', address(t), kws=[{'k': r.choice(T_STR), 'ty': 'val', 'py': v}], cli=cli(not v.startswith('-') and v != '')))
            elif t['libs_before']:
                libs = r.sample(t['libs_before'], min(len(t['libs_before']), r.choice([1, 2])))
                single = len(libs) == 1 and r.random() < 0.3
                out.append(acmd(r.choice(['kw_set', 'kw_add', 'kw_add', 'kw_remove']), address(t),
                                kws=[{'k': 'link_with', 'ty': 'id' if single else 'ids', 'py': libs[0] if single else libs}]))
        elif c < 0.85:
            keys = r.sample(T_BOOL + T_STR + T_IDS, r.choice([1, 2]))
            out.append(acmd('kw_delete', address(t), kws=[{'k': k, 'ty': 'val', 'py': None} for k in keys], cli=cli(True)))
        elif c < 0.92:
            which = r.random()
            if which < 0.4:
                tricky = r.random() < 0.1
                out.append(acmd('kw_set', '/', fn='project', kws=[{'k': 'version', 'ty': 'val', 'py': r.choice(TRICKY_STR_VALUES if tricky else VERSIONS)}], cli=cli(not tricky)))
            elif which < 0.55:
                lic = r.sample(LICENSES, r.choice([1, 2]))
                out.append(acmd('kw_set', '/', fn='project', kws=[{'k': 'license', 'ty': 'val', 'py': lic if len(lic) > 1 or r.random() < 0.5 else lic[0]}]))
            elif which < 0.8:
                have = proj['license'] or []
                op = r.choice(['kw_add', 'kw_remove'])
                v = r.sample(LICENSES, 1) if op == 'kw_add' or not have else r.sample(have, 1)
                out.append(acmd(op, '/', fn='project', kws=[{'k': 'license', 'ty': 'val', 'py': v}]))
            elif which < 0.9:
                out.append(acmd('kw_delete', '/', fn='project', kws=[{'k': r.choice(['version', 'license', 'meson_version']), 'ty': 'val', 'py': None}], cli=cli(True)))
            else:
                out.append(acmd('kw_set', '/', fn='project', kws=[{'k': 'meson_version', 'ty': 'val', 'py': '>=0.60'}], cli=cli(True)))
        elif proj['dform'] != 'dict' and proj['pair'] and r.random() < 0.7:
            # an option whose name is the tail of the name of another option of the list
            short = proj['pair']
            if short != 'opt' and r.random() < 0.6:
                out.append(acmd('do_set', '/', fn='project', opts=[(short, r.choice(OPTIONS[short]))], cli=cli(True)))
            else:
                out.append(acmd('do_delete', '/', fn='project', opts=[(short, '')], cli=cli(True)))
        elif proj['dform'] != 'dict':
            keys = r.sample(sorted(OPTIONS), r.choice([1, 1, 2]))
            if proj['dopts'] and r.random() < 0.5:
                keys[0] = r.choice(sorted(proj['dopts']))
            if r.random() < 0.65 and all(k in OPTIONS for k in keys):
                out.append(acmd('do_set', '/', fn='project', opts=[(k, r.choice(OPTIONS[k])) for k in keys], cli=cli(True)))
            else:
                out.append(acmd('do_delete', '/', fn='project', opts=[(k, '') for k in keys], cli=cli(True)))
    out = out[:3]
    if r.random() < 0.04:
        out.append(acmd(r.choice(['src_add', 'target_rm', 'info', 'kw_set']), 'no_such_target', files=['a.c'],
                        kws=[{'k': 'install', 'ty': 'val', 'py': True}]))
        out = out[-3:]
    # the documented command-line form (textual values: true / false, one list element, names) for a share of the commands
    for c in out:
        if not positional_ok(c):
            c['cli'] = 'json'
        elif c['cli'] == 'json' and r.random() < 0.2:
            c['cli'] = 'positional'
    return out


# ---------------------------------------------------------------------------
# running one case against the real CLI


def split_statements(text: str, mp: T.Any, path: str) -> T.Tuple[T.List[str], T.List[str]]:
    """(codes, trivs): texts of the top-level statements and the text around them (len(trivs) = len(codes) + 1).

    A statement extends from its first to its last token; statements end at the newlines the real Lexer reports as `eol`
    (newlines inside brackets are whitespace for it) outside if / foreach blocks.  The number of statements must be the
    number of lines of the real Parser's code block.  Everything else - blank lines, comment lines, trailing comments - is
    trivia."""
    ast = mp.Parser(text, path).parse()
    stmts: T.List[T.Tuple[int, int]] = []
    cur: T.Optional[T.Tuple[int, int]] = None
    depth = 0
    for tk in mp.Lexer(text).lex(path):
        if tk.tid in ('whitespace', 'comment'):
            continue
        if tk.tid == 'eol':
            if depth == 0 and cur is not None:
                stmts.append(cur)
                cur = None
            continue
        if tk.tid in ('if', 'foreach'):
            depth += 1
        elif tk.tid in ('endif', 'endforeach'):
            depth -= 1
        a, b = tk.bytespan
        cur = (cur[0] if cur is not None else a, b)
    if cur is not None:
        stmts.append(cur)
    if len(stmts) != len(ast.lines):
        raise MachineryError(f'statement split of {path}: {len(stmts)} token runs but {len(ast.lines)} parsed statements')
    codes: T.List[str] = []
    trivs: T.List[str] = []
    pos = 0
    for a, b in stmts:
        trivs.append(text[pos:a])
        codes.append(text[a:b])
        pos = b
    trivs.append(text[pos:])
    return codes, trivs


def read_project(d: Path, mp: T.Any, ml: T.Any, alpha: ld.Alphabet, texts: ld.Alphabet) -> T.Tuple[T.List[T.Dict[str, T.Any]], bool, T.Dict[str, str]]:
    files = []
    raw: T.Dict[str, str] = {}
    ok = True
    for p in sorted(d.rglob('meson.build')):
        rel = str(p.relative_to(d))
        text = p.read_text(encoding='utf-8')
        raw[rel] = text
        rec: T.Dict[str, T.Any] = {'path': cps(rel), 't': [], 'codes': [], 'trivs': []}
        try:
            toks, _ = ld.lex_real(text, mp)
            codes, trivs = split_statements(text, mp, rel)
            rec['t'] = [alpha.add(t) for t in toks]
            rec['codes'] = [texts.add({'x': c}) for c in codes]
            rec['trivs'] = [texts.add({'x': c}) for c in trivs]
        except ml.MesonException:
            ok = False
        files.append(rec)
    return files, ok, raw


def parse_info(out: str, err: str) -> T.Optional[T.List[T.Dict[str, T.Any]]]:
    for text in (out, err):
        a, b = text.find('{'), text.rfind('}')
        if a < 0 or b < a:
            continue
        try:
            data = json.loads(text[a:b + 1])
        except ValueError:
            continue
        res = []
        for _tid, t in (data.get('target') or {}).items():
            res.append({'name': cps(t['name']), 'sources': [cps(s) for s in t['sources']], 'extra': [cps(s) for s in t['extra_files']]})
        return res
    return None


def working_dir(d: Path, base: Path, where: str) -> T.Tuple[Path, str]:
    """(working directory, --sourcedir argument) of a case: 'outside' (the parent of the project, absolute source
    directory), 'root' (the source root itself, `--sourcedir .`), 'in:<dir>' (a directory of the project, relative
    source directory), 'rel' (outside, relative source directory)."""
    if where == 'root':
        return d, '.'
    if where.startswith('in:'):
        cwd = d / where[3:]
        cwd.mkdir(parents=True, exist_ok=True)
        return cwd, os.path.relpath(d, cwd)
    if where == 'rel':
        return base, os.path.relpath(d, base)
    return base, str(d)


def names_exist(where: str, touch: T.Sequence[str], cmds: T.Sequence[T.Dict[str, T.Any]]) -> bool:
    """Does a file named by a target command exist relative to that working directory?"""
    if where == 'root':
        return any(f in touch for c in cmds for f in c['files'])
    if where.startswith('in:'):
        return any(os.path.normpath(os.path.join(where[3:], f)) in touch for c in cmds for f in c['files'])
    return False


def choose_cwd(r: random.Random, proj: T.Dict[str, T.Any], cmds: T.Sequence[T.Dict[str, T.Any]]) -> str:
    """Where the rewriter is started.  File names of a command are relative to the source root; when a name also exists
    relative to the working directory the documentation does not say which file is meant, so such a directory is only
    chosen when both readings agree (the source root itself)."""
    c = r.random()
    if c < 0.25:
        return 'root'
    if c < 0.45:
        cands = ['in:wd', 'rel'] + (['in:sub'] if proj['have_sub'] else []) + (['in:other'] if 'other/meson.build' in proj['files'] else [])
        where = r.choice(cands)
        if not names_exist(where, proj['touch'], cmds):
            return where
    return 'outside'


def meson_rewrite(d: Path, args: T.List[str], cwd: Path, skip: bool = False, sourcedir: T.Optional[str] = None) -> T.Tuple[int, str, str]:
    cmd = [common.PYTHON, str(common.REPO / 'meson.py'), 'rewrite'] + (['-S'] if skip else []) + ['--sourcedir', sourcedir or str(d)] + args
    env = dict(os.environ)
    env['PYTHONDONTWRITEBYTECODE'] = '1'
    env.pop('MESON_FORCE_BACKTRACE', None)
    try:
        p = subprocess.run(cmd, cwd=cwd, env=env, stdout=subprocess.PIPE, stderr=subprocess.PIPE, text=True, errors='replace', timeout=300)
    except subprocess.TimeoutExpired:
        return 124, '', 'TIMEOUT'
    return p.returncode, p.stdout, p.stderr


def run_case(spec: T.Dict[str, T.Any], mods: T.Tuple[T.Any, T.Any, T.Any], alpha: ld.Alphabet, texts: ld.Alphabet) -> T.Dict[str, T.Any]:
    """Execute the commands of one case; returns the trace case (and keeps raw texts for reporting)."""
    mp, _pr, ml = mods
    with tempfile.TemporaryDirectory(prefix='c17-') as td:
        base = Path(td)
        d = base / 'proj'
        d.mkdir()
        for rel, text in spec['files'].items():
            (d / rel).parent.mkdir(parents=True, exist_ok=True)
            (d / rel).write_text(text, encoding='utf-8')
        (d / 'meson.options').write_text("option('opt', type : 'string', value : 'd')\n")
        for rel in spec['touch']:
            (d / rel).parent.mkdir(parents=True, exist_ok=True)
            if not (d / rel).exists():
                (d / rel).write_text('')
        f0, ok0, raw0 = read_project(d, mp, ml, alpha, texts)
        if not ok0:
            raise MachineryError('generated project does not parse: ' + json.dumps(spec['files'])[:2000])
        case: T.Dict[str, T.Any] = {'id': spec['id'], 'model': spec.get('model', 0), 'f0': f0, 'steps': []}
        log: T.List[T.Dict[str, T.Any]] = [{'files': raw0}]
        names = list(spec['names'])
        cwd, srcarg = working_dir(d, base, spec.get('cwd', 'outside'))
        for c in spec['cmds']:
            if c['op'] == 'target_add' and c['t'] not in names:
                names.append(c['t'])
            rc, out, err = meson_rewrite(d, cli_args(c), cwd, sourcedir=srcarg)
            failed = rc != 0 or 'Traceback (most recent call last)' in err + out or re.search(r'^ERROR', err + '\n' + out, re.M) is not None
            files, parses, raw = read_project(d, mp, ml, alpha, texts)
            info: T.Optional[T.List[T.Dict[str, T.Any]]] = []
            irc, iout, ierr = 0, '', ''
            if parses:
                script = [{'type': 'target', 'target': nm, 'operation': 'info'} for nm in names]
                irc, iout, ierr = meson_rewrite(d, ['command', json.dumps(script)], base, skip=True)
                info = parse_info(iout, ierr)
                if info is None and irc == 0 and '{' not in iout + ierr:
                    info = []                               # no target known: nothing is printed
            step = {'cmd': cmd_record(c), 'failed': failed, 'parses': parses, 'files': files, 'info': info or [],
                    'infofail': info is None or 'Traceback (most recent call last)' in ierr}
            case['steps'].append(step)
            log.append({'cmd': c, 'argv': cli_args(c), 'rc': rc, 'stderr': err[-1500:], 'stdout': out[-500:], 'files': raw,
                        'info_rc': irc, 'info_stderr': ierr[-600:] if step['infofail'] else ''})
            if not parses:
                break
        case['log'] = log
        case['spec'] = spec
        return case


# ---------------------------------------------------------------------------
# model projects for the spec -> code replay (renderings of RewriterModel!Init1..3; TLC checks the rendering)

MODEL_PROJECTS = {
    1: "project('p', version : '1.0', default_options : ['buildtype=release'])\n"
       "x2 = static_library('t2', 'a.c', 'b.c', extra_files : ['c.c'])\n"
       "x1 = executable('t1', 'a.c', install : true, extra_files : [])\n# end\n",
    2: "project('p')\nx2 = 'z'\nx1 = executable('t1', 'a.c', 'b.c', link_with : [], extra_files : [])\n# end\n",
    3: "project('p')\nexecutable('t1', 'a.c', extra_files : [])\nstatic_library('t1', 'b.c', extra_files : [])\n",
}


def txt(codepoints: T.Sequence[int]) -> str:
    return ''.join(chr(c) for c in codepoints)


def model_value(v: T.Dict[str, T.Any], ty: str) -> T.Any:
    if ty == 'ids':
        return [txt(x['s']) for x in v['e']]
    if ty == 'id':
        return txt(v['s'])
    k = v['k']
    if k == 'bool':
        return v['n'] == 1
    if k == 'str':
        return txt(v['s'])
    if k == 'arr':
        return [model_value(x, 'val') for x in v['e']]
    if k == 'void':
        return None
    raise MachineryError('model value ' + json.dumps(v))


def model_cases(chk: Check, count: int, maxlen: int) -> T.List[T.Dict[str, T.Any]]:
    """Command sequences of the model, from `tlc -simulate`."""
    cfg = (FAM / 'Rewriter_Sim.cfg').read_text().replace('MaxLen = 3', f'MaxLen = {maxlen}')
    res = run_tlc(FAM, 'Rewriter_MC', cfg_text=cfg, simulate=f'num={count * 3}', depth=maxlen + 2, tlc_seed=chk.seed + 1, workers=1, timeout=900)
    if res.error or res.invariant_violated:
        raise MachineryError('Rewriter_MC simulation failed:\n' + res.stdout[-1500:])
    chk.add_tlc('Rewriter_MC[simulate]', res, model=False)
    seen: T.Set[str] = set()
    specs = []
    for beh in res.json_lines():
        key = json.dumps(beh, sort_keys=True)
        if key in seen:
            continue
        seen.add(key)
        cmds = []
        for h in beh['hist']:
            files = h['files']
            if isinstance(files, dict):
                files = files.get('__set__', [])
            cmds.append(acmd(h['op'], txt(h['t']), fn=h['fn'], kind=h['kind'], dir_=txt(h['dir']), files=sorted(txt(f) for f in files),
                             kws=[{'k': k['k'], 'ty': k['ty'], 'py': model_value(k['v'], k['ty'])} for k in h['kws']],
                             opts=[(txt(o[0]), txt(o[1])) for o in h['opts']]))
        specs.append({'id': f'model:{len(specs)}', 'model': beh['init'], 'files': {'meson.build': MODEL_PROJECTS[beh['init']]},
                      'touch': ['a.c', 'b.c', 'c.c'], 'cmds': cmds, 'names': ['t1', 't2']})
        if len(specs) >= count:
            break
    return specs


# ---------------------------------------------------------------------------
# a few fixed projects (the shapes the property statement names), run in every tier in addition to the generated ones

FIXED_ROOT = """project('p', 'c', version : '1.0', license : 'MIT', default_options : ['warning_level=2', 'c_std=c99',
  'sbindir=sb', 'bindir=b1', 'b_ndebug=if-release', 'debug=true', 'python.platlibdir=plat', 'sub:opt=2', 'opt=1'])
# comment before
shared = ['a.c']   # trailing comment
lib = static_library('l1', shared, 'b.c', install : 1 + 2 * 3 == 7 ? true : false)
exe = executable('e1', shared, link_with : lib, c_args : ['-DX=' + (1 + 2).to_string(), 'q\\'q', 'back\\\\slash'],
  install : not (true and false), pie : (1 + 2) * 3 > 8 - (2 - 1), build_rpath : 'it\\'s',
  install_dir : '''raw\\n''')   # keep me
# a comment between
if true
  executable('e2', 'c.c', gui_app : not (1 >= 2 or false), name_suffix : ('a' + 'b').to_upper())
endif
src3 = ['c.c', 'a.c']
src3 += ['b.c']
executable('e3', src3, files('d.c'), extra_files : ['README'], d_debug : -(1 + 2), override_options : {'k' : 'v'} + {'k2' : 'it\\'s'})
src4 = ['a.c', f'''od
d.c''']
e4 = executable('e4', src4, c_args : ['-DA', '''p
q'''], name_suffix : f'''one
two''')
after4 = [1, 2]
e5 = executable('e5', ['a.c'], 'b.c', 'c.c', extra_files : ['README', ['NOTES.md']], install : true)
after5 = 3
executable('e6', files('d.c'), ['e.c', ['a.c']], 'b.c')
after6 = after5 + 1
subdir('sub')
message('done')
"""
# the same with a literal whose blanks before a newline the printer strips (a recorded finding)
FIXED_BLANK = "project('p', 'c')\nexecutable('b1', 'a.c', install_tag : '''a  \n\n\nb''', win_subsystem : 'x')\nafter = 1\n"
FIXED_SUB = "s_src = files('s.c', 't.c')\nexecutable('s1', s_src, install : 2 - (3 - 4) == 3)\n"


# a multi-directory project: every list is written in another build file than the target it feeds
FIXED_M_ROOT = """project('m', 'c', version : '1.0')
p_strs = ['a.c']            # plain strings: files of the directory of the target that uses them (sub/)
p_files = files('b.c')      # files(): files of this directory
p_extra = ['README']
flags = ['-DX=' + (1 + 2).to_string(), 'it\\'s']
subdir('other')
r1 = executable('r1', o_up, install : not (true and false))
subdir('sub')
message('done')
"""
FIXED_M_OTHER = """o_strs = ['c.c']   # used by a target of ../sub
o_files = files('d.c')
o_up = ['e.c']              # used by a target of the parent directory
o_extra = files('NOTES.md')
"""
FIXED_M_SUB = """executable('m1', p_strs, extra_files : p_extra, c_args : flags)
m2 = executable('m2', p_files, pie : (1 + 2) * 3 > 8 - (2 - 1))
executable('m3', o_strs, 'main.c', name_suffix : ('a' + 'b').to_upper())
executable('m4', o_files, extra_files : o_extra)
executable('m5', 'l.c')
"""
M_DIRS = {'m1': 'sub', 'm2': 'sub', 'm3': 'sub', 'm4': 'sub', 'm5': 'sub', 'r1': ''}


def fixed_multidir_cases() -> T.List[T.Dict[str, T.Any]]:
    A = acmd
    files = {'meson.build': FIXED_M_ROOT, 'other/meson.build': FIXED_M_OTHER, 'sub/meson.build': FIXED_M_SUB}
    touch = [os.path.join(d, f) for d in ('', 'sub', 'other') for f in ['a.c', 'b.c', 'c.c', 'd.c', 'e.c', 'l.c', 'main.c', 'new1.c', 'README', 'NOTES.md', 'TODO']]
    seqs = [
        # strings written in the parent, target below
        [A('src_add', 'm1', files=['sub/new1.c']), A('src_rm', 'm1', files=['sub/new1.c']), A('src_rm', 'm1', files=['sub/a.c'])],
        [A('src_rm', 'm1', files=['sub/a.c']), A('src_add', 'm1', files=['sub/a.c']), A('extra_files_add', 'm1', files=['sub/NOTES.md', 'TODO'])],
        [A('extra_files_rm', 'm1', files=['sub/README']), A('extra_files_add', 'm1', files=['sub/README']), A('src_add', 'm1', files=['new1.c', 'other/new1.c'])],
        # files() written in the parent
        [A('src_add', 'm2', files=['c.c', 'sub/a.c']), A('src_rm', 'm2', files=['b.c']), A('info', 'm2')],
        # strings / files() written in a sibling directory
        [A('src_add', 'm3', files=['other/a.c', 'sub/b.c']), A('src_rm', 'm3', files=['sub/c.c', 'other/a.c']), A('src_add', 'm3', files=['sub/c.c'])],
        [A('src_add', 'm4', files=['other/e.c', 'a.c']), A('src_rm', 'm4', files=['other/d.c']), A('extra_files_add', 'm4', files=['sub/TODO'])],
        [A('extra_files_rm', 'm4', files=['other/NOTES.md']), A('extra_files_add', 'm4', files=['other/NOTES.md', 'other/TODO'])],
        # strings written below, target in the parent
        [A('src_add', 'r1', files=['other/a.c', 'new1.c']), A('src_rm', 'r1', files=['e.c']), A('src_add', 'r1', files=['e.c'])],
        # a target of the sub-directory with its own sources: files of other directories
        [A('src_add', 'm5', files=['new1.c', 'other/a.c', 'sub/a.c']), A('src_rm', 'm5', files=['new1.c', 'sub/l.c'])],
    ]
    out = []
    for i, cmds in enumerate(seqs):
        for where in ('outside', 'root', 'in:wd'):
            out.append({'id': f'fixed:m{i}:{where}', 'files': files, 'touch': touch, 'cmds': [dict(c, cli='positional' if where == 'in:wd' else c['cli']) for c in cmds],
                        'names': sorted(M_DIRS), 'cwd': where, 'tdirs': M_DIRS, 'layout': 'fixed'})
    return out


def fixed_cases() -> T.List[T.Dict[str, T.Any]]:
    A = acmd
    files = {'meson.build': FIXED_ROOT, 'sub/meson.build': FIXED_SUB}
    touch = ['a.c', 'b.c', 'c.c', 'd.c', 'e.c', 'README', 'NOTES.md', 'sub/s.c', 'sub/t.c', 'sub/u.c', NEWLINE_FILE]
    names = ['l1', 'e1', 'e2', 'e3', 'e4', 'e5', 'e6', 's1', 'n1']
    kw = lambda k, v: {'k': k, 'ty': 'val', 'py': v}  # noqa: E731
    seqs = [
        [A('kw_set', 'e1', kws=[kw('build_by_default', False), kw('install', False)]), A('kw_delete', 'e1', kws=[kw('install', None)]), A('src_add', 'e1', files=['d.c'])],
        [A('src_add', 'e1', files=['e.c']), A('src_rm', 'e1', files=['e.c']), A('src_rm', 'e1', files=['a.c'])],
        [A('src_rm', 'e3', files=['b.c']), A('src_add', 'e3', files=['b.c']), A('extra_files_add', 'e3', files=['NOTES.md'])],
        [A('kw_set', 'e2', kws=[kw('pie', True)]), A('src_add', 'e2', files=['d.c']), A('target_rm', 'e2')],
        [A('src_add', 's1', files=['sub/u.c']), A('kw_set', 's1', kws=[kw('install_dir', 'bin')], cli='positional'), A('src_rm', 's1', files=['sub/t.c'], cli='positional')],
        [A('target_add', 'n1', kind='executable', files=['e.c']), A('src_add', 'n1', files=['d.c'], cli='positional'), A('target_rm', 'n1', cli='positional')],
        [A('do_set', opts=[('warning_level', '3'), ('buildtype', 'release')]), A('do_delete', opts=[('c_std', '')], cli='positional'),
         A('kw_set', '/', fn='project', kws=[kw('version', '2.0')], cli='positional')],
        [A('kw_add', '/', fn='project', kws=[kw('license', ['BSD'])]), A('kw_remove', '/', fn='project', kws=[kw('license', ['MIT'])]),
         A('kw_add', 'e1', kws=[{'k': 'link_with', 'ty': 'ids', 'py': ['lib']}])],
        [A('kw_remove', 'exe', kws=[{'k': 'link_with', 'ty': 'ids', 'py': ['lib']}]), A('extra_files_rm', 'e3', files=['README']), A('info', 'e3')],
        [A('target_rm', 'exe'), A('target_add', 'e1', kind='shared_library', dir_='sub', files=['u.c']), A('target_rm', 'e3', cli='positional')],
    ]
    seqs += [
        # literals that span lines inside the edited array / call, closing quotes followed by `]` / `)` and another statement
        [A('src_add', 'e4', files=['e.c']), A('kw_set', 'e4', kws=[kw('pie', True)]), A('src_rm', 'e4', files=[NEWLINE_FILE])],
        [A('kw_set', 'e4', kws=[kw('install_dir', 'bin')], cli='positional'), A('target_rm', 'e4')],
        # options whose name is the tail of another option's name
        [A('do_set', opts=[('bindir', 'b2')]), A('do_delete', opts=[('debug', '')], cli='positional'), A('do_delete', opts=[('opt', '')])],
        [A('do_set', opts=[('libdir', 'lib'), ('debug', 'false')]), A('do_delete', opts=[('bindir', ''), ('libdir', '')])],
        # one command that changes an inner array and the enclosing call (or two nested arrays), another statement right behind
        [A('src_rm', 'e5', files=['a.c', 'b.c'], cli='positional'), A('extra_files_rm', 'e5', files=['README', 'NOTES.md']),
         A('src_add', 'e5', files=['d.c', 'a.c'])],
        [A('extra_files_rm', 'e5', files=['NOTES.md', 'README'], cli='positional'), A('src_rm', 'e5', files=['c.c', 'a.c'])],
        [A('src_rm', 'e6', files=['a.c', 'e.c', 'b.c']), A('src_add', 'e6', files=['c.c']), A('src_rm', 'e6', files=['d.c', 'c.c'], cli='positional')],
        # textual values of the command line
        [A('kw_set', 'e5', kws=[kw('install', False), kw('pie', True)], cli='positional'), A('kw_set', 'e1', kws=[kw('gui_app', False)], cli='positional'),
         A('kw_add', '/', fn='project', kws=[kw('license', ['BSD'])], cli='positional')],
        [A('kw_set', 'e1', kws=[{'k': 'link_with', 'ty': 'id', 'py': 'lib'}], cli='positional'),
         A('kw_remove', 'e1', kws=[{'k': 'link_with', 'ty': 'ids', 'py': ['lib']}], cli='positional'),
         A('kw_remove', '/', fn='project', kws=[kw('license', 'MIT')], cli='positional')],
    ]
    out = [{'id': f'fixed:{i}', 'files': files, 'touch': touch, 'cmds': cmds, 'names': names} for i, cmds in enumerate(seqs)]
    out += fixed_multidir_cases()
    out.append({'id': 'fixed:blank', 'files': {'meson.build': FIXED_BLANK}, 'touch': ['a.c'], 'names': ['b1'],
                'cmds': [A('kw_set', 'b1', kws=[kw('pie', True)])]})
    return out


# ---------------------------------------------------------------------------
# workers, judging


def gen_spec(sd: int, it: int, mp: T.Any) -> T.Dict[str, T.Any]:
    rnd = random.Random(sd * 1000003 + it)
    proj = ProjGen(rnd, mp).generate()
    cmds = gen_commands(rnd, proj)
    return {'id': f'gen:{sd}:{it}', 'files': proj['files'], 'touch': proj['touch'], 'cmds': cmds,
            'names': [t['name'] for t in proj['targets']], 'cwd': choose_cwd(rnd, proj, cmds), 'layout': proj['layout'],
            'tdirs': {k: t['dir'] for t in proj['targets'] for k in (t['name'], t['var']) if k}}


def _worker(items: T.List[T.Dict[str, T.Any]]) -> T.Dict[str, T.Any]:
    mods = ld.load_modules()
    alpha = ld.Alphabet()
    texts = ld.Alphabet()
    cases = [run_case(spec, mods, alpha, texts) for spec in items]
    return {'alphabet': alpha.items, 'texts': [cps(t['x']) for t in texts.items], 'cases': cases}


def prefilter(chk: Check, specs: T.List[T.Dict[str, T.Any]], mods: T.Tuple[T.Any, T.Any, T.Any]) -> T.Set[str]:
    """Ids of generated projects that are not projects (TLC: the reference evaluator rejects one of their expressions)."""
    mp, _pr, ml = mods
    alpha = ld.Alphabet()
    texts = ld.Alphabet()
    cases = []
    unparsable: T.Set[str] = set()
    for spec in specs:
        f0 = []
        for rel, text in sorted(spec['files'].items()):
            try:
                toks, _ = ld.lex_real(text, mp)
                codes, trivs = split_statements(text, mp, rel)
            except ml.MesonException:
                unparsable.add(spec['id'])         # e.g. `not not x`: the expression generator also emits a few ill-formed programs
                break
            f0.append({'path': cps(rel), 't': [alpha.add(t) for t in toks], 'codes': [texts.add({'x': c}) for c in codes],
                       'trivs': [texts.add({'x': c}) for c in trivs]})
        if spec['id'] not in unparsable:
            cases.append({'id': spec['id'], 'model': 0, 'f0': f0, 'steps': [], 'log': [], 'spec': spec})
    stats = judge(chk, alpha.items, [cps(t['x']) for t in texts.items], cases, 'prefilter', count=False)
    del stats
    return {c['id'] for c in cases if c.get('skipped')} | unparsable


def merge(batches: T.Iterable[T.Dict[str, T.Any]]) -> T.Tuple[T.List[T.Any], T.List[T.Any], T.List[T.Dict[str, T.Any]]]:
    alpha = ld.Alphabet()
    texts = ld.Alphabet()
    cases = []
    for b in batches:
        amap = [alpha.add(t) for t in b['alphabet']]
        tmap = [texts.add({'x': t}) for t in b['texts']]
        for c in b['cases']:
            for fs in [c['f0']] + [s['files'] for s in c['steps']]:
                for f in fs:
                    f['t'] = [amap[j] for j in f['t']]
                    f['codes'] = [tmap[j] for j in f['codes']]
                    f['trivs'] = [tmap[j] for j in f['trivs']]
            cases.append(c)
    return alpha.items, [t['x'] for t in texts.items], cases


def features(c: T.Dict[str, T.Any], v: T.Dict[str, T.Any]) -> T.List[str]:
    """Input-class labels used to make signatures of recurring findings stable across seeds."""
    step = v.get('step', 0)
    out: T.List[str] = []
    if not step or step > len(c['log']) - 1:
        return out
    before = c['log'][step - 1]['files']
    cmd = c['log'][step]['cmd']
    clause = v.get('clause', '')
    if cmd['op'] == 'target_add':
        path = os.path.join(cmd['dir'], 'meson.build')
        if clause == 'DoesNotParse' and path in before and before[path] and not before[path].endswith('\n'):
            out.append('file-without-final-newline')
        if clause == 'ProjectDiffers' and 'variables' in v.get('note', '') and cmd['kind'] != 'executable':
            out.append('non-executable')
        if clause == 'DoesNotParse' and not out and re.search(r'[^A-Za-z0-9_\- ]', cmd['t']):
            out.append('name-not-an-identifier')
    if clause == 'ProjectDiffers' and ('kwarg ' in v.get('note', '') or 'variables' in v.get('note', '')):
        # a multi-line literal with a blank or an empty line before a newline, in a statement that was re-printed
        after = c['log'][step]['files']
        for path, text in before.items():
            lost = [x for x in blank_literals(text) if x not in (after.get(path) or '')]
            if lost and all(re.sub(r'\s+\n', '\n', x) in (after.get(path) or '') for x in lost):
                out.append('multi-line-literal-with-blank-before-newline')
                break
    spec = c.get('spec') or {}
    if clause == 'ProjectDiffers' and cmd['op'] in ('src_add', 'src_rm', 'extra_files_add', 'extra_files_rm') and 'addressed target: ' in v.get('note', '') \
            and (spec.get('tdirs') or {}).get(cmd['t']) and names_exist(spec.get('cwd', 'outside'), spec.get('touch', []), [cmd]):
        # the named file exists relative to the working directory (here: the source root, so there is one reading only)
        out.append('named-file-exists-relative-to-working-directory+target-in-sub-directory')
    if clause == 'ProjectDiffers' and cmd['op'] == 'extra_files_add':
        after = c['log'][step]['files']
        if any(re.search(r"extra_files\s*:\s*'(?:[^'\\]|\\.)*'\s*\+\s*\[", t) for t in after.values()):
            out.append('extra_files-is-a-single-string')
    if clause == 'ProjectDiffers' and cmd['op'] == 'do_set' and v.get('note', '').endswith('default_options'):
        if any(re.search(r"default_options\s*:\s*\[[^\]]*'\s*\+", t) for t in before.values()):
            out.append('default_options-with-computed-element')
    if clause == 'ProjectDiffers' and (cmd['op'].startswith('kw_') or cmd['op'] in ('target_add',)):
        vals = [k['py'] for k in cmd['kws']] + [cmd['t']] + list(cmd['files'])
        flat = [x for y in vals for x in (y if isinstance(y, list) else [y])]
        if any(isinstance(x, str) and '\\' in x for x in flat):
            out.append('value-with-backslash')
    return out


def failure_class(stderr: str) -> str:
    """Exception type and innermost meson frame of a traceback, else the first ERROR line without its location."""
    m = re.search(r'^(\w+(?:\.\w+)*(?:Error|Exception)\b).*$', stderr, re.M)
    if 'Traceback (most recent call last)' in stderr and m:
        frames = re.findall(r'File "[^"]*mesonbuild/([^"]+)", line \d+, in (\w+)', stderr)
        where = f'{frames[-1][0]}:{frames[-1][1]}' if frames else '?'
        return f'crash:{m.group(1)}@{where}'
    m = re.search(r'^(?:\S+:\d+:\d+: )?ERROR: (.*)$', stderr, re.M)
    if m:
        return 'error:' + re.sub(r'\s+', ' ', m.group(1))[:120]
    return ''


def signature(v: T.Dict[str, T.Any], c: T.Dict[str, T.Any]) -> str:
    fts = features(c, v)
    note = v.get('note', '')
    clause = v.get('clause', '')
    if clause == 'FailedCommand':
        step = v.get('step', 0)
        fc = failure_class(c['log'][step]['stderr']) if 0 < step < len(c['log']) else ''
        if fc.startswith('crash:'):
            return f'RewriterCrashed@{fc[6:]}'
        if fc and 'Rewriting the meson.build failed' not in fc:
            return f'RewriterFailed@{fc[6:]}'
    if 'multi-line-literal-with-blank-before-newline' in fts:
        return f'{clause}@re-printed statement@multi-line-literal-with-blank-before-newline'
    if fts:
        step = v.get('step', 0)
        cmd = c['log'][step]['cmd']
        if 'value-with-backslash' in fts and ('addressed target: kwarg ' in note or 'project kwarg ' in note) \
                and any(note.endswith('kwarg ' + k['k']) for k in cmd['kws']):
            note = cmd['op'] + ': the addressed keyword'
        return f'{clause}@{note}@' + '+'.join(fts)
    step = v.get('step', 0)
    stmt = ''
    if step and step <= len(c['log']) - 1:
        # the statement that changed, as it was before the command
        b, a = c['log'][step - 1]['files'], c['log'][step]['files']
        for path in sorted(b):
            if a.get(path) != b[path]:
                bl, al = b[path].split('\n'), (a.get(path) or '').split('\n')
                k = 0
                while k < min(len(bl), len(al)) and bl[k] == al[k]:
                    k += 1
                stmt = ' '.join(' '.join(bl[k:k + 4]).split())[:120]
                break
    ops = ','.join(s['cmd']['op'] for s in c['steps'][:step])
    return f'{clause}@{note}@{ops}@{stmt}'


KEEP_STEP = ('cmd', 'failed', 'parses', 'files', 'info', 'infofail')


def judge(chk: Check, alphabet: T.List[T.Any], texts: T.List[T.Any], cases: T.List[T.Dict[str, T.Any]], label: str,
          count: bool = True) -> T.Dict[str, int]:
    by_id = {c['id']: c for c in cases}
    stats = {'skipped': 0}
    for part_no, part in enumerate(common.chunks(cases, 4000)):
        with scratch('c17-') as d:
            tf = d / 'cases.json'
            tf.write_text(json.dumps({'alphabet': alphabet, 'texts': texts, 'cases': [
                {'id': c['id'], 'model': c['model'], 'f0': c['f0'], 'steps': [{k: s[k] for k in KEEP_STEP} for s in c['steps']]} for c in part]}))
            env = {'TRACE_FILE': str(tf)}
            res = run_tlc(FAM, 'TraceRewriter', env=env, timeout=3000, heap='8g')
            if not res.clean:
                raise MachineryError('TraceRewriter did not complete cleanly:\n' + res.stdout[-3000:])
            if res.distinct != 2 * len(part):
                raise MachineryError(f'TraceRewriter judged {res.distinct // 2} of {len(part)} cases')
            bad = res.json_lines()
            if bad:
                bad = run_tlc(FAM, 'TraceRewriter', env=env, timeout=3000, workers=1, heap='8g').json_lines()
        chk.add_tlc(f'TraceRewriter[{label}#{part_no}]', res, model=False)
        if count:
            chk.traces += len(part)
        for v in bad:
            c = by_id.get(v['id'], {})
            if v['clause'].startswith('skip:'):
                stats['skipped'] += 1
                c['skipped'] = True
                continue
            step = v.get('step', 0)
            log = c.get('log', [])
            detail = {'verdict': v, 'case': c.get('spec'),
                      'before': log[step - 1]['files'] if 0 < step < len(log) else None,
                      'step': {k: log[step][k] for k in ('cmd', 'argv', 'rc', 'stderr', 'files', 'info_stderr')} if 0 < step < len(log) else None,
                      'info': [{'name': txt(i['name']), 'sources': [txt(s) for s in i['sources']], 'extra': [txt(s) for s in i['extra']]}
                               for i in c['steps'][step - 1]['info']] if 0 < step <= len(c.get('steps', [])) else None}
            chk.violation(signature(v, c), detail)
    return stats


def main(chk: Check) -> None:
    quick = chk.tier == 'quick'
    cfg = (FAM / 'Rewriter_MC.cfg').read_text().replace('MaxLen = 3', 'MaxLen = %d' % (3 if quick else 4))
    res = run_tlc(FAM, 'Rewriter_MC', cfg_text=cfg, timeout=3000, allow_violation=False)
    chk.add_tlc('Rewriter_MC', res)
    # multi-directory projects: path resolution per list kind, list-level edits refine the rule book
    cfg = (FAM / 'RewriterDirs_MC.cfg').read_text().replace('MaxLen = 2', 'MaxLen = %d' % (1 if quick else 2))
    res = run_tlc(FAM, 'RewriterDirs_MC', cfg_text=cfg, timeout=3000, allow_violation=False)
    chk.add_tlc('RewriterDirs_MC', res)
    ngen = int(os.environ.get('C17_NGEN', 160 if quick else 2500))          # development knobs; the tiers use the defaults
    nmodel = int(os.environ.get('C17_NMODEL', 50 if quick else 450))
    chk.rule = ('a case is one generated (or model) project with a sequence of 1-3 rewriter commands run through the real CLI; it is '
                'non-trivial when at least one command changed a build file and every step was judged (distinct (project, commands) pairs).')
    specs = model_cases(chk, nmodel, 3)
    chk.extra['model_sequences'] = len(specs)
    mods = ld.load_modules()
    cand = [gen_spec(chk.seed, it, mods[0]) for it in range(int(ngen * 1.4) + 4)]
    invalid = prefilter(chk, cand, mods)
    chk.extra['generated_projects_rejected_by_reference_evaluator'] = f'{len(invalid)}/{len(cand)}'
    chosen = [sp for sp in cand if sp['id'] not in invalid][:ngen]
    # twins: the same abstract commands once more in the command-line form; both are judged by the same rule book
    twins = [tw for tw in (as_command_line(sp) for sp in chosen[::5] + fixed_cases()) if tw is not None]
    chk.extra['command_line_twins'] = len(twins)
    specs += chosen + fixed_cases() + twins
    nw = common.NCPU
    random.Random(chk.seed).shuffle(specs)
    jobs = [list(part) for part in common.chunks(specs, max(1, len(specs) // (nw * 3) + 1))]
    with ProcessPoolExecutor(max_workers=nw) as ex:
        alphabet, texts, cases = merge(ex.map(_worker, jobs))
    chk.evaluations += sum(len(c['steps']) for c in cases)
    stats = judge(chk, alphabet, texts, cases, 'A+B')
    ops: T.Dict[str, int] = {}
    for c in cases:
        if c.get('skipped'):
            continue
        changed = any(c['log'][k]['files'] != c['log'][k - 1]['files'] for k in range(1, len(c['log'])))
        for s in c['steps']:
            ops[s['cmd']['op']] = ops.get(s['cmd']['op'], 0) + 1
        if changed:
            chk.nontriv([c['spec']['files'], [cli_args(x) for x in c['spec']['cmds']]])
    for c in cases[:: max(1, len(cases) // 6)][:6]:
        chk.sample({'id': c['id'], 'meson.build': c['spec']['files']['meson.build'][:400], 'commands': [cli_args(x) for x in c['spec']['cmds']],
                    'after': c['log'][-1]['files'].get('meson.build', '')[:400]})
    chk.extra['commands_by_operation'] = ops
    lay: T.Dict[str, int] = {}
    for c in cases:
        key = f"{c['spec'].get('layout', 'model')}/{c['spec'].get('cwd', 'outside')}"
        lay[key] = lay.get(key, 0) + 1
    chk.extra['cases_by_layout_and_working_directory'] = lay
    chk.extra['cases_skipped_invalid_project'] = stats['skipped']
    chk.assumptions += [
        'file names of target commands are relative to the source root (pinned by unittests/rewritetests.py test_target_subdir); the CLI is started '
        'outside the project, in the source root, or in a directory of the project relative to which none of the named files exists - a name '
        'that exists relative to the working directory but means another file relative to the source root is not generated (undocumented)',
        'multi-directory layouts: one list (strings or files()) per field written in the parent or a sibling build file; nested sub-directories, '
        'lists reached through more than one variable hop across files and `..` inside list elements of the initial project are not generated',
        'removing a file that reaches the target through a variable also feeding another target may be refused (nothing changes)',
        'list-valued keyword arguments (license, link_with, ...) are compared as lists: a scalar equals the one-element list, [] equals absence',
        'default option values True/False are read as true/false; default_options given as a dict are not addressed by set/delete',
        'extra_files_rm is not issued for a target whose extra_files is a single string (refused with a warning; neither documented nor pinned)',
        'targets referenced by other targets (link_with) are not removed; CRLF files, foreach-generated targets and subprojects are not generated',
        'tokens of the files are produced by the real Lexer (checked at small scope by C02); statement boundaries by the real Parser',
        'generated projects whose expressions the reference evaluator rejects (index out of range, ...) are skipped by the judge; so are '
        'projects where an operand of ?: / and / or that is never evaluated would fail (the static interpreter of the rewriter evaluates all operands)',
    ]


def replay(chk: Check, data: T.Dict[str, T.Any]) -> None:
    spec = data['detail']['case']
    out = _worker([spec])
    alphabet, texts, cases = merge([out])
    judge(chk, alphabet, texts, cases, 'replay')


if __name__ == '__main__':
    sys.exit(common.run_check(main, PROP, replay=replay))
