"""C18 - TAP streams are interpreted per the TAP specification.

1. TLC model-checks specs/tap/TAP_MC: the operational parser state machine equals
   the declarative TAP rules on every stream over the abstract line alphabet up
   to N lines.
2. (A) every stream of that same space (alphabet exported by the TLC run) is
   rendered to concrete text, fed to the real ``TAPParser`` line by line, and
   the recorded per-line events are judged by ``TraceTAP`` (TLC).
3. (B) long random streams (bigger numbers, YAML-heavy) through the real
   ``TAPParser`` and through ``TestRunTAP`` (whole-test verdict with exit
   status), judged by the same trace spec; arbitrary text must never raise.
"""
from __future__ import annotations

import asyncio
import itertools
import json
import random
import sys
import typing as T
from concurrent.futures import ProcessPoolExecutor

from . import common
from .common import Check, MachineryError, SPECS, run_tlc, scratch

PROP = 'C18'


# ---------------------------------------------------------------------------
# rendering of abstract lines

def render(ln: T.Dict[str, T.Any], rnd: random.Random) -> T.Tuple[str, str]:
    """abstract line -> (text, expected subtest name)."""
    k = ln['k']
    name = ''
    if k == 'test':
        txt = 'ok' if ln['a'] == 1 else 'not ok'
        if ln['n']:
            txt += rnd.choice([' ', '  ']) + str(ln['n'])
        name = rnd.choice(['', '- desc', 'some words here', '- it works: really', "-quote's"])
        if name:
            txt += ' ' + name
        d = ln['d']
        if d == 'skip':
            txt += rnd.choice([' # SKIP', ' # skip not today', '# Skipped: reason', ' #SKIP', '  #  sKiP x'])
        elif d == 'todo':
            txt += rnd.choice([' # TODO', ' # todo later', '#ToDo', ' # TODO: fix # me'])
        else:
            txt += rnd.choice(['', '', ' ', ' # just a note', ' # skipping is not a directive here'.replace('skipping', 'xskip')])
    elif k == 'plan':
        txt = f'1..{ln["a"]}'
        d = ln['d']
        if d == 'skip':
            txt += rnd.choice([' # SKIP', ' # skip everything', '# Skipped'])
        elif d == 'todo':
            txt += rnd.choice([' # TODO', ' # todo not allowed here'])
        else:
            txt += rnd.choice(['', '', ' '])
    elif k == 'bail':
        txt = rnd.choice(['Bail out!', 'Bail out! the sky is falling', 'Bail out!   '])
    elif k == 'version':
        txt = f'TAP version {ln["a"]}'
    elif k == 'ystart':
        txt = ' ' * ln['a'] + rnd.choice(['---', '--- ', '--- # yaml'])
    elif k == 'yend':
        txt = ' ' * ln['a'] + rnd.choice(['...', '... '])
    elif k == 'ibody':
        txt = ' ' * ln['a'] + rnd.choice(['message: "hello"', 'ok 1 - indented test', '- item', 'severity: fail', '1..3'])
    elif k == 'comment':
        txt = rnd.choice(['# diagnostic', '#', '# ok 1 not a test', '#not ok'])
    elif k == 'blank':
        txt = ''
    elif k == 'unknown':
        txt = rnd.choice(['garbage', 'Not TAP at all', '1..x', 'OK 1', 'TAP Version 13', 'bail out!', 'test 1 ok'])
    else:
        raise MachineryError('unknown abstract line ' + repr(ln))
    return txt + rnd.choice(['\n', '\n', '\n', '\r\n']), name.strip()


# ---------------------------------------------------------------------------
# projection of real events

def project(ev: T.Any, mt: T.Any, expect_name: str, lineno: int) -> T.Dict[str, T.Any]:
    P = mt.TAPParser
    if isinstance(ev, P.Test):
        f = 0 if ev.name == expect_name else 1
        return {'k': 'test', 'n': ev.number, 'r': ev.result.name, 'f': f}
    if isinstance(ev, P.Plan):
        return {'k': 'plan', 'n': ev.num_tests, 'r': '', 'f': 2 * int(bool(ev.late)) + int(bool(ev.skipped))}
    if isinstance(ev, P.Bailout):
        return {'k': 'bail', 'n': 0, 'r': '', 'f': 0}
    if isinstance(ev, P.Version):
        return {'k': 'version', 'n': ev.version, 'r': '', 'f': 0}
    if isinstance(ev, P.Error):
        return {'k': 'error', 'n': 0, 'r': '', 'f': 0}
    if isinstance(ev, P.UnknownLine):
        return {'k': 'unknown', 'n': 0, 'r': '', 'f': 0 if ev.lineno == lineno else 1}
    return {'k': 'alien:' + type(ev).__name__, 'n': 0, 'r': '', 'f': 0}


def run_parser(mt: T.Any, lines: T.List[T.Dict[str, T.Any]], rnd: random.Random) -> T.Dict[str, T.Any]:
    """Drive the real parser line by line; returns the trace case (without id)."""
    p = mt.TAPParser()
    evs = []
    texts = []
    for idx, ln in enumerate(lines):
        txt, name = render(ln, rnd)
        texts.append(txt)
        try:
            got = list(p.parse_line(txt))
        except Exception as e:  # property: no input makes the parser raise
            evs.append([{'k': 'raised:' + type(e).__name__, 'n': 0, 'r': '', 'f': 0}])
            break
        evs.append([project(e, mt, name, idx + 1) for e in got])
    else:
        try:
            evs.append([project(e, mt, '', 0) for e in p.parse_line(None)])
        except Exception as e:
            evs.append([{'k': 'raised:' + type(e).__name__, 'n': 0, 'r': '', 'f': 0}])
    return {'s': lines, 'ev': evs, 'exit': 0, 'cls': '', 'text': texts}


class _StubHarness:
    def log_subtest(self, *a: T.Any, **k: T.Any) -> None:
        pass


def run_testrun(mt: T.Any, texts: T.List[str], exitcode: int) -> str:
    """Whole-test classification through the real TestRunTAP (parse + complete)."""
    from mesonbuild.backend.backends import TestSerialisation, TestProtocol
    from mesonbuild.utils.core import EnvironmentVariables
    ts = TestSerialisation('t', 'p', ['s'], ['/bin/true'], False, None, False, True, [], EnvironmentVariables(),
                           False, None, 30, None, [], TestProtocol.TAP, 0, False, False, [], '1.0', False, '/bin/true')
    run = mt.TestRun(ts, {}, 't', 30, True, False, False)
    run.start(['/bin/true'])

    async def lines() -> T.AsyncIterator[str]:
        for t in texts:
            yield t

    asyncio.run(run.parse(_StubHarness(), lines()))
    run.returncode = exitcode
    run.complete()
    res = run.res
    if res.is_bad():
        return 'BAD'
    if res is mt.TestResult.SKIP:
        return 'SKIP'
    if res is mt.TestResult.OK:
        return 'OK'
    return 'OTHER:' + res.name


# ---------------------------------------------------------------------------

def _worker_enum(args: T.Tuple[T.List[T.Dict[str, T.Any]], int, int, int, int]) -> T.List[T.Dict[str, T.Any]]:
    alphabet, n, lo, hi, sd = args
    common.use_repo_meson()
    from mesonbuild import mtest as mt
    out = []
    k = len(alphabet)
    for code in range(lo, hi):
        idxs = []
        c = code
        for _ in range(n):
            idxs.append(c % k)
            c //= k
        lines = [alphabet[j] for j in idxs]
        rnd = random.Random(sd * 1000003 + code * 7 + n)
        case = run_parser(mt, lines, rnd)
        case['id'] = f'A{n}:{code}'
        out.append(case)
    return out


def _rand_stream(rnd: random.Random) -> T.List[T.Dict[str, T.Any]]:
    n = rnd.randint(3, 40)
    lines: T.List[T.Dict[str, T.Any]] = []
    if rnd.random() < 0.6:
        lines.append({'k': 'version', 'a': rnd.choice([12, 13, 13, 13, 14]), 'n': 0, 'd': 'none'})
    planned = rnd.random() < 0.5
    ntests = rnd.randint(0, 12)
    if planned:
        lines.append({'k': 'plan', 'a': max(0, ntests + rnd.choice([0, 0, 0, 0, -1, 1])), 'n': 0,
                      'd': rnd.choice(['none'] * 6 + ['skip', 'todo'])})
    num = 0
    while len(lines) < n:
        r = rnd.random()
        if r < 0.55:
            num += 1
            explicit = rnd.random() < 0.6
            nn = num if rnd.random() < 0.9 else rnd.randint(1, 15)
            lines.append({'k': 'test', 'a': rnd.choice([1, 1, 1, 0]), 'n': nn if explicit else 0,
                          'd': rnd.choice(['none'] * 5 + ['skip', 'todo'])})
            if explicit:
                num = nn
            if rnd.random() < 0.3:
                ind = rnd.choice([1, 2])
                lines.append({'k': 'ystart', 'a': ind, 'n': 0, 'd': 'none'})
                for _ in range(rnd.randint(0, 3)):
                    lines.append({'k': rnd.choice(['ibody', 'ibody', 'ibody', 'ystart', 'blank', 'comment', 'unknown']),
                                  'a': rnd.choice([1, 2, 2]), 'n': 0, 'd': 'none'})
                    if lines[-1]['k'] in ('blank', 'comment', 'unknown'):
                        lines[-1]['a'] = 0
                if rnd.random() < 0.8:
                    lines.append({'k': 'yend', 'a': 2, 'n': 0, 'd': 'none'})
        elif r < 0.65:
            lines.append({'k': 'comment', 'a': 0, 'n': 0, 'd': 'none'})
        elif r < 0.72:
            lines.append({'k': 'blank', 'a': 0, 'n': 0, 'd': 'none'})
        elif r < 0.78:
            lines.append({'k': 'unknown', 'a': 0, 'n': 0, 'd': 'none'})
        elif r < 0.83:
            lines.append({'k': rnd.choice(['ibody', 'ystart', 'yend']), 'a': 2, 'n': 0, 'd': 'none'})
        elif r < 0.88:
            lines.append({'k': 'plan', 'a': rnd.randint(0, 14), 'n': 0, 'd': rnd.choice(['none'] * 4 + ['skip', 'todo'])})
        elif r < 0.91:
            lines.append({'k': 'bail', 'a': 0, 'n': 0, 'd': 'none'})
        elif r < 0.94:
            lines.append({'k': 'version', 'a': rnd.choice([12, 13]), 'n': 0, 'd': 'none'})
        else:
            num += 1
            lines.append({'k': 'test', 'a': 1, 'n': 0, 'd': 'none'})
    if not planned and rnd.random() < 0.6:
        cnt = sum(1 for ln in lines if ln['k'] == 'test')
        lines.append({'k': 'plan', 'a': max(0, cnt + rnd.choice([0, 0, 0, -1, 1])), 'n': 0, 'd': 'none'})
    return lines


def _worker_rand(args: T.Tuple[int, int, int]) -> T.List[T.Dict[str, T.Any]]:
    lo, hi, sd = args
    common.use_repo_meson()
    from mesonbuild import mtest as mt
    out = []
    for j in range(lo, hi):
        rnd = random.Random(sd * 7919 + j)
        lines = _rand_stream(rnd)
        case = run_parser(mt, lines, rnd)
        case['id'] = f'B:{j}'
        if not any(e and e[0]['k'].startswith('raised') for e in case['ev']):
            exitcode = rnd.choice([0, 0, 0, 1])
            try:
                case['cls'] = run_testrun(mt, case['text'], exitcode)
            except Exception as e:
                case['cls'] = 'raised:' + type(e).__name__
            case['exit'] = exitcode
        out.append(case)
    return out


def _worker_fuzz(args: T.Tuple[int, int, int]) -> T.List[str]:
    lo, hi, sd = args
    common.use_repo_meson()
    from mesonbuild import mtest as mt
    frags = ['ok', 'not ok', ' ', '1', '..', '#', 'SKIP', 'TODO', 'Bail out!', 'TAP version ', '13', '---', '...', '\t',
             '\x00', 'é', '  ', '9999999999999999999999', 'skip', '\r', '- ', 'x', '1..', '\\', '\x0c', '\x1f', ' ']
    bad = []
    for j in range(lo, hi):
        rnd = random.Random(sd * 31337 + j)
        lines = [''.join(rnd.choice(frags) for _ in range(rnd.randint(0, 8))) + rnd.choice(['\n', '', '\r\n'])
                 for _ in range(rnd.randint(0, 12))]
        try:
            evs = list(mt.TAPParser().parse(iter(lines)))
            for e in evs:
                if not isinstance(e, (mt.TAPParser.Test, mt.TAPParser.Plan, mt.TAPParser.Bailout, mt.TAPParser.Version,
                                      mt.TAPParser.Error, mt.TAPParser.UnknownLine)):
                    bad.append(json.dumps({'lines': lines, 'alien': repr(e)}))
        except Exception as e:
            bad.append(json.dumps({'lines': lines, 'raised': type(e).__name__ + ': ' + str(e)}))
    return bad


def judge(chk: Check, cases: T.List[T.Dict[str, T.Any]], label: str) -> None:
    """Validate recorded executions against the spec with TLC (TraceTAP)."""
    by_id = {c['id']: c for c in cases}
    # batches are bounded by the size of the JSON text (every TLC worker parses the whole file; a 124 MB batch of
    # long random streams made the JSON module fail under memory pressure), not only by the number of cases
    batches: T.List[T.Tuple[T.List[T.Dict[str, T.Any]], str]] = []
    cur: T.List[T.Dict[str, T.Any]] = []
    cur_txt: T.List[str] = []
    cur_size = 0
    for c in cases:
        t = json.dumps({k: c[k] for k in ('id', 's', 'ev', 'exit', 'cls')})
        if cur and (cur_size + len(t) > 24_000_000 or len(cur) >= 150000):
            batches.append((cur, '[' + ','.join(cur_txt) + ']'))
            cur, cur_txt, cur_size = [], [], 0
        cur.append(c)
        cur_txt.append(t)
        cur_size += len(t) + 1
    if cur:
        batches.append((cur, '[' + ','.join(cur_txt) + ']'))
    for part_no, (part, text) in enumerate(batches):
        with scratch('c18-') as d:
            tf = d / 'cases.json'
            tf.write_text(text)
            res = run_tlc(SPECS / 'tap', 'TraceTAP', env={'TRACE_FILE': str(tf)}, timeout=3600, heap='8g')
            bad = res.json_lines()
            if not res.clean:
                raise MachineryError('TraceTAP did not complete cleanly:\n' + res.stdout[-1500:])
            if res.distinct != 2 * len(part):
                raise MachineryError(f'TraceTAP judged {res.distinct // 2} of {len(part)} cases')
            if bad:
                # re-run single-threaded so that the report is not interleaved
                res1 = run_tlc(SPECS / 'tap', 'TraceTAP', env={'TRACE_FILE': str(tf)}, timeout=3600, workers=1, heap='8g')
                bad = res1.json_lines()
        chk.add_tlc(f'TraceTAP[{label}#{part_no}]', res, model=False)
        chk.traces += len(part)
        for v in bad:
            c = by_id.get(v['id'], {})
            sig = signature(c, v)
            chk.violation(sig, {'verdict': v, 'abstract_lines': c.get('s'), 'text': c.get('text'),
                                'events_observed': c.get('ev'), 'exit': c.get('exit'), 'class_observed': c.get('cls')})


def signature(c: T.Dict[str, T.Any], v: T.Dict[str, T.Any]) -> str:
    """Stable signature: clause + abstract stream up to the failing line."""
    lines = c.get('s', [])
    upto = v.get('line') or len(lines)
    short = ';'.join(f"{ln['k']}/{ln['a']}/{ln['n']}/{ln['d']}" for ln in lines[:upto])
    return f"{v.get('clause')}@{short}"


def main(chk: Check) -> None:
    quick = chk.tier == 'quick'
    n_mc = 3 if quick else 4
    n_impl = 3 if quick else 4
    n_rand = 3000 if quick else 60000
    n_fuzz = 5000 if quick else 200000
    chk.rule = ('A: every stream of <= N abstract TAP lines over the alphabet exported by the TLC model (44 line forms), '
                'each rendered to concrete text with a seeded choice of spelling; B: seeded random streams of 3-40 lines '
                'incl. whole-test verdict through TestRunTAP; fuzz: arbitrary text must not raise. Non-trivial = the '
                'expected events contain at least one error, bail-out, plan or YAML transition (distinct abstract streams).')
    cfg = ('SPECIFICATION Spec\nCONSTANTS MaxLen = %d\n MaxNum = 3\n MaxPlan = 2\n'
           'INVARIANT OperationalEqualsDeclarative\nINVARIANT RunIsIncremental\nINVARIANT OneSubtestPerTestLine\n'
           'INVARIANT BadStaysBad\nINVARIANT TypeOK\nCHECK_DEADLOCK FALSE\nPOSTCONDITION EmitAlphabet\n' % n_mc)
    res = run_tlc(SPECS / 'tap', 'TAP_MC', cfg_text=cfg, collect=['alphabet.json'], timeout=3600,
                  allow_violation=False, heap='8g')
    chk.add_tlc(f'TAP_MC[MaxLen={n_mc}]', res)
    alphabet = json.loads(res.collected['alphabet.json'])
    chk.extra['alphabet_size'] = len(alphabet)
    chk.extra['model_bound_lines'] = n_mc
    chk.extra['impl_exhaustive_bound_lines'] = n_impl

    # (A) exhaustive streams through the real parser
    k = len(alphabet)
    with ProcessPoolExecutor(max_workers=common.NCPU) as ex:
        for n in range(0, n_impl + 1):
            total = k ** n
            step = max(1, min(20000, total // (common.NCPU * 2) + 1))
            jobs = [(alphabet, n, lo, min(total, lo + step), chk.seed) for lo in range(0, total, step)]
            cases: T.List[T.Dict[str, T.Any]] = []
            for part in ex.map(_worker_enum, jobs):
                cases.extend(part)
                if len(cases) >= 300000:
                    _account(chk, cases)
                    judge(chk, cases, f'A{n}')
                    cases = []
            if cases:
                _account(chk, cases)
                judge(chk, cases, f'A{n}')
        # (B) random streams + verdict
        step = max(1, n_rand // (common.NCPU * 2))
        jobs3 = [(lo, min(n_rand, lo + step), chk.seed) for lo in range(0, n_rand, step)]
        cases = []
        for part in ex.map(_worker_rand, jobs3):
            cases.extend(part)
        _account(chk, cases)
        judge(chk, cases, 'B')
        # fuzz: no exception, only known event types
        step = max(1, n_fuzz // (common.NCPU * 2))
        for bad in ex.map(_worker_fuzz, [(lo, min(n_fuzz, lo + step), chk.seed) for lo in range(0, n_fuzz, step)]):
            for b in bad:
                chk.violation('raise@' + b[:200], json.loads(b))
        chk.evaluations += n_fuzz
    chk.exhaustive = True
    chk.assumptions += [
        'abstract line alphabet: indentation levels 1 and 2 only; descriptions never contain "#" before the directive',
        'error events are compared by presence and count per line, never by message text',
        'TAP 14 subtests and pragmas are outside the statement and are not generated',
        'the duplicate/missing-number rule is the end-of-stream rule "highest number differs from count"',
    ]


def _account(chk: Check, cases: T.List[T.Dict[str, T.Any]]) -> None:
    chk.evaluations += len(cases)
    for c in cases:
        flat = [e for g in c['ev'] for e in g]
        if any(e['k'] in ('error', 'bail', 'plan') for e in flat) or any(ln['k'] in ('ystart', 'yend') for ln in c['s']):
            chk.nontriv(';'.join(f"{ln['k']}{ln['a']}{ln['n']}{ln['d']}" for ln in c['s']))
    for c in cases[:: max(1, len(cases) // 3)][:3]:
        chk.sample({'id': c['id'], 'text': c['text'], 'events': c['ev'], 'exit': c['exit'], 'class': c['cls']}, limit=9)


def replay(chk: Check, data: T.Dict[str, T.Any]) -> None:
    """Re-run the recorded concrete text through the current parser and judge it again."""
    common.use_repo_meson()
    from mesonbuild import mtest as mt
    det = data['detail']
    if 'text' not in det:
        list(mt.TAPParser().parse(iter(det['lines'])))
        return
    p = mt.TAPParser()
    evs = []
    for idx, txt in enumerate(det['text']):
        evs.append([project(e, mt, '', idx + 1) for e in p.parse_line(txt)])
    evs.append([project(e, mt, '', 0) for e in p.parse_line(None)])
    for g in evs:
        for e in g:
            if e['k'] == 'test':
                e['f'] = 0
    case = {'id': 'replay', 's': det['abstract_lines'], 'ev': evs, 'exit': det.get('exit', 0), 'cls': '', 'text': det['text']}
    if det.get('class_observed'):
        case['cls'] = run_testrun(mt, det['text'], case['exit'])
    judge(chk, [case], 'replay')


if __name__ == '__main__':
    sys.exit(common.run_check(main, PROP, replay=replay))
